#!/usr/bin/env python3
"""Copy refactoring fixtures produced by sub-agents into /verif/refactors and index them.
usage: add_refactors.py <Rk> <dir-with-refactor-N.diff-and-NOTES.md> [--declined N=reason ...]
The properties a fixture is replayed against are those already associated with the files it touches."""
import json, os, re, shutil, sys
HERE = os.path.dirname(os.path.dirname(os.path.abspath(__file__)))
ix_path = os.path.join(HERE, "refactors", "index.json")
ix = json.load(open(ix_path))
by_file = {}
for e in ix:
    for f in e["files"]:
        by_file.setdefault(f, set()).update(e["props"])
by_dir = {}
for f, ps in by_file.items():
    by_dir.setdefault(os.path.dirname(f), set()).update(ps)
rk, src = sys.argv[1], sys.argv[2]
declined = {}
for a in sys.argv[3:]:
    if a.startswith("--declined="):
        n, reason = a[len("--declined="):].split("=", 1)
        declined[n] = reason
have = {e["id"] for e in ix}
for n in range(1, 10):
    d = os.path.join(src, f"refactor-{n}.diff")
    if not os.path.exists(d):
        continue
    fid = f"{rk}-{n}"
    if fid in have:
        continue
    text = open(d).read()
    files = sorted({m for m in re.findall(r"^\+\+\+ b/(\S+)", text, re.M) if m.endswith(".go") and not m.endswith("_test.go")})
    props = set()
    for f in files:
        props |= by_file.get(f) or by_dir.get(os.path.dirname(f), set())
    shutil.copy(d, os.path.join(HERE, "refactors", f"{fid}.diff"))
    e = {"id": fid, "diff": f"{fid}.diff", "files": files, "props": sorted(props)}
    if str(n) in declined:
        e["declined"] = declined[str(n)]
    ix.append(e)
    print(fid, files, len(props))
if os.path.exists(os.path.join(src, "NOTES.md")):
    shutil.copy(os.path.join(src, "NOTES.md"), os.path.join(HERE, "refactors", f"{rk}.md"))
json.dump(ix, open(ix_path, "w"), indent=1)
