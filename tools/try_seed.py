#!/usr/bin/env python3
"""Confirm a seeded change produced in a scratch worktree and run every check against it.

usage: try_seed.py <worktree> <seed-id> <property-id> [--keep] [--race]

Steps (all in the scratch worktree, /repo is only touched in step 5):
 1. extract the non-test source change as patch.diff
 2. with the change: go build, go vet, full test suite must pass (demo excluded); demo must FAIL
 3. without the change: demo must PASS
 4. run all 20 checks against the worktree (-repo <worktree>) and record which rules fire
 5. apply the patch to /repo, run the target property's registered quick command, undo it
 6. with --keep: store patch.diff, demo and meta.json under /verif/seeded/<seed-id>/
"""
import json, os, subprocess, sys, shutil, glob, re

ENV = dict(os.environ, GOFLAGS="-mod=mod", GOPROXY="off", GOSUMDB="off", GOTOOLCHAIN="local", CGO_ENABLED="1")
ENV.pop("GOWORK", None)


def sh(cmd, cwd, timeout=900):
    p = subprocess.run(cmd, shell=True, cwd=cwd, env=ENV, capture_output=True, text=True, timeout=timeout)
    return p.returncode, (p.stdout + p.stderr)


def main():
    wt, sid, prop = sys.argv[1], sys.argv[2], sys.argv[3]
    keep = "--keep" in sys.argv
    race = "--race" in sys.argv
    res = {"seed": sid, "property": prop, "worktree": wt}
    rc, patch = sh("git diff HEAD -- . ':(exclude)*_test.go' ':(exclude)SEED.md'", wt)
    # untracked non-test go files
    rc, untracked = sh("git ls-files --others --exclude-standard", wt)
    new_src = [f for f in untracked.split() if f.endswith(".go") and not f.endswith("_test.go")]
    demos = [f for f in untracked.split() if f.endswith("zz_seed_test.go")]
    if not patch.strip() and not new_src:
        print("no source change found"); return 2
    if not demos:
        print("no demo test found"); return 2
    demo = demos[0]
    pkg = "./" + os.path.dirname(demo) if os.path.dirname(demo) else "."
    res["changed_files"] = re.findall(r"^\+\+\+ b/(.*)$", patch, re.M) + new_src
    flag = "-race " if race else ""
    # 2. with the change
    rc, out = sh("go build ./... && go vet ./...", wt)
    res["build_vet_ok"] = rc == 0
    if rc != 0:
        print("BUILD/VET FAILED\n", out[-2000:])
    rc, out = sh("go test -count=1 -skip TestSeedDemo ./...", wt, 1800)
    res["suite_passes_with_change"] = rc == 0
    if rc != 0:
        print("SUITE FAILS WITH CHANGE\n", out[-3000:])
    rc, out = sh(f"go test {flag}-count=1 -run TestSeedDemo {pkg}", wt, 1200)
    res["demo_fails_with_change"] = rc != 0
    res["demo_output_with_change"] = out[-1500:]
    # 3. without the change
    open(os.path.join(wt, ".seed.patch"), "w").write(patch)
    sh("git apply -R .seed.patch", wt)
    moved = []
    for f in new_src:
        os.rename(os.path.join(wt, f), os.path.join(wt, f + ".off")); moved.append(f)
    rc, out = sh(f"go test {flag}-count=1 -run TestSeedDemo {pkg}", wt, 1200)
    res["demo_passes_without_change"] = rc == 0
    if rc != 0:
        print("DEMO FAILS WITHOUT CHANGE\n", out[-2000:])
    for f in moved:
        os.rename(os.path.join(wt, f + ".off"), os.path.join(wt, f))
    sh("git apply .seed.patch", wt)
    os.remove(os.path.join(wt, ".seed.patch"))
    # 4. all checks against the worktree
    fired = {}
    for i in range(1, 21):
        p = f"C{i:02d}"
        rc, out = sh(f"/verif/bin/ruxcheck -property {p} -repo {wt} -quiet-evidence", "/verif", 300)
        reps = [l.split("\t") for l in out.splitlines() if l.startswith("REPORT\t")]
        loadfail = "cannot analyse" in out
        if reps or loadfail:
            fired[p] = [f"{r[1]} | {r[2]} | {r[3]} | {r[4]} | {r[5][:160]}" for r in reps] or ["load failure"]
    res["checks_fired"] = fired
    res["target_detected"] = prop in fired
    # 5. the registered command against /repo with the patch applied
    if not new_src and "--norepo" not in sys.argv:
        pf = "/tmp/seed_%s.diff" % sid
        open(pf, "w").write(patch)
        rc, out = sh("git -C /repo status --porcelain", "/repo")
        if out.strip():
            print("/repo not clean, skipping registered-command run")
        else:
            rc, out = sh(f"git -C /repo apply {pf}", "/repo")
            if rc == 0:
                ev = f"/verif/evidence/{prop}.json"
                bak = open(ev).read() if os.path.exists(ev) else None
                rc2, out2 = sh(f"./check {prop} quick", "/verif", 300)
                res["registered_cmd_exit"] = rc2
                res["registered_cmd_violation_line"] = [l for l in out2.splitlines() if l.startswith("VIOLATION")]
                sh("git -C /repo checkout -- .", "/repo")
                if bak is not None:
                    open(ev, "w").write(bak)
            else:
                print("patch does not apply to /repo:", out)
        os.remove(pf)
    ok = res["build_vet_ok"] and res["suite_passes_with_change"] and res["demo_fails_with_change"] and res["demo_passes_without_change"]
    res["confirmed"] = ok
    print(json.dumps({k: v for k, v in res.items() if k != "demo_output_with_change"}, indent=1))
    if keep and ok:
        d = f"/verif/seeded/{sid}"
        os.makedirs(d, exist_ok=True)
        open(f"{d}/patch.diff", "w").write(patch)
        for f in new_src:
            os.makedirs(os.path.dirname(f"{d}/newfiles/{f}"), exist_ok=True)
            shutil.copy(os.path.join(wt, f), f"{d}/newfiles/{f}")
        shutil.copy(os.path.join(wt, demo), f"{d}/zz_seed_test.go")
        if os.path.exists(os.path.join(wt, "SEED.md")):
            shutil.copy(os.path.join(wt, "SEED.md"), f"{d}/SEED.md")
        meta = {
            "id": sid, "breaks_property": prop, "demo_package_dir": os.path.dirname(demo) or ".",
            "changed_files": res["changed_files"],
            "needs_to_manifest": "see SEED.md (written by the sub-agent that produced the change)",
            "confirmed_by": ["go build ./... && go vet ./...", "go test -count=1 -skip TestSeedDemo ./... (passes with the change)",
                             f"go test {flag}-count=1 -run TestSeedDemo {pkg} (fails with the change, passes without)"],
            "checks_fired_on_scratch_copy": fired,
            "detected_by_target_property_check": res["target_detected"],
            "registered_quick_cmd_exit_with_patch_applied_to_repo": res.get("registered_cmd_exit"),
        }
        json.dump(meta, open(f"{d}/meta.json", "w"), indent=1)
        print("kept in", d)
    return 0 if ok else 1


if __name__ == "__main__":
    sys.exit(main())
