#!/usr/bin/env python3
"""Run every check against behaviour-preserving refactorings (refactor-k.diff files) on scratch worktrees.
usage: try_refactors.py <dir-with-refactor-diffs> [...]   — any report is a potential false alarm."""
import glob, os, subprocess, sys, tempfile, shutil, json
from concurrent.futures import ThreadPoolExecutor
def sh(cmd, cwd="/verif"):
    p = subprocess.run(cmd, shell=True, cwd=cwd, capture_output=True, text=True)
    return p.returncode, p.stdout + p.stderr
props = [f"C{i:02d}" for i in range(1, 21)]
def one(diff):
    wt = tempfile.mkdtemp(prefix="ruxref_"); os.rmdir(wt)
    sh(f"git -C /repo worktree add -q --detach {wt} HEAD")
    try:
        rc, out = sh(f"git apply {diff}", wt)
        if rc != 0:
            return diff, {"error": "patch does not apply: " + out[:200]}
        fired = {}
        for p in props:
            rc, out = sh(f"/verif/bin/ruxcheck -property {p} -repo {wt} -verif /verif -quiet-evidence")
            reps = [l.split("\t") for l in out.splitlines() if l.startswith("REPORT\t")]
            if "cannot analyse" in out:
                fired[p] = ["load failure: " + out[:200]]
            elif reps:
                fired[p] = [f"{r[1]} | {r[2]} | {r[3]} | {r[5][:140]}" for r in reps]
        return diff, fired
    finally:
        sh(f"git -C /repo worktree remove --force {wt}"); shutil.rmtree(wt, ignore_errors=True)
diffs = []
for d in sys.argv[1:]:
    if os.path.isfile(d):
        diffs.append(os.path.abspath(d))
    else:
        diffs += sorted(glob.glob(os.path.join(d, "refactor-*.diff"))) or sorted(glob.glob(os.path.join(d, "*.diff")))
with ThreadPoolExecutor(5) as ex:
    for diff, fired in ex.map(one, diffs):
        print(("ALARM " if fired else "quiet ") + diff)
        for p, rs in fired.items() if isinstance(fired, dict) else []:
            for r in (rs if isinstance(rs, list) else [rs]):
                print("     ", p, r)
