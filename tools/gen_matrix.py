#!/usr/bin/env python3
"""Rebuild /verif/seeded/MATRIX.md from the meta.json of every kept seed (written by recheck_seeds.py) and
replace the catch matrix of DESIGN.md section 11.1 with it."""
import glob, json, os, re
HERE = os.path.dirname(os.path.dirname(os.path.abspath(__file__)))
rows = []
missed = []
for d in sorted(glob.glob(os.path.join(HERE, "seeded", "*"))):
    if not os.path.isdir(d):
        continue
    sid = os.path.basename(d)
    meta = json.load(open(os.path.join(d, "meta.json")))
    f = meta.get("checks_fired_on_scratch_copy") or meta.get("checks_fired") or {}
    f = {k: sorted(set(x.split(" | ")[0] for x in v)) for k, v in f.items()}
    tgt = meta["breaks_property"]
    if tgt not in f:
        missed.append(sid)
    rows.append(f"| {sid} | {tgt} | {'yes: ' + ', '.join(f[tgt]) if tgt in f else '**no**'} | {', '.join(k for k in sorted(f) if k != tgt) or '-'} |")
head = "| seed | breaks | reported by its own property's check (rules) | other checks that also report it |\n|---|---|---|---|\n"
table = head + "\n".join(rows) + "\n"
open(os.path.join(HERE, "seeded", "MATRIX.md"), "w").write(table)
p = os.path.join(HERE, "DESIGN.md")
s = open(p).read()
i = s.index("| seed | breaks | reported by its own property's check (rules) |")
j = i
lines = s[i:].split("\n")
n = 0
for ln in lines:
    if ln.startswith("|"):
        n += len(ln) + 1
    else:
        break
s = s[:i] + table + s[i + n:]
open(p, "w").write(s)
print(len(rows), "rows;", "missed:", missed)
