#!/bin/sh
# usage: probe_one.sh <worktree> <diff> <prop> [dumpdir]  — apply a diff to a scratch worktree, run one check quietly, undo
wt=$1; diff=$2; prop=$3; dump=${4:-}
cd "$wt" && git apply "$diff" || exit 2
if [ -n "$dump" ]; then mkdir -p "$dump"; ${RUXCHECK:-/verif/bin/ruxcheck} -property "$prop" -repo "$wt" -verif /verif -quiet-evidence -dump-normalised "$dump" 2>&1 | grep -v conda | cut -c1-400
else ${RUXCHECK:-/verif/bin/ruxcheck} -property "$prop" -repo "$wt" -verif /verif -quiet-evidence 2>&1 | grep -v conda | cut -c1-400; fi
git apply -R "$diff"
