#!/usr/bin/env python3
"""Re-run every check against every kept seed (scratch worktree per seed, removed afterwards) and update meta.json
and the catch matrix /verif/seeded/MATRIX.md."""
import json, os, subprocess, sys, glob, tempfile, shutil
from concurrent.futures import ThreadPoolExecutor
def sh(cmd, cwd="/verif"):
    p = subprocess.run(cmd, shell=True, cwd=cwd, capture_output=True, text=True)
    return p.returncode, p.stdout + p.stderr
ids = sys.argv[1:] or [os.path.basename(d) for d in sorted(glob.glob("/verif/seeded/*")) if os.path.isdir(d)]
props = [f"C{i:02d}" for i in range(1, 21)]
def one(sid):
    d = f"/verif/seeded/{sid}"
    meta = json.load(open(f"{d}/meta.json"))
    wt = tempfile.mkdtemp(prefix="ruxseed_")
    os.rmdir(wt)
    rc, out = sh(f"git -C /repo worktree add -q --detach {wt} HEAD")
    try:
        rc, out = sh(f"git apply {d}/patch.diff", wt)
        if rc != 0:
            return sid, None, "patch does not apply: " + out
        if os.path.isdir(f"{d}/newfiles"):
            sh(f"cp -r {d}/newfiles/. {wt}/")
        fired = {}
        for p in props:
            rc, out = sh(f"/verif/bin/ruxcheck -property {p} -repo {wt} -verif /verif -quiet-evidence")
            reps = [l.split("\t") for l in out.splitlines() if l.startswith("REPORT\t")]
            if reps or "cannot analyse" in out:
                fired[p] = sorted(set(r[1] for r in reps)) or ["load failure"]
        meta["checks_fired_on_scratch_copy"] = fired
        meta["detected_by_target_property_check"] = meta["breaks_property"] in fired
        json.dump(meta, open(f"{d}/meta.json", "w"), indent=1)
        return sid, meta, ""
    finally:
        sh(f"git -C /repo worktree remove --force {wt}")
        shutil.rmtree(wt, ignore_errors=True)
with ThreadPoolExecutor(4) as ex:
    res = list(ex.map(one, ids))
rows = []
for sid, meta, err in res:
    if meta is None:
        print(sid, err); continue
    f = meta["checks_fired_on_scratch_copy"]
    tgt = meta["breaks_property"]
    rows.append(f"| {sid} | {tgt} | {'yes: ' + ', '.join(f[tgt]) if tgt in f else '**no**'} | {', '.join(k for k in sorted(f) if k != tgt) or '-'} |")
    print(sid, tgt, "detected" if tgt in f else "MISSED", {k: v for k, v in f.items()})
if not sys.argv[1:]:
    open("/verif/seeded/MATRIX.md", "w").write("| seed | breaks | reported by its own property's check (rules) | other checks that also report it |\n|---|---|---|---|\n" + "\n".join(rows) + "\n")
