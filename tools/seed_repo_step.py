#!/usr/bin/env python3
"""For every kept seed: apply its patch to /repo, run the registered quick command of the property it breaks
(and of every property listed in meta['also_check']), undo the patch, record exit codes in meta.json."""
import json, os, subprocess, sys, glob
def sh(cmd, cwd="/verif"):
    p = subprocess.run(cmd, shell=True, cwd=cwd, capture_output=True, text=True)
    return p.returncode, p.stdout + p.stderr
ids = sys.argv[1:] or [os.path.basename(d) for d in sorted(glob.glob("/verif/seeded/*")) if os.path.isdir(d)]
rc, out = sh("git -C /repo status --porcelain")
assert not out.strip(), "/repo not clean"
for sid in ids:
    d = f"/verif/seeded/{sid}"
    meta = json.load(open(f"{d}/meta.json"))
    prop = meta["breaks_property"]
    rc, out = sh(f"git -C /repo apply {d}/patch.diff")
    if rc != 0:
        print(sid, "patch does not apply", out); continue
    try:
        ev = f"/verif/evidence/{prop}.json"
        bak = open(ev).read()
        rc2, out2 = sh(f"./check {prop} quick")
        open(ev, "w").write(bak)
        meta["registered_quick_cmd_exit_with_patch_applied_to_repo"] = rc2
        meta["violation_line"] = [l for l in out2.splitlines() if l.startswith("VIOLATION")]
        meta["reports"] = [l for l in out2.splitlines() if ": violated:" in l or ": undecided:" in l][:12]
        print(sid, prop, "exit", rc2, meta["violation_line"])
    finally:
        sh("git -C /repo checkout -- .")
    json.dump(meta, open(f"{d}/meta.json", "w"), indent=1)
rc, out = sh("git -C /repo status --porcelain")
assert not out.strip(), "/repo not clean after run"
