#!/usr/bin/env python3
"""Generate /verif/MANIFEST.json from the claims table below.

Every property that is not in CLAIMS is listed under not_applicable with its
reason from NOT_APPLICABLE (or a generic "not built yet" while work is in
progress), so the manifest is valid and current at every commit.
"""
import json, os, sys

HERE = os.path.dirname(os.path.dirname(os.path.abspath(__file__)))

ENV = "GOFLAGS=-mod=mod GOPROXY=off GOSUMDB=off GOTOOLCHAIN=local CGO_ENABLED=0"

# id -> (technique, level text, level note, design ref)
CLAIMS = {
    "C03": (
        "effect analysis over SSA (shared vs request-local writes), lock-set analysis, pool typestate",
        "Decides, for all schedules at once, the structural half of race freedom inside rux: no write to "
        "router-shared memory is reachable from the request-phase entry points except cache internals under the "
        "exclusive lock; no append onto a shared slice; lock discipline of every cachedRoutes method; ownership "
        "typestate of the pooled context (Get->Init->...->Put, Put only of what was taken, never deferred). "
        "It does not decide what user handlers do nor response equality with a sequential run.",
        "Trusted: go/packages+go/ssa faithfully represent /repo; summaries of the few external callees on these paths "
        "(container/list mutators, sync, regexp read-only); user handlers (dynamic HandlerFunc calls) are the stated boundary; "
        "registration finishes before the first request.",
        "DESIGN.md 5 (C03)",
    ),
    "C08": (
        "typestate/dominance rules over SSA for the wrapper writer's commit latch, must-pass-through on dispatcher exits, who-may-access",
        "Decides for all operation sequences (per-method path property): the underlying WriteHeader has one call site behind a "
        "'not yet written' latch that its own path sets, carrying the recorded status after the 0->200 default; every underlying call "
        "that can commit implicitly (Write, Flush) is dominated by the explicit commit; WriteHeader only records positive statuses; "
        "every normal and recovered exit of the dispatcher passes the commit; the raw writer is reachable only through the wrapper. "
        "It does not decide body bytes or Length() arithmetic under short writes.",
        "Trusted: net/http commits implicitly on Write/Flush (documented); handlers write through c.Resp / Context helpers; go/ssa.",
        "DESIGN.md 5 (C08)",
    ),
    "C09": (
        "dominance/path rules over SSA for the recover frame, who-may-call recover, in-chain recovery must abort",
        "Decides for every panic position at once: the dispatcher installs the recover frame iff a hook is set and before anything that "
        "can run user code; inside it recover()!=nil guards store-value -> exactly one hook call -> commit, no re-panic; no other recover "
        "or deferred frame in rux's request core (nothing resumes the chain); every in-chain recovering middleware of the module parks "
        "the cursor; a panicked context is never recycled and every pooled context is fully re-initialised (C03-POOL, C10-RESET). "
        "It does not decide what the hook writes nor net/http's behaviour on a propagated panic.",
        "Trusted: Go defer/recover semantics; user handlers/hook are opaque; C10's re-initialisation argument.",
        "DESIGN.md 5 (C09)",
    ),
    "C10": (
        "definite-assignment (field coverage) analysis with callee summaries and value provenance over SSA",
        "Decides for all request histories: every field of Context and of its embedded writer is assigned on every path of Init "
        "(reset/Reset inlined) to a value that does not depend on the previous request (constant, nil, Init parameter, own writer "
        "address, zero-length re-slice never re-extended); 'router' is request-invariant by who-may-write; Get->Init->dispatch and "
        "Reset->dispatch orderings; no request-phase write to package-level/router state. It does not decide state user handlers keep "
        "outside the context.",
        "Trusted: sync.Pool semantics; handlers do not retain *Context after the request; go/ssa.",
        "DESIGN.md 5 (C10)",
    ),
    "C04": (
        "path-sensitive sequence-shape evaluation of chain values (E-SEQ) + cursor monotonicity (dominance/path rules over SSA)",
        "Decides for every registration program and every handler behaviour: each of the chain-building sites concatenates in the "
        "documented order (global, read at request time, ++ group ++ route ++ [main handler]; global ++ fallback chains), derived from "
        "how slices are appended/copied, not from data; the executor invokes handlers[index] from exactly one place, in a loop guarded "
        "by index < len, with index+1 on every path to and between invocations and no other cursor writes in the request path (so: at "
        "most once, in order, automatic continuation). The reverse order of code after Next() is argued from the call stack, not checked.",
        "Trusted: go/ssa lowering of append/copy/composite literals; handlers do not call SetHandlers/Reset on their own context mid-chain.",
        "DESIGN.md 5 (C04)",
    ),
    "C05": (
        "all-paths store of the sentinel (typestate), loop-condition re-read, limit-check dominance over growth sites of chain lists",
        "Decides for every chain shape and abort position: all abort entry points park the cursor at the single sentinel on every path, "
        "AbortWithStatus records the caller's status first, IsAborted compares with >= sentinel, the executor re-reads the cursor after "
        "every handler and abort never unwinds; every list that becomes part of an executed chain must be bounded below the sentinel "
        "where it grows. The last clause fails on the pinned tree (F14, known finding: global / not-found / not-allowed lists and the "
        "executed sum are unbounded).",
        "Trusted: handlers cannot write the unexported cursor; go/ssa.",
        "DESIGN.md 5 (C05)",
    ),
    "C12": (
        "save/restore pairing on all paths (dominance + must-pass-through), alias analysis of the stored chain (E-SEQ fresh bit), who-may-write, call-graph containment",
        "Decides for all registration programs: Group restores exactly the two scope fields, on every path from the callback to return, "
        "to the values loaded before any store, extends them only before the callback and writes no other router field; the chain a "
        "route receives from the group list is a fresh copy; Use extends the group list iff inside a group; Controller/Resource "
        "register only inside the function literal passed to Group. It does not decide the string-level 'reachable exactly under the "
        "concatenated prefixes' (C11) nor behaviour when the callback panics.",
        "Trusted: registration is single-threaded; go/ssa.",
        "DESIGN.md 5 (C12)",
    ),
    "C01": (
        "path-sensitive table-accumulation rule, writer/reader key agreement by canonical form, tier-order dominance, representation (escaped-text) taint, anchoring",
        "Decides, for every route table and request at once, that the index lookup walks is complete and ordered as stated: inserts "
        "never forget earlier routes, every allowed method is keyed, writer and reader compute tier keys the same way, tiers are "
        "searched static -> cache -> first-segment -> residual with first regexp match in registration order winning, escaped pattern "
        "text never reaches a value compared with raw request text, every pattern is anchored at both ends. It does not decide that "
        "the generated regexp accepts exactly the documented pattern language.",
        "Trusted: regexp semantics; go/ssa range-loop lowering; the pattern->regexp translation itself (not decided).",
        "DESIGN.md 5 (C01)",
    ),
    "C02": (
        "per-iteration path counting (one name and one capture group per variable), registration-invariant dominance (group count == name count), who-may-write, value-pair provenance",
        "Decides for all accepted patterns: the i-th capture group corresponds to the i-th variable name (exactly one of each per loop "
        "iteration on every path; registration panics unless NumSubexp == len(names)), parameters reach the context only from the "
        "match that selected the route, the cache stores and returns exactly the pair the miss path returned (and its index/list agree on keys), every route's "
        "regexp is compiled from its own pattern (no table lookup), static routes expose none. It does not decide that the values equal the path substrings (run-time regexp behaviour).",
        "Trusted: regexp submatch indexing (documented); go/ssa.",
        "DESIGN.md 5 (C02)",
    ),
    "C06": (
        "path-sensitive stage automaton over all CFG paths of QuickMatch, guard extraction, matcher identity for Allow, chain-choice table of the dispatcher",
        "Decides for all route tables, option combinations and requests: the fallback stages run in the fixed order S1..S4, each only "
        "after all earlier ones failed and only under its option flag / HEAD test, a success returns that stage's values at once; the "
        "matcher always receives the normalised path (of the request or of InterceptAll); the Allow set is computed with the dispatch "
        "matcher over all other methods and recorded iff matched; the dispatcher maps the three outcomes to the three chains; default "
        "handlers answer 404 / sorted Allow with 200 for OPTIONS else 405. It does not decide which routes match (C01).",
        "Trusted: option flags fixed after registration; go/ssa.",
        "DESIGN.md 5 (C06)",
    ),
    "C07": (
        "store/lookup key agreement by canonical form, value-pair provenance, whole-struct copy coverage, index/list pairing, nil-guard dominance",
        "Decides for all histories the structural preconditions of cache transparency: entries are stored and looked up under method + "
        "whole normalised path, the stored pair is the pair the miss path returned, the cached copy differs from the matched route only "
        "in regex/matches/params, the cache never shadows the static tier and is filled only after a dynamic match, the cache's index "
        "and list agree on keys, and the cache pointer is nil-tested before every use. It does not decide response equality of twin "
        "routers step by step (history-valued).",
        "Trusted: handlers treat Params as read-only (premise of the property); container/list; go/ssa.",
        "DESIGN.md 5 (C07)",
    ),
    "C14": (
        "index/list pairing rules, orientation consistency, capacity-guard path rule, key agreement, lock-set analysis",
        "Decides the structural invariants of the two-structure LRU for all operation sequences: index and list change together, one "
        "orientation (front = most recent, back = victim) is used by insert / re-store / hit / evict, only Set inserts and every "
        "insertion reaches the Len() > size guard which removes exactly one LRU element, the router stores under the lookup key and "
        "consults the cache before dynamic matching, recency mutations hold the exclusive lock. It does not decide LRU conformance of "
        "concrete histories.",
        "Trusted: container/list semantics; go/ssa.",
        "DESIGN.md 5 (C14)",
    ),
    "C11": (
        "provenance ('last function applied') of registered and looked-up paths, guarded-index prover (E-IDX) with post-/pre-conditions, guard-to-source table for the encoded path",
        "Decides for all strings: the same formatPath, on the same router, stands between every externally supplied path and the "
        "tables on both the registration and the lookup side (prefix + path normalised as a whole, before the route is visible); every "
        "index/slice of the normaliser and of match is in bounds (including the proved post-condition 'non-empty, starts with /' that "
        "match relies on), i.e. normalisation is total; the dispatcher feeds URL.Path or EscapedPath() exactly per option. It does not "
        "decide which strings normalise to the same key nor idempotence of formatPath.",
        "Trusted: strings.IndexByte contract; go/ssa.",
        "DESIGN.md 5 (C11)",
    ),
    "C13": (
        "must-pass-through gates before table visibility, exact-membership (deviant idiom) rule, guarded-index prover over the lookup core with a frozen table of trusted discharges",
        "Decides (1) that every rejection the property lists is a check each registration path passes before the route is visible in any "
        "table, that compile errors panic, options freeze with the first counted insert, method names are compared exactly; (2) that "
        "every potentially panicking construct in rux's own lookup code (index/slice, unchecked assertion, explicit panic, nil function "
        "field, nil cache, nil map write) is safe for all method and path strings given only invariants established at registration. "
        "It does not decide that every invalid pattern string is recognised as invalid.",
        "Trusted: the named discharges in idx.go (regexp submatch arity, pool/element dynamic types backed by who-may-write checks, the "
        "handler boundary for the executor's index); go/ssa.",
        "DESIGN.md 5 (C13)",
    ),
    "C15": (
        "who-may-write and same-path pairing rules for the name index (second sentence of the property only)",
        "Decides for every naming API and registration program: a route name is set only in constructors (indexed by appendRoute on "
        "every path with a non-empty name, before any return) or together with namedRoutes[sameName] = sameRoute; the index is written "
        "nowhere else, never deleted from; GetRoute is a plain lookup and BuildURL resolves through it. The BuildURL -> Match round "
        "trip (first sentence) quantifies over run-time string values through net/url and is NOT decided by this family.",
        "Trusted: Go map assignment semantics; go/ssa.",
        "DESIGN.md 5 (C15) and 8",
    ),
    "C16": (
        "table extraction by constant-folding partial evaluation of the registration callback, compared with the table in Resource's own doc comment; path rules for only/uses/reject",
        "Decides for all controllers: the (methods, path, name) triple the code can register for each of the seven action names equals "
        "the documented REST table row by row; an action is registered at most once and only when the controller implements it with the "
        "handler signature; Uses()[name] goes to the route of the same name; non-pointer/non-struct controllers panic first; everything "
        "goes through Group; the static /res/create outranks /res/{id} (C01-TIERS). It does not decide reflection on exotic method sets.",
        "Trusted: reflect.Kind constants; the doc comment is the repository's statement of the table; go/ssa.",
        "DESIGN.md 5 (C16)",
    ),
    "C17": (
        "backward provenance (taint) from every file-system sink with a positive fixture, registration-time construction of the file server, pattern-level extension filter",
        "Decides that in rux's own code no request-derived text reaches a file-system sink except through net/http's file server: "
        "roots/files are registration-time values, the per-request closures only call ServeHTTP of the captured handler, the extension "
        "filter is part of the route regex. Confinement inside http.FileServer/http.Dir/ServeFile itself is trusted, not decided.",
        "Trusted: net/http path cleaning and '..' rejection; the positive fixture proves the rule can fire; go/ssa.",
        "DESIGN.md 5 (C17)",
    ),
    "C18": (
        "decision-table extraction over all CFG paths of binding.Auto, validate-on-every-success-path rule over all binders, error-discipline and obligation rules for pkg/binding",
        "Decides for all methods and Content-Type strings (the code touches them only through the extracted comparisons) that Auto's "
        "decision table is the documented one, in order; that every binder returns a non-nil error or Validate(dest); that no error is "
        "dropped and nothing in pkg/binding panics outside Must*. The encode->bind round trip is a codec property and NOT decided.",
        "Trusted: formam / encoding/json / encoding/xml / gookit/validate return errors rather than panic; go/ssa.",
        "DESIGN.md 5 (C18)",
    ),
    "C19": (
        "status-argument dominance over body writes (fixpoint over helper wrappers), content-type constant table, who-may-set Content-Type, switch-arm exhaustiveness, error discipline",
        "Decides for all statuses and values: every helper records its own status argument before any body byte, uses its documented "
        "content-type constant, the renderers set Content-Type only when absent and before writing, every Accept arm naming a supported "
        "type produces a response and the first supported type wins, render errors are never dropped, pooled buffers are reset, and the "
        "wrapper commits the recorded status before any body byte (C08 rules). That bodies decode back to the "
        "value is a codec property and NOT decided.",
        "Trusted: goutil httpctype constants; go/ssa and go/ast.",
        "DESIGN.md 5 (C19)",
    ),
    "C20": (
        "truth-table enumeration of CFG paths over four boolean atoms (16 valuations), guard/whitelist path rules for the method override, adapter argument provenance",
        "Decides the 'if and only if' of the Basic-auth gate for every header/account value at once (the code touches them only through "
        "the four atoms), the POST-only / {PUT,PATCH,DELETE}-only / recorded-original / delegate-once shape of the override handler, and "
        "that the http.Handler adapters pass c.Resp and c.Req, that WrapHTTPHandlers never writes the caller's list and (for the "
        "recognised fold shape list[len-1-i] over ascending i) nests the first listed wrapper outermost for every length. It does not "
        "decide Request.BasicAuth parsing.",
        "Trusted: net/http BasicAuth; C05 for 'nothing downstream runs'; go/ssa.",
        "DESIGN.md 5 (C20)",
    ),
}

NOT_APPLICABLE = {}


# clauses added after the first version of each check (seeded rounds c and d, refactoring probes); appended to the level text
EXTRA = {
    "C14": "Added: C03-EFF runs here too: the cache container and its fields are not written from the request path outside the cache's own locked methods. Has() reads the key through Get or moves the element it found to the recent end itself (C14-ORIENT). Every store to the capacity field stores a parameter unchanged, or the constant 0 (C14-BOUND): a clamp to 1 is reported.",
    "C19": "Added: C19-ARMS is decided on paths (from 'accepted type == MIME constant' every path ends the negotiation before the next type or the not-supported error); a direct io.Reader.Read loop writes the bytes returned before it leaves on the error (C19-STREAM, with a fixture analysed in every run). Renderers do not remove the Content-Type header either (Header.Del / delete). The list of accepted types compared in render.Auto comes from the library parser, or every element the module's own parser collects is a strings.TrimSpace result. The text helpers (Text, HTML, HTMLString, JSONBytes) hand their own argument, converted at most, to Blob. C19-LENGTH: a Content-Length stored by the response helpers (root package, pkg/render) derives from len() of the data in hand and nothing else (zero instances; a fixture with Size() and one with len(data) is analysed in every run).",
    "C11": "Added: Every result of a registration-only string pre-normaliser (simpleFmtPath) is a constant or derives from the white-space-trimmed parameter (C11-PRENORM), so formatPath absorbs it. formatPath removes ALL trailing slashes (TrimRight over a cut set with '/', or a loop) — the structural core of its idempotence (C11-TRAIL). C01-REPR and C01-SPACE run here too: the literal start string and the first-segment key are cut from the unescaped path. formatPath itself derives every result from the trimmed parameter; QuickMatch hands its path parameter (or the intercept path) to formatPath as given.",
    "C09": "Added: The panic hook is the only call in the recovering closure that can run user code (no OnError / handler after it). Every path on which recover() returned a value calls the hook before the closure returns.",
    "C16": "Added: All member paths other than the bare '/' agree on the trailing slash, so the table is the same set of rows with StrictLastSlash (C16-SLASH). The Uses() hook is looked up on the same reflect.Value as the action methods. The value whose Kind() is compared with Struct is exactly one Elem() away from the controller value.",
    "C10": "Added: C10-FRESH: the allowed-methods list is fresh per request. C08-FACADE runs here too: every store to Context.Resp is that context's own writer, and a whole-struct copy of a Context re-points Resp on every path. The pool constructor does not hand out copies of a prototype that holds allocated memory (shared backing arrays). C10-PARAMS: the parameters the matcher hands to a request never come from a package-level variable. C10-NOGO: no go statement in the module hands a value that reaches the live *Context to the new goroutine (only a Context.Copy() result may go); zero instances, a fixture with a leaking and a copying goroutine is analysed in every run. A field that Reset re-slices to length 0 is never compared with nil in the module (its nil-ness survives a request).",
    "C06": "Added: A stage that a path of QuickMatch does not run, and that no earlier success made moot, must have been switched off by its own option on that path (a stage may not be skipped because another option is on).",
    "C05": "Added: The only dynamic func(*Context) calls in the request core (dispatcher, its callers, what they reach by static calls) are the executor loop's and the OnError/OnPanic hooks: no handler is started outside the cursor-guarded loop (C05-OUTSIDE).",
    "C01": "Added: a miss in one lookup tier always goes on to a later tier (no return without this tier's own hit); the literal-prefix "
           "pre-filter in front of each regexp call is evaluated abstractly under 'path begins with start' (equal length / longer) and may "
           "not give the candidate up; literal-space fields (path, start, a read spath, table key, URL template) never receive regex-escaped text. In the scan function every path whose verdict can be true ran a match method of the route's own compiled pattern on the request path (C01-REGEX): a string-comparison fast path is reported. Buckets taken out of the dynamic tables are read-only outside registration: no in-place sort, reverse, copy-into or element store (C01-ORDER) — their order is the registration order. C01-REGEX covers both verdicts: also a 'no match' answer must have run the compiled pattern (no pre-filter inside the scan function).",
    "C02": "Added: the parameter map gets an entry for every variable of the route on every iteration (a variable of an unmatched optional "
           "part maps to the empty string, it is not missing). C01-REGEX runs here too. Pooled objects have one owner (C03-POOL runs here too): a parameter map that circulates through a sync.Pool is never kept in a route / cache field, and nothing taken from such a field is put back. C02-STATIC: every insert into the static table, in any function, is guarded by the variable-free test of the stored route's own whole path (the static tier answers without parameters).",
    "C03": "Added: the pooled context is fully re-initialised (C10-RESET runs here too). The allowed-methods list handed to a request is built in that call and never is (an extension of) a slice stored in a route or the router (C10-FRESH). Pool ownership: nothing that comes out of a sync.Pool is stored into a field of a long-lived object, nothing put back derives from such a field (backward provenance through results, parameters, field stores); emptying a map counts as a reset. A pool constructor that copies a prototype value is accepted only if the prototype holds no allocated slice / map / channel.",
    "C04": "Added: what module callers pass as 'new middleware' to a function that appends it after the route's own list never derives from "
           "the router's or a route's own lists (group/global middleware cannot end up inside the route's middleware); the cached copy of a "
           "route carries its middleware list (C07-COPY). Every normal path through the dispatcher installs a chain and starts it with Next(): no request is answered by the dispatcher itself before the global middleware ran. Lists built up over the iterations of a loop are not evaluated by the sequence engine (unknown fails): a conditional append in a loop cannot pass as 'existing list'.",
    "C07": "Added: the cache may be filled through the wrapper or in line; every successful regexp match reaches a fill or a configuration-only "
           "'caching off' decision before it returns; a field-wise cached copy must copy every observable field. C02-STATIC runs here too: no route reaches the static table through another door than registration's variable-free test (a dynamic route promoted there by the caching code would be answered without its parameters from the second request on). C07-OWN: every store into Router.cachedRoutes stores nil or a container allocated by that activation (no captured variable, parameter or loaded value): two routers never share a cache, whose METHOD+path key identifies a route only within one route table.",
    "C08": "Added: every path from the underlying Write to a return adds the accepted byte count to length. Every normal path of the context's raw write helpers reaches c.Resp.Write (an empty first write still commits); wherever a new underlying writer is installed, length = noWritten is stored on every path; a Context copied as a whole re-points Resp at its own writer.",
    "C12": "Added: every Route field that registration derives from route.path is derived after the group prefix was applied and the path "
           "normalised. Loop-built middleware lists are not accepted by the sequence engine (a filter / de-duplication in a loop is reported). C11-SAME runs here too: with a prefix in force every alternative of the stored path is formatPath(prefix + path).",
    "C13": "Added: the default method replaces only an absent method list; isFixedPath's own definition; checkAndParseOptional evaluated "
           "abstractly on bracket profiles (a ']' outside the trailing run, or an unclosed '[', always panics; well-formed profiles return). No recover() in the root package outside the request frame (a registration helper must not swallow the checks' panics).",
    "C15": "Added: the URL builder keeps no state derived from its own settings that can go stale (or only as a keyed memo); ToURL's template is "
           "a pattern field and literal-space; the dispatcher matches on the request's own (decoded or escaped) path. The text stored into url.URL.Path never derives from an escaping function (PathEscape, QueryEscape, EscapedPath, ...): net/url escapes that field itself (C15-ESCAPE). Builder and registration both cut their template into placeholders with the package's varRegex (C15-SCAN). The URL builders never update or delete from a map that can be the caller's argument map (C15-ARGS). No store into url.URL.Path derives from a load of url.URL.Path (the substituted path is not post-processed). QuickMatch does not rewrite (cut) the request path before normalising it. C15-ARGS also demands that every turn of a range over the caller's argument map stores the entry's value under its key (builder map or url.Values.Add/Set) on every path to the next turn: no filter drops an argument. C15-SCAN also evaluates the constant placeholder pattern on fourteen witness texts of the documented grammar: each brace group without '/' must be found whole as one placeholder (a name class such as \\w+ is reported).",
    "C17": "Added: where the route pattern carries the extension filter, the handler hands the matched {file} variable to the file server. A registrar that takes an extension list and does not put it into the pattern is reported (handler-side string tests are not decided).",
    "C18": "Added: an error found non-nil is returned (or wrapped) on every path, never followed by another result; the decoder receives the "
           "caller's values unmodified. In the package's own validator a nil result lies only on paths where the validation library's Validate() on that value was seen true, or is the library's own verdict.",
    "C20": "Added: every alternative of the override value (form field and header) is upper-cased before the whitelist comparison unless known empty. C20-WRAP: an unreadable fold is undecided (fails); descending counters are read; a closure made in a loop that captures a variable the loop re-assigns is reported.",
}


def main():
    props = [json.loads(l) for l in open(os.path.join(HERE, "properties.jsonl")) if l.strip()]
    checks, na = [], []
    for p in props:
        pid = p["id"]
        if pid in CLAIMS:
            tech, text, note, ref = CLAIMS[pid]
            if pid in EXTRA:
                text = text + " " + EXTRA[pid]
            checks.append({
                "property_id": pid,
                "quick_cmd": f"./check {pid} quick",
                "thorough_cmd": f"./check {pid} thorough",
                "evidence_file": f"/verif/evidence/{pid}.json",
                "replay_cmd_template": "./bin/ruxcheck -replay {path}",
                "engine": "ruxcheck",
                "level_claimed": {"category": "other", "text": text, "design_ref": ref},
                "level_note": note,
                "technique": "static analysis: " + tech,
            })
        else:
            na.append({"property_id": pid, "reason": NOT_APPLICABLE.get(
                pid, "not claimed yet: the static rules for this property (DESIGN.md section 5) are not built at this commit")})
    m = {
        "version": 1,
        "setup_cmd": f"cd /verif/checker && {ENV} go build -o /verif/bin/ruxcheck .",
        "hooks": {
            "guard": "verif",
            "enable": "none needed: static analysis reads /repo's source, no instrumentation is compiled in",
            "baseline_off_cmd": "cd /repo && go build ./... && go test -vet=off -count=1 ./...",
            "source_commits": [],
            "add_only": True,
        },
        "engines": [{
            "name": "ruxcheck",
            "path": "/verif/checker",
            "serves_properties": sorted(CLAIMS),
            "kind_free_text": "repository-specific static analyser (go/packages + go/types + go/ssa, own call graph): effect, lock-set, "
                              "typestate, dominance/path, provenance and table-extraction rules; reloads /repo's working tree on every run",
        }],
        "checks": checks,
        "not_applicable": na,
        "notes": "All claims are at level 'other': each check decides structural necessary conditions (clauses) of its property for "
                 "every input/schedule/history at once, never the behaviour as a whole; undecided clauses are listed per property in "
                 "DESIGN.md section 8 and in each evidence file. Known findings: /verif/known_findings.txt.",
    }
    with open(os.path.join(HERE, "MANIFEST.json"), "w") as f:
        json.dump(m, f, indent=1)
        f.write("\n")
    print("claimed:", sorted(CLAIMS), "not_applicable:", [x["property_id"] for x in na])


if __name__ == "__main__":
    main()
