#!/usr/bin/env python3
"""Generate /verif/MANIFEST.json from the claims table below.

Every property that is not in CLAIMS is listed under not_applicable with its
reason from NOT_APPLICABLE (or a generic "not built yet" while work is in
progress), so the manifest is valid and current at every commit.
"""
import json, os, sys

HERE = os.path.dirname(os.path.dirname(os.path.abspath(__file__)))

ENV = "GOFLAGS=-mod=mod GOPROXY=off GOSUMDB=off GOTOOLCHAIN=local CGO_ENABLED=0"

# id -> (technique, level text, level note, design ref)
CLAIMS = {
    "C03": (
        "effect analysis over SSA (shared vs request-local writes), lock-set analysis, pool typestate",
        "Decides, for all schedules at once, the structural half of race freedom inside rux: no write to "
        "router-shared memory is reachable from the request-phase entry points except cache internals under the "
        "exclusive lock; no append onto a shared slice; lock discipline of every cachedRoutes method; ownership "
        "typestate of the pooled context (Get->Init->...->Put, Put only of what was taken, never deferred). "
        "It does not decide what user handlers do nor response equality with a sequential run.",
        "Trusted: go/packages+go/ssa faithfully represent /repo; summaries of the few external callees on these paths "
        "(container/list mutators, sync, regexp read-only); user handlers (dynamic HandlerFunc calls) are the stated boundary; "
        "registration finishes before the first request.",
        "DESIGN.md 5 (C03)",
    ),
}

NOT_APPLICABLE = {}


def main():
    props = [json.loads(l) for l in open(os.path.join(HERE, "properties.jsonl")) if l.strip()]
    checks, na = [], []
    for p in props:
        pid = p["id"]
        if pid in CLAIMS:
            tech, text, note, ref = CLAIMS[pid]
            checks.append({
                "property_id": pid,
                "quick_cmd": f"./check {pid} quick",
                "thorough_cmd": f"./check {pid} thorough",
                "evidence_file": f"/verif/evidence/{pid}.json",
                "replay_cmd_template": "./bin/ruxcheck -replay {path}",
                "engine": "ruxcheck",
                "level_claimed": {"category": "other", "text": text, "design_ref": ref},
                "level_note": note,
                "technique": "static analysis: " + tech,
            })
        else:
            na.append({"property_id": pid, "reason": NOT_APPLICABLE.get(
                pid, "not claimed yet: the static rules for this property (DESIGN.md section 5) are not built at this commit")})
    m = {
        "version": 1,
        "setup_cmd": f"cd /verif/checker && {ENV} go build -o /verif/bin/ruxcheck .",
        "hooks": {
            "guard": "verif",
            "enable": "none needed: static analysis reads /repo's source, no instrumentation is compiled in",
            "baseline_off_cmd": "cd /repo && go build ./... && go test -vet=off -count=1 ./...",
            "source_commits": [],
            "add_only": True,
        },
        "engines": [{
            "name": "ruxcheck",
            "path": "/verif/checker",
            "serves_properties": sorted(CLAIMS),
            "kind_free_text": "repository-specific static analyser (go/packages + go/types + go/ssa, own call graph): effect, lock-set, "
                              "typestate, dominance/path, provenance and table-extraction rules; reloads /repo's working tree on every run",
        }],
        "checks": checks,
        "not_applicable": na,
        "notes": "All claims are at level 'other': each check decides structural necessary conditions (clauses) of its property for "
                 "every input/schedule/history at once, never the behaviour as a whole; undecided clauses are listed per property in "
                 "DESIGN.md section 8 and in each evidence file. Known findings: /verif/known_findings.txt.",
    }
    with open(os.path.join(HERE, "MANIFEST.json"), "w") as f:
        json.dump(m, f, indent=1)
        f.write("\n")
    print("claimed:", sorted(CLAIMS), "not_applicable:", [x["property_id"] for x in na])


if __name__ == "__main__":
    main()
