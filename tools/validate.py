#!/usr/bin/env python3
"""Validate MANIFEST.json and every evidence file against the harness schemas (run with python3-vt)."""
import json, glob, sys, jsonschema
ok = True
m = json.load(open('/verif/MANIFEST.json'))
jsonschema.validate(m, json.load(open('/root/.vp/MANIFEST.schema.json')))
es = json.load(open('/root/.vp/EVIDENCE.schema.json'))
for c in m['checks']:
    try:
        jsonschema.validate(json.load(open(c['evidence_file'])), es)
    except Exception as e:
        ok = False; print('BAD', c['evidence_file'], str(e)[:300])
print('manifest ok; evidence', 'ok' if ok else 'BAD')
sys.exit(0 if ok else 1)
