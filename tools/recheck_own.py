#!/usr/bin/env python3
"""Fast form of recheck_seeds.py: run only the check of the property each kept seed breaks (scratch worktree per
seed, removed afterwards), update that entry of meta.json, and fail if any seed is no longer reported."""
import json, os, subprocess, sys, glob, tempfile, shutil
from concurrent.futures import ThreadPoolExecutor
def sh(cmd, cwd="/verif"):
    p = subprocess.run(cmd, shell=True, cwd=cwd, capture_output=True, text=True)
    return p.returncode, p.stdout + p.stderr
ids = sys.argv[1:] or [os.path.basename(d) for d in sorted(glob.glob("/verif/seeded/*")) if os.path.isdir(d)]
def one(sid):
    d = f"/verif/seeded/{sid}"
    meta = json.load(open(f"{d}/meta.json"))
    tgt = meta["breaks_property"]
    wt = tempfile.mkdtemp(prefix="ruxseed_"); os.rmdir(wt)
    sh(f"git -C /repo worktree add -q --detach {wt} HEAD")
    try:
        rc, out = sh(f"git apply {d}/patch.diff", wt)
        if rc != 0:
            return sid, tgt, None
        if os.path.isdir(f"{d}/newfiles"):
            sh(f"cp -r {d}/newfiles/. {wt}/")
        rc, out = sh(f"/verif/bin/ruxcheck -property {tgt} -repo {wt} -verif /verif -quiet-evidence")
        reps = sorted(set(l.split("\t")[1] for l in out.splitlines() if l.startswith("REPORT\t")))
        if "cannot analyse" in out and not reps:
            reps = ["load failure"]
        f = meta.get("checks_fired_on_scratch_copy") or {}
        f = {k: sorted(set(x.split(" | ")[0] for x in v)) for k, v in f.items()}
        if reps:
            f[tgt] = reps
        else:
            f.pop(tgt, None)
        meta["checks_fired_on_scratch_copy"] = f
        meta["detected_by_target_property_check"] = bool(reps)
        json.dump(meta, open(f"{d}/meta.json", "w"), indent=1)
        return sid, tgt, reps
    finally:
        sh(f"git -C /repo worktree remove --force {wt}"); shutil.rmtree(wt, ignore_errors=True)
bad = []
with ThreadPoolExecutor(6) as ex:
    for sid, tgt, reps in ex.map(one, ids):
        print(sid, tgt, "detected" if reps else "MISSED", reps)
        if not reps:
            bad.append(sid)
print("missed:", bad)
sys.exit(1 if bad else 0)
