package main

// seq.go — E-SEQ: path-sensitive sequence-shape evaluation of slice values.
//
// A slice value is evaluated, along one acyclic CFG path of its function, to
// a concatenation of atoms:
//
//	field atom   F(base, field)   the whole slice currently stored in a field
//	param atom   P(name)          a slice parameter (variadic middleware)
//	elem atom    E(value)         one element
//
// plus an alias bit: may the result share its backing array with an atom?
// append, slice literals, make+copy (so combineHandlers is derived from its
// body), x[:0], nil and calls to module functions (evaluated on their own
// paths with parameters bound) are understood; anything else is "unknown"
// and makes the rule undecided.

import (
	"fmt"
	"go/constant"
	"go/token"
	"go/types"
	"strings"

	"golang.org/x/tools/go/ssa"
)

type atom struct {
	Kind  byte       // 'F','P','E'
	Field *types.Var // for F, and for E when the element is a field load
	Base  string     // canon of the base object (for F / E-of-field)
	Name  string     // parameter name / canon of element
	Val   ssa.Value
}

func (a atom) String() string {
	switch a.Kind {
	case 'F':
		return "F(" + shortCanon(a.Base) + "." + a.Field.Name() + ")"
	case 'P':
		return "P(" + a.Name + ")"
	case 'M':
		return "M(" + a.Field.Name() + "[" + shortCanon(a.Name) + "])"
	}
	if a.Field != nil {
		return "E(" + shortCanon(a.Base) + "." + a.Field.Name() + ")"
	}
	return "E(" + shortCanon(a.Name) + ")"
}

func shortCanon(s string) string {
	s = strings.ReplaceAll(s, modPath+".", "")
	s = strings.ReplaceAll(s, "param:", "")
	s = strings.ReplaceAll(s, "global:", "")
	return s
}

type seqVal struct {
	Dropped []atom // atoms omitted because a branch decision on this path says they are empty
	Atoms   []atom
	Fresh   bool   // backing array allocated by this evaluation (not shared with any atom)
	AliasOf string // when !Fresh: which atom's backing array may be written by an append
	Unknown string // non-empty: could not evaluate
}

func (s seqVal) String() string {
	if s.Unknown != "" {
		return "?" + s.Unknown
	}
	parts := []string{}
	for _, a := range s.Atoms {
		parts = append(parts, a.String())
	}
	return "[" + strings.Join(parts, " ++ ") + "]"
}

// pathCtx is one acyclic path through a function.
type pathCtx struct {
	fn     *ssa.Function
	blocks []*ssa.BasicBlock
	pred   map[*ssa.BasicBlock]*ssa.BasicBlock // block -> predecessor on this path
	conds  map[string]bool                     // canon(cond) -> truth taken
	decs   []decision                          // branch decisions in path order
	binds  map[*ssa.Parameter]seqVal           // parameter bindings (callee evaluation)
	depth  int
}

func (p *pathCtx) has(b *ssa.BasicBlock) bool {
	_, ok := p.pred[b]
	return ok || (len(p.blocks) > 0 && p.blocks[0] == b)
}

// enumPaths enumerates acyclic paths from entry that reach target (an
// instruction) — or, when target is nil, that reach a normal return — with
// consistent branch decisions (same canonical condition, same truth).
func enumPaths(f *ssa.Function, target ssa.Instruction, limit int) ([]*pathCtx, bool) {
	if len(f.Blocks) == 0 {
		return nil, true
	}
	return enumPathsFrom(f, f.Blocks[0], target, limit)
}

// enumPathsFrom is enumPaths starting at an arbitrary block (e.g. the first
// block of a loop body, to enumerate the paths of one iteration).
func enumPathsFrom(f *ssa.Function, start *ssa.BasicBlock, target ssa.Instruction, limit int) ([]*pathCtx, bool) {
	return enumPathsGen(f, start, target, nil, limit)
}

// enumPathsGen: paths end at instruction target, or (when endBlock != nil) on
// arrival at endBlock (e.g. a loop header, to enumerate one iteration).
func enumPathsGen(f *ssa.Function, start *ssa.BasicBlock, target ssa.Instruction, endBlock *ssa.BasicBlock, limit int) ([]*pathCtx, bool) {
	var out []*pathCtx
	complete := true
	var walk func(b *ssa.BasicBlock, blocks []*ssa.BasicBlock, pred map[*ssa.BasicBlock]*ssa.BasicBlock, conds map[string]bool, decs []decision, nonnil0 map[string]bool)
	walk = func(b *ssa.BasicBlock, blocks []*ssa.BasicBlock, pred map[*ssa.BasicBlock]*ssa.BasicBlock, conds map[string]bool, decs []decision, nonnil0 map[string]bool) {
		if len(out) >= limit {
			complete = false
			return
		}
		blocks = append(blocks, b)
		nonnil := map[string]bool{}
		for k := range nonnil0 {
			nonnil[k] = true
		}
		done := false
		for _, in := range b.Instrs {
			noteDeref(in, pred, nonnil)
			if target != nil && in == target {
				done = true
				break
			}
			if endBlock != nil && b == endBlock && len(blocks) > 1 {
				done = true
				break
			}
			if panicsAt(in) {
				return
			}
			if _, ok := in.(*ssa.Return); ok {
				if target == nil && endBlock == nil {
					done = true
				} else {
					return
				}
			}
		}
		if done {
			pc := &pathCtx{fn: f, blocks: append([]*ssa.BasicBlock(nil), blocks...), pred: map[*ssa.BasicBlock]*ssa.BasicBlock{}, conds: map[string]bool{}, decs: append([]decision(nil), decs...)}
			for k, v := range pred {
				pc.pred[k] = v
			}
			for k, v := range conds {
				pc.conds[k] = v
			}
			out = append(out, pc)
			return
		}
		var iff *ssa.If
		if len(b.Instrs) > 0 {
			iff, _ = b.Instrs[len(b.Instrs)-1].(*ssa.If)
		}
		for si, s := range b.Succs {
			if _, visited := pred[s]; visited || s == blocks[0] {
				continue // acyclic paths only
			}
			nc := conds
			nd := decs
			if iff != nil {
				c, pos := stripNot(iff.Cond)
				if rc := resolveAcyclic(c, pred); rc != c {
					// a condition merged through a phi (a || b, inlined boolean helper): decide on what it is on this path
					c2, pos2 := stripNot(rc)
					c, pos = c2, pos == pos2
				}
				key, flip := condKey(c, pred)
				truth := (si == 0) == pos // truth of c itself
				keyTruth := truth != flip // truth of the normalised condition
				if old, ok := conds[key]; ok && old != keyTruth {
					continue // inconsistent with an earlier decision on the same condition
				}
				val, known := foldCond(c, pred, nonnil)
				if known && val != truth {
					continue // the condition has a known value on this path
				}
				if !known {
					// a folded condition carries no information: it is not recorded as a decision
					nc = map[string]bool{}
					for k, v := range conds {
						nc[k] = v
					}
					nc[key] = keyTruth
					nd = append(append([]decision(nil), decs...), decision{iff, truth, c})
				}
			}
			np := map[*ssa.BasicBlock]*ssa.BasicBlock{}
			for k, v := range pred {
				np[k] = v
			}
			np[s] = b
			walk(s, blocks, np, nc, nd, nonnil)
		}
	}
	walk(start, nil, map[*ssa.BasicBlock]*ssa.BasicBlock{}, map[string]bool{}, nil, nil)
	return out, complete
}

// knownEmpty: on this path a dominating decision says len(v) == 0.
func (p *pathCtx) knownEmpty(v ssa.Value) bool {
	cv := canonAlong(v, p.pred)
	lenv := "call builtin len(" + cv + ")"
	for _, d := range p.decs {
		b, ok := d.Cond.(*ssa.BinOp)
		if !ok {
			continue
		}
		// the tested slice may be a local that merges several lists: compare what it is on this path
		if canonAlong(b.X, p.pred) != lenv {
			continue
		}
		c, okc := constInt(b.Y)
		if !okc {
			continue
		}
		switch {
		case (b.Op == token.GTR && c == 0) || (b.Op == token.NEQ && c == 0) || (b.Op == token.GEQ && c == 1):
			if !d.Truth {
				return true
			}
		case (b.Op == token.EQL && c == 0) || (b.Op == token.LEQ && c == 0) || (b.Op == token.LSS && c == 1):
			if d.Truth {
				return true
			}
		}
	}
	return false
}

type decision struct {
	If    *ssa.If
	Truth bool // truth of the (negation-stripped) condition Cond
	Cond  ssa.Value
}

type seqEngine struct {
	w *World
}

func isSliceType(t types.Type) bool { _, ok := t.Underlying().(*types.Slice); return ok }

// eval evaluates v on path p.
func (e *seqEngine) eval(v ssa.Value, p *pathCtx) seqVal {
	if p.depth > 6 {
		return seqVal{Unknown: "evaluation too deep"}
	}
	switch x := v.(type) {
	case *ssa.Const:
		if x.Value == nil {
			return seqVal{Fresh: true}
		}
	case *ssa.ChangeType:
		return e.eval(x.X, p)
	case *ssa.Parameter:
		if b, ok := p.binds[x]; ok {
			return b
		}
		return seqVal{Atoms: []atom{{Kind: 'P', Name: x.Name(), Val: x}}, AliasOf: "P(" + x.Name() + ")"}
	case *ssa.Phi:
		pr := p.pred[x.Block()]
		if pr == nil {
			return seqVal{Unknown: "phi outside the path"}
		}
		// a loop-carried value: the acyclic path enters the loop header from outside and would take the initial
		// value for the whole loop. What the iterations make of it (conditional appends, filtering) is not a
		// sequence this engine can state, so it is unknown — unless no iteration changes it
		for i, pb := range x.Block().Preds {
			if pb != pr && x.Block().Dominates(pb) && x.Edges[i] != ssa.Value(x) {
				if !onlyPassesThrough(x.Edges[i], x) {
					return seqVal{Unknown: "the list is built up over the iterations of a loop (" + x.Comment + ")"}
				}
			}
		}
		for i, pb := range x.Block().Preds {
			if pb == pr {
				return e.eval(x.Edges[i], p)
			}
		}
		return seqVal{Unknown: "phi edge not found"}
	case *ssa.UnOp:
		if x.Op == token.MUL {
			switch a := resolveAlong(x.X, p.pred).(type) {
			case *ssa.Global:
				// a package-level slice that is assigned only in its declaration, from a literal, and never
				// written through: a constant table, evaluated to the elements of the literal
				if elems, ok := e.w.readOnlySliceGlobal(a); ok {
					out := seqVal{AliasOf: "G(" + a.Name() + ")"}
					for _, ev := range elems {
						out.Atoms = append(out.Atoms, elemAtom(ev, nil))
					}
					return out
				}
			case *ssa.FieldAddr:
				fv := fieldVar(a.X.Type(), a.Field)
				at := atom{Kind: 'F', Field: fv, Base: canon(a.X), Val: x}
				if p.knownEmpty(x) {
					return seqVal{AliasOf: at.String(), Dropped: []atom{at}}
				}
				return seqVal{Atoms: []atom{at}, AliasOf: at.String()}
			case *ssa.FreeVar:
				// a variable captured from the enclosing function that is assigned exactly once there
				if b := freeVarBinding(a); b != nil {
					if cell, ok := b.(*ssa.Alloc); ok {
						if sv := singleStore(cell); sv != nil {
							if ld, ok := sv.(*ssa.UnOp); ok && ld.Op == token.MUL {
								if fa, ok := ld.X.(*ssa.FieldAddr); ok {
									fv := fieldVar(fa.X.Type(), fa.Field)
									at := atom{Kind: 'F', Field: fv, Base: canon(fa.X), Val: sv}
									return seqVal{Atoms: []atom{at}, AliasOf: at.String()}
								}
							}
							if prm, ok := sv.(*ssa.Parameter); ok {
								return seqVal{Atoms: []atom{{Kind: 'P', Name: prm.Name(), Val: prm}}, AliasOf: "P(" + prm.Name() + ")"}
							}
						}
					}
				}
				return seqVal{Unknown: "captured variable that is reassigned"}
			case *ssa.Alloc:
				// local variable cell: last store on this path before the load
				if st := e.lastStoreOnPath(a, x, p); st != nil {
					return e.eval(st.Val, p)
				}
				return seqVal{Unknown: "load of a local with no store on the path"}
			}
		}
	case *ssa.Field:
		fv := fieldVar(x.X.Type(), x.Field)
		at := atom{Kind: 'F', Field: fv, Base: canon(x.X), Val: x}
		return seqVal{Atoms: []atom{at}, AliasOf: at.String()}
	case *ssa.Lookup:
		if fv := unwrapAddr(x.X).lastField(); fv != nil && !x.CommaOk {
			at := atom{Kind: 'M', Field: fv, Base: canon(x.X), Name: canon(x.Index), Val: x}
			return seqVal{Atoms: []atom{at}, AliasOf: at.String()}
		}
	case *ssa.Extract:
		if lk, ok := x.Tuple.(*ssa.Lookup); ok && lk.CommaOk && x.Index == 0 {
			if fv := unwrapAddr(lk.X).lastField(); fv != nil {
				at := atom{Kind: 'M', Field: fv, Base: canon(lk.X), Name: canon(lk.Index), Val: x}
				return seqVal{Atoms: []atom{at}, AliasOf: at.String()}
			}
		}
	case *ssa.MakeSlice:
		return e.evalMake(x, p)
	case *ssa.Slice:
		// slice literal: Slice(Alloc [n]T) with element stores
		if al, ok := x.X.(*ssa.Alloc); ok {
			if _, isArr := al.Type().(*types.Pointer).Elem().Underlying().(*types.Array); isArr {
				return e.evalArrayLit(al, p)
			}
		}
		// a slice made with spare capacity and then extended in place: m := make(T, n, n+1); m = m[:n+1]; m[n] = x.
		// The pieces copied / stored through either view tile the extended length
		if mk, isMk := resolveAlong(x.X, p.pred).(*ssa.MakeSlice); isMk && x.Low == nil && x.High != nil && x.Max == nil {
			if _, isConst := constInt(x.High); !isConst {
				return e.evalMakeLen(mk, x.High, []ssa.Value{x}, p)
			}
		}
		inner := e.eval(x.X, p)
		if inner.Unknown != "" {
			return inner
		}
		if x.High != nil {
			if hi, ok := constInt(x.High); ok && hi == 0 {
				return seqVal{Fresh: inner.Fresh, AliasOf: inner.AliasOf}
			}
		}
		if x.Low == nil && x.High == nil {
			return inner
		}
		// x[:len(x):len(x)] — the same elements with the capacity cut down to the length (an append onto it always
		// reallocates)
		isLenOf := func(v, of ssa.Value) bool {
			c, ok := v.(*ssa.Call)
			return ok && isBuiltin(c, "len") && canon(c.Call.Args[0]) == canon(of)
		}
		if x.Low == nil && x.High != nil && isLenOf(x.High, x.X) && (x.Max == nil || isLenOf(x.Max, x.X)) {
			return inner
		}
		return seqVal{Unknown: "re-slice with non-constant bounds"}
	case *ssa.Call:
		if isBuiltin(x, "append") {
			base := e.eval(x.Call.Args[0], p)
			if base.Unknown != "" {
				return base
			}
			more := seqVal{Fresh: true}
			if len(x.Call.Args) > 1 {
				more = e.eval(x.Call.Args[1], p)
				if more.Unknown != "" {
					return more
				}
			}
			out := seqVal{Atoms: append(append([]atom{}, base.Atoms...), more.Atoms...), Fresh: base.Fresh, AliasOf: base.AliasOf}
			out.Dropped = append(append([]atom{}, base.Dropped...), more.Dropped...)
			return out
		}
		if sc := staticCallee(x); sc != nil && e.w.InModule(sc) && isSliceType(x.Type()) {
			return e.evalCallee(sc, x.Call.Args, p)
		}
	}
	return seqVal{Unknown: fmt.Sprintf("unrecognised slice expression %s (%T)", v.String(), v)}
}

func (e *seqEngine) lastStoreOnPath(a *ssa.Alloc, load ssa.Instruction, p *pathCtx) *ssa.Store {
	var last *ssa.Store
	for _, b := range p.blocks {
		for _, in := range b.Instrs {
			if in == load {
				return last
			}
			if st, ok := in.(*ssa.Store); ok && st.Addr == ssa.Value(a) {
				last = st
			}
		}
	}
	return last
}

// evalArrayLit: T{a, b, c} lowered to new [n]T + stores + slice.
func (e *seqEngine) evalArrayLit(al *ssa.Alloc, p *pathCtx) seqVal {
	n := al.Type().(*types.Pointer).Elem().Underlying().(*types.Array).Len()
	elems := make([]ssa.Value, n)
	for _, ref := range *al.Referrers() {
		ia, ok := ref.(*ssa.IndexAddr)
		if !ok {
			continue
		}
		idx, okc := constInt(ia.Index)
		if !okc || idx < 0 || idx >= n {
			return seqVal{Unknown: "array literal with computed index"}
		}
		for _, r2 := range *ia.Referrers() {
			if st, ok := r2.(*ssa.Store); ok && st.Addr == ssa.Value(ia) {
				elems[idx] = st.Val
			}
		}
	}
	out := seqVal{Fresh: true}
	for _, ev := range elems {
		if ev == nil {
			return seqVal{Unknown: "array literal element not initialised"}
		}
		out.Atoms = append(out.Atoms, elemAtom(ev, p.pred))
	}
	return out
}

func elemAtom(ev ssa.Value, pred map[*ssa.BasicBlock]*ssa.BasicBlock) atom {
	for {
		if ct, ok := ev.(*ssa.ChangeType); ok {
			ev = ct.X
			continue
		}
		break
	}
	if ld, ok := ev.(*ssa.UnOp); ok && ld.Op == token.MUL {
		if fa, ok := ld.X.(*ssa.FieldAddr); ok {
			return atom{Kind: 'E', Field: fieldVar(fa.X.Type(), fa.Field), Base: canonAlong(fa.X, pred), Name: canonAlong(ev, pred), Val: ev}
		}
	}
	return atom{Kind: 'E', Name: canonAlong(ev, pred), Val: ev}
}

// evalMake: make(T, n) followed by copy(dst, a); copy(dst[len(a):], b)...
// or make(T, 0, cap) used as an empty fresh base.
func (e *seqEngine) evalMake(m *ssa.MakeSlice, p *pathCtx) seqVal {
	return e.evalMakeLen(m, m.Len, nil, p)
}

// evalMakeLen: the made slice seen with length lenV (its own length, or the bound of an in-place extension whose
// views are listed in more).
func (e *seqEngine) evalMakeLen(m *ssa.MakeSlice, lenV ssa.Value, more []ssa.Value, p *pathCtx) seqVal {
	if l, ok := constInt(lenV); ok && l == 0 {
		return seqVal{Fresh: true}
	}
	// collect copies into m on this path, keyed by offset expression
	type cp struct {
		off  string // normalised low bound ("" for 0)
		src  ssa.Value
		elem bool // a single element stored at index off (dst[off] = src)
	}
	var cps []cp
	onPath := map[*ssa.BasicBlock]bool{}
	for _, b := range p.blocks {
		onPath[b] = true
	}
	// offsets are compared in one normal form: the result of copy(dst, src) counts as len(src) (the length
	// check below makes sure dst has room), sums are spelled out, merged locals are resolved along the path
	var offKey func(v ssa.Value, d int) string
	offKey = func(v ssa.Value, d int) string {
		if v == nil {
			return ""
		}
		v = resolveAlong(v, p.pred)
		if d < 6 {
			switch x := v.(type) {
			case *ssa.Call:
				if isBuiltin(x, "copy") {
					return "call builtin len(" + canon(x.Call.Args[1]) + ")"
				}
			case *ssa.BinOp:
				if x.Op == token.ADD {
					return "(" + offKey(x.X, d+1) + " + " + offKey(x.Y, d+1) + ")"
				}
			}
		}
		return canon(v)
	}
	var visit func(v ssa.Value, off string)
	visit = func(v ssa.Value, off string) {
		for _, ref := range *v.Referrers() {
			switch r := ref.(type) {
			case *ssa.Call:
				if isBuiltin(r, "copy") && r.Call.Args[0] == v && onPath[r.Block()] {
					cps = append(cps, cp{off, r.Call.Args[1], false})
				}
			case *ssa.Slice:
				if r.X == v && r.High == nil && r.Max == nil {
					visit(r, offKey(r.Low, 0))
				}
			case *ssa.IndexAddr:
				if r.X == v && off == "" && onPath[r.Block()] {
					for _, r2 := range *r.Referrers() {
						if st, ok := r2.(*ssa.Store); ok && st.Addr == ssa.Value(r) && onPath[st.Block()] {
							cps = append(cps, cp{offKey(r.Index, 0), st.Val, true})
						}
					}
				}
			}
		}
	}
	visit(m, "")
	for _, mv := range more {
		visit(mv, "")
	}
	if len(cps) == 0 {
		return seqVal{Unknown: "make(T, n) with n != 0 and no recognisable copy"}
	}
	// order: offset "" first, then offset == len(previous sources)
	out := seqVal{Fresh: true}
	used := make([]bool, len(cps))
	offExpr := ""
	var lens []string
	for range cps {
		found := -1
		for i, c := range cps {
			if !used[i] && c.off == offExpr {
				found = i
			}
		}
		if found < 0 {
			return seqVal{Unknown: "copies into the made slice do not tile it (offset " + offExpr + " not found)"}
		}
		used[found] = true
		if cps[found].elem {
			out.Atoms = append(out.Atoms, elemAtom(cps[found].src, p.pred))
			lens = append(lens, "1")
		} else {
			sv := e.eval(cps[found].src, p)
			if sv.Unknown != "" {
				return sv
			}
			out.Atoms = append(out.Atoms, sv.Atoms...)
			out.Dropped = append(out.Dropped, sv.Dropped...)
			lens = append(lens, "call builtin len("+canon(cps[found].src)+")")
		}
		if len(lens) == 1 {
			offExpr = lens[0]
		} else {
			offExpr = "(" + offExpr + " + " + lens[len(lens)-1] + ")"
		}
	}
	// the made length must be the sum of the copied lengths
	want := offExpr
	got := offKey(lenV, 0)
	if got != want && !sameSum(got, lens) {
		return seqVal{Unknown: "made length " + got + " is not the sum of the copied lengths " + want}
	}
	return out
}

func sameSum(got string, lens []string) bool {
	// accept any parenthesisation/order of a sum of exactly these len() terms
	g := strings.NewReplacer("(", "", ")", "").Replace(got)
	parts := strings.Split(g, " + ")
	if len(parts) != len(lens) {
		return false
	}
	want := map[string]int{}
	for _, l := range lens {
		want[strings.NewReplacer("(", "", ")", "").Replace(l)]++
	}
	for _, p := range parts {
		want[p]--
	}
	for _, v := range want {
		if v != 0 {
			return false
		}
	}
	return true
}

// evalCallee evaluates a module function returning a slice on each of its
// own paths with parameters bound; all paths must agree.
func (e *seqEngine) evalCallee(sc *ssa.Function, args []ssa.Value, p *pathCtx) seqVal {
	paths, complete := enumPaths(sc, nil, 64)
	if !complete || len(paths) == 0 {
		return seqVal{Unknown: "callee " + FuncName(sc) + " has too many paths"}
	}
	binds := map[*ssa.Parameter]seqVal{}
	for i, prm := range sc.Params {
		if i < len(args) && isSliceType(prm.Type()) {
			binds[prm] = e.eval(args[i], p)
		}
	}
	var res *seqVal
	for _, cp := range paths {
		cp.binds = binds
		cp.depth = p.depth + 1
		last := cp.blocks[len(cp.blocks)-1]
		ret, ok := last.Instrs[len(last.Instrs)-1].(*ssa.Return)
		if !ok || len(ret.Results) != 1 {
			return seqVal{Unknown: "callee " + FuncName(sc) + " return shape"}
		}
		v := e.eval(ret.Results[0], cp)
		if v.Unknown != "" {
			return v
		}
		if res == nil {
			res = &v
		} else if res.String() != v.String() || res.Fresh != v.Fresh {
			return seqVal{Unknown: "callee " + FuncName(sc) + " returns different shapes on different paths: " + res.String() + " vs " + v.String()}
		}
	}
	return *res
}

// seqAtSink evaluates value v (used by instruction sink) on every path to sink.
type seqAlt struct {
	Val  seqVal
	Path *pathCtx
}

func (e *seqEngine) at(f *ssa.Function, sink ssa.Instruction, v ssa.Value) ([]seqAlt, string) {
	paths, complete := enumPaths(f, sink, 4096)
	if !complete {
		return nil, "too many paths in " + FuncName(f)
	}
	var out []seqAlt
	for _, p := range paths {
		out = append(out, seqAlt{e.eval(v, p), p})
	}
	return out, ""
}

func distinctSeqs(alts []seqAlt) []string {
	seen := map[string]bool{}
	var out []string
	for _, a := range alts {
		s := a.Val.String()
		if !seen[s] {
			seen[s] = true
			out = append(out, s)
		}
	}
	return out
}

// condKey renders a branch condition for the consistency check of path
// enumeration: phi operands are resolved along the path walked so far, and
// complementary comparisons share one key (x != y is the negation of x == y,
// x >= y of x < y, x > y of x <= y). flip reports that the key denotes the
// negation of cond.
// resolveAlong follows phis through the predecessor taken on the path.
func resolveAlong(v ssa.Value, pred map[*ssa.BasicBlock]*ssa.BasicBlock) ssa.Value {
	for i := 0; i < 8; i++ {
		ph, ok := v.(*ssa.Phi)
		if !ok {
			return v
		}
		pr, has := pred[ph.Block()]
		if !has {
			return v
		}
		found := false
		for j, pb := range ph.Block().Preds {
			if pb == pr {
				v = ph.Edges[j]
				found = true
				break
			}
		}
		if !found {
			return v
		}
	}
	return v
}

// resolveAcyclic is resolveAlong that stops at loop-header phis: on an acyclic path such
// a phi would resolve to its loop-entry value, which is right for the first iteration only.
func resolveAcyclic(v ssa.Value, pred map[*ssa.BasicBlock]*ssa.BasicBlock) ssa.Value {
	for i := 0; i < 8; i++ {
		ph, ok := v.(*ssa.Phi)
		if !ok || isLoopHeader(ph.Block()) {
			return v
		}
		nv := resolveAlong1(ph, pred)
		if nv == ssa.Value(ph) {
			return v
		}
		v = nv
	}
	return v
}

func resolveAlong1(ph *ssa.Phi, pred map[*ssa.BasicBlock]*ssa.BasicBlock) ssa.Value {
	pr, has := pred[ph.Block()]
	if !has {
		return ph
	}
	for j, pb := range ph.Block().Preds {
		if pb == pr {
			return ph.Edges[j]
		}
	}
	return ph
}

// definitelyNonNil: the value cannot be nil (by construction, or because the
// path already dereferenced a value with the same canonical form).
func definitelyNonNil(v ssa.Value, nonnil map[string]bool) bool {
	if ct, ok := v.(*ssa.ChangeType); ok {
		// a named function or slice type given to a value: nil-ness is that of the operand
		return definitelyNonNil(ct.X, nonnil)
	}
	switch v.(type) {
	case *ssa.Alloc, *ssa.MakeInterface, *ssa.MakeMap, *ssa.MakeChan, *ssa.MakeClosure, *ssa.MakeSlice, *ssa.Function, *ssa.Global, *ssa.FieldAddr, *ssa.IndexAddr:
		return true
	}
	return nonnil != nil && nonnil[canon(v)]
}

// foldCond evaluates a (negation-stripped) branch condition on the path when its
// operands resolve to constants, or to nil versus a value known to be non-nil.
func foldCond(c ssa.Value, pred map[*ssa.BasicBlock]*ssa.BasicBlock, nonnil map[string]bool) (val, known bool) {
	v := resolveAcyclic(c, pred)
	if k, ok := v.(*ssa.Const); ok && k.Value != nil && k.Value.Kind() == constant.Bool {
		return constant.BoolVal(k.Value), true
	}
	b, ok := v.(*ssa.BinOp)
	if !ok || (b.Op != token.EQL && b.Op != token.NEQ) {
		return false, false
	}
	x, y := resolveAcyclic(b.X, pred), resolveAcyclic(b.Y, pred)
	eq, kn := false, false
	kx, xc := x.(*ssa.Const)
	ky, yc := y.(*ssa.Const)
	switch {
	case xc && yc:
		if kx.Value == nil || ky.Value == nil {
			eq, kn = kx.Value == nil && ky.Value == nil, true
		} else if kx.Value.Kind() == ky.Value.Kind() {
			eq, kn = constant.Compare(kx.Value, token.EQL, ky.Value), true
		}
	case xc && kx.Value == nil && isNilable(y.Type()):
		if definitelyNonNil(y, nonnil) {
			eq, kn = false, true
		}
	case yc && ky.Value == nil && isNilable(x.Type()):
		if definitelyNonNil(x, nonnil) {
			eq, kn = false, true
		}
	}
	if !kn {
		return false, false
	}
	return eq == (b.Op == token.EQL), true
}

func isNilable(t types.Type) bool {
	switch t.Underlying().(type) {
	case *types.Pointer, *types.Interface, *types.Map, *types.Slice, *types.Chan, *types.Signature:
		return true
	}
	return false
}

// noteDeref records the pointers an instruction dereferences (they are non-nil afterwards).
func noteDeref(in ssa.Instruction, pred map[*ssa.BasicBlock]*ssa.BasicBlock, nonnil map[string]bool) {
	var base ssa.Value
	switch x := in.(type) {
	case *ssa.FieldAddr:
		base = x.X
	case *ssa.UnOp:
		if x.Op == token.MUL {
			base = x.X
		}
	case *ssa.Store:
		base = x.Addr
	case *ssa.Call:
		// a module function that dereferences a pointer argument on every path to its return:
		// after the call returned, that argument was non-nil
		if sc := staticCallee(x); sc != nil && sc.Pkg != nil && (sc.Pkg.Pkg.Path() == modPath || strings.HasPrefix(sc.Pkg.Pkg.Path(), modPath+"/")) {
			for i, a := range x.Call.Args {
				if _, isPtr := a.Type().Underlying().(*types.Pointer); isPtr && mustDerefParam(sc, i) {
					ra := resolveAlong(a, pred)
					switch ra.(type) {
					case *ssa.Alloc, *ssa.FieldAddr, *ssa.IndexAddr, *ssa.Global:
					default:
						nonnil[canon(ra)] = true
					}
				}
			}
		}
		return
	}
	if base == nil {
		return
	}
	base = resolveAlong(base, pred)
	switch base.(type) {
	case *ssa.Alloc, *ssa.FieldAddr, *ssa.IndexAddr, *ssa.Global:
		return
	}
	nonnil[canon(base)] = true
}

func condKey(c ssa.Value, pred map[*ssa.BasicBlock]*ssa.BasicBlock) (key string, flip bool) {
	res := func(v ssa.Value) ssa.Value { return resolveAlong(v, pred) }
	if b, ok := c.(*ssa.BinOp); ok {
		if key, flip, ok := lenZeroKey(b.Op, res(b.X), res(b.Y)); ok {
			return key, flip
		}
		x, y := canon(res(b.X)), canon(res(b.Y))
		switch b.Op {
		case token.EQL:
			if x > y {
				x, y = y, x
			}
			return "(" + x + " == " + y + ")", false
		case token.NEQ:
			if x > y {
				x, y = y, x
			}
			return "(" + x + " == " + y + ")", true
		case token.LSS:
			return "(" + x + " < " + y + ")", false
		case token.GEQ:
			return "(" + x + " < " + y + ")", true
		case token.LEQ:
			return "(" + x + " <= " + y + ")", false
		case token.GTR:
			return "(" + x + " <= " + y + ")", true
		}
	}
	if ph, ok := c.(*ssa.Phi); ok {
		return canon(res(ph)), false
	}
	return canon(c), false
}

// lenZeroKey: every spelling of "len(x) is zero" / "len(x) is not zero" (== 0, != 0, <= 0, > 0, < 1, >= 1 and the
// mirrored forms) shares the key of len(x) == 0: a length is never negative, so a path that took `len(h) > 0` cannot
// take `len(h) == 0` later.
func lenZeroKey(op token.Token, x, y ssa.Value) (string, bool, bool) {
	isLen := func(v ssa.Value) bool {
		c, ok := v.(*ssa.Call)
		if !ok {
			return false
		}
		b, ok := c.Call.Value.(*ssa.Builtin)
		return ok && b.Name() == "len"
	}
	mirror := map[token.Token]token.Token{token.EQL: token.EQL, token.NEQ: token.NEQ, token.LSS: token.GTR, token.GTR: token.LSS, token.LEQ: token.GEQ, token.GEQ: token.LEQ}
	if !isLen(x) {
		if !isLen(y) {
			return "", false, false
		}
		x, y = y, x
		op = mirror[op]
	}
	k, ok := constInt(y)
	if !ok {
		return "", false, false
	}
	var zero bool // the condition says len == 0 (else: len != 0)
	switch {
	case k == 0 && (op == token.EQL || op == token.LEQ):
		zero = true
	case k == 0 && (op == token.NEQ || op == token.GTR):
		zero = false
	case k == 1 && op == token.LSS:
		zero = true
	case k == 1 && op == token.GEQ:
		zero = false
	default:
		return "", false, false
	}
	a, b := canon(x), canon(ssa.NewConst(constant.MakeInt64(0), y.Type()))
	if a > b {
		a, b = b, a
	}
	return "(" + a + " == " + b + ")", !zero, true
}

// fwdPath is one path from an instruction to the end of the function.
type fwdPath struct {
	pc     *pathCtx
	instrs []ssa.Instruction // executed after the start instruction, in order
	ret    *ssa.Return       // nil: the path ends in a panic
}

type condFact struct {
	cond  ssa.Value
	truth bool
}

// exploreFrom enumerates the paths that start just after instruction from and
// run to a return (or panic). Each CFG edge is taken at most once per path (a
// loop may be re-entered once). The facts that dominate the start (branch
// decisions and dereferences) and the extra facts seed the path condition;
// branches whose condition folds on the path are pruned.
func exploreFrom(from ssa.Instruction, extra []condFact, limit int) ([]*fwdPath, bool) {
	return exploreFromUntil(from, extra, limit, nil)
}

// exploreFromUntil is exploreFrom with an additional end of path: the first instruction satisfying stop ends the
// path there (it is the last element of instrs, ret stays nil). Needed when the interesting event is "the walk comes
// round to this instruction again", which on a path that then has no unused edge left would never be emitted.
func exploreFromUntil(from ssa.Instruction, extra []condFact, limit int, stop func(ssa.Instruction) bool) ([]*fwdPath, bool) {
	f := from.Parent()
	var out []*fwdPath
	complete := true
	conds0 := map[string]bool{}
	var decs0 []decision
	nopred := map[*ssa.BasicBlock]*ssa.BasicBlock{}
	addFact := func(c ssa.Value, truth bool, iff *ssa.If) {
		c0, pos := stripNot(c)
		t := truth == pos
		key, flip := condKey(c0, nopred)
		conds0[key] = t != flip
		decs0 = append(decs0, decision{iff, t, c0})
	}
	for _, ft := range factsAt(from) {
		addFact(ft.Cond, ft.True, ft.If)
	}
	for _, e := range extra {
		addFact(e.cond, e.truth, nil)
	}
	nonnil0 := map[string]bool{}
	eachInstr(f, func(d ssa.Instruction) {
		if d == from || dominates(d, from) {
			noteDeref(d, nopred, nonnil0)
		}
	})
	type edge struct{ from, to *ssa.BasicBlock }
	steps := 0
	var walk func(b *ssa.BasicBlock, start int, pred map[*ssa.BasicBlock]*ssa.BasicBlock, conds map[string]bool, decs []decision, nonnil0 map[string]bool, used map[edge]bool, instrs []ssa.Instruction)
	walk = func(b *ssa.BasicBlock, start int, pred map[*ssa.BasicBlock]*ssa.BasicBlock, conds map[string]bool, decs []decision, nonnil0 map[string]bool, used map[edge]bool, instrs []ssa.Instruction) {
		steps++
		if len(out) >= limit || steps > 200*limit {
			complete = false
			return
		}
		nonnil := map[string]bool{}
		for k := range nonnil0 {
			nonnil[k] = true
		}
		for j := start; j < len(b.Instrs); j++ {
			in := b.Instrs[j]
			noteDeref(in, pred, nonnil)
			instrs = append(instrs, in)
			if stop != nil && stop(in) {
				out = append(out, &fwdPath{pc: &pathCtx{fn: f, pred: pred, conds: conds, decs: decs}, instrs: append([]ssa.Instruction(nil), instrs...)})
				return
			}
			if ret, ok := in.(*ssa.Return); ok {
				out = append(out, &fwdPath{pc: &pathCtx{fn: f, pred: pred, conds: conds, decs: decs}, instrs: append([]ssa.Instruction(nil), instrs...), ret: ret})
				return
			}
			if panicsAt(in) {
				out = append(out, &fwdPath{pc: &pathCtx{fn: f, pred: pred, conds: conds, decs: decs}, instrs: append([]ssa.Instruction(nil), instrs...)})
				return
			}
		}
		var iff *ssa.If
		if len(b.Instrs) > 0 {
			iff, _ = b.Instrs[len(b.Instrs)-1].(*ssa.If)
		}
		for si, s := range b.Succs {
			if used[edge{b, s}] {
				continue
			}
			nc, nd := conds, decs
			if iff != nil {
				c, pos := stripNot(iff.Cond)
				if rc := resolveAcyclic(c, pred); rc != c {
					// a condition merged through a phi (a || b, inlined boolean helper): decide on what it is on this path
					c2, pos2 := stripNot(rc)
					c, pos = c2, pos == pos2
				}
				key, flip := condKey(c, pred)
				truth := (si == 0) == pos
				keyTruth := truth != flip
				if old, ok := conds[key]; ok && old != keyTruth {
					continue
				}
				val, known := foldCond(c, pred, nonnil)
				if known && val != truth {
					continue
				}
				if !known {
					nc = map[string]bool{}
					for k, v := range conds {
						nc[k] = v
					}
					nc[key] = keyTruth
					nd = append(append([]decision(nil), decs...), decision{iff, truth, c})
				}
			}
			np := map[*ssa.BasicBlock]*ssa.BasicBlock{}
			for k, v := range pred {
				np[k] = v
			}
			np[s] = b
			nu := map[edge]bool{}
			for k := range used {
				nu[k] = true
			}
			nu[edge{b, s}] = true
			walk(s, 0, np, nc, nd, nonnil, nu, append([]ssa.Instruction(nil), instrs...))
		}
	}
	walk(from.Block(), idxIn(from)+1, map[*ssa.BasicBlock]*ssa.BasicBlock{}, conds0, decs0, nonnil0, map[edge]bool{}, nil)
	return out, complete
}

var mustDerefMemo = map[*ssa.Function]map[int]bool{}

// mustDerefParam: every path of f from entry to a return dereferences its i-th parameter
// (field access or load through it) — so a call that returned proves the argument non-nil.
func mustDerefParam(f *ssa.Function, i int) bool {
	if f == nil || len(f.Blocks) == 0 || i >= len(f.Params) {
		return false
	}
	if m, ok := mustDerefMemo[f]; ok {
		if v, ok := m[i]; ok {
			return v
		}
	} else {
		mustDerefMemo[f] = map[int]bool{}
	}
	prm := ssa.Value(f.Params[i])
	ok, _ := allPathsHit(f, nil, func(in ssa.Instruction) bool {
		switch x := in.(type) {
		case *ssa.FieldAddr:
			return x.X == prm
		case *ssa.UnOp:
			return x.Op == token.MUL && x.X == prm
		case *ssa.Store:
			return x.Addr == prm
		}
		return false
	})
	mustDerefMemo[f][i] = ok
	return ok
}

// readOnlySliceGlobal: g is a package-level slice variable whose only store is the one of its declaration (in the
// package initialiser), storing a composite literal, and no function of the module writes an element through it,
// re-slices it for appending, or takes its address. Returns the literal's elements in order.
func (w *World) readOnlySliceGlobal(g *ssa.Global) ([]ssa.Value, bool) {
	if _, isSlice := g.Type().(*types.Pointer).Elem().Underlying().(*types.Slice); !isSlice {
		return nil, false
	}
	var lit *ssa.Alloc
	stores := 0
	ok := true
	for _, f := range w.allFuncsOf(g.Pkg) {
		eachInstr(f, func(in ssa.Instruction) {
			for _, op := range in.Operands(nil) {
				if op == nil || *op != ssa.Value(g) {
					continue
				}
				switch x := in.(type) {
				case *ssa.Store:
					if x.Addr != ssa.Value(g) {
						ok = false // address stored somewhere
						continue
					}
					stores++
					if f.Name() != "init" || f.Parent() != nil {
						ok = false
					}
					if sl, isSl := x.Val.(*ssa.Slice); isSl {
						lit, _ = sl.X.(*ssa.Alloc)
					}
				case *ssa.UnOp:
					// a load: the loaded slice may be read, ranged, passed as a variadic source; not written through
					for _, ref := range *x.Referrers() {
						switch y := ref.(type) {
						case *ssa.IndexAddr:
							for _, r2 := range *y.Referrers() {
								if st, isSt := r2.(*ssa.Store); isSt && st.Addr == ssa.Value(y) {
									ok = false
								}
							}
						case *ssa.Call:
							if isBuiltin(y, "append") && len(y.Call.Args) > 0 && y.Call.Args[0] == ssa.Value(x) {
								ok = false
							}
							if isBuiltin(y, "copy") && len(y.Call.Args) > 0 && y.Call.Args[0] == ssa.Value(x) {
								ok = false
							}
							if n := calleeName(y); strings.HasPrefix(n, "sort.") || strings.HasPrefix(n, "slices.Sort") || n == "slices.Reverse" {
								ok = false
							}
						}
					}
				default:
					ok = false
				}
			}
		})
	}
	if !ok || stores != 1 || lit == nil {
		return nil, false
	}
	arr, isArr := lit.Type().(*types.Pointer).Elem().Underlying().(*types.Array)
	if !isArr {
		return nil, false
	}
	elems := make([]ssa.Value, arr.Len())
	for _, ref := range *lit.Referrers() {
		ia, isIA := ref.(*ssa.IndexAddr)
		if !isIA {
			continue
		}
		i, okc := constInt(ia.Index)
		if !okc || i < 0 || i >= arr.Len() {
			return nil, false
		}
		for _, r2 := range *ia.Referrers() {
			if st, isSt := r2.(*ssa.Store); isSt && st.Addr == ssa.Value(ia) {
				elems[i] = st.Val
			}
		}
	}
	for _, ev := range elems {
		if ev == nil {
			return nil, false
		}
	}
	return elems, true
}

// allFuncsOf: the module functions of one package plus its initialiser.
func (w *World) allFuncsOf(pkg *ssa.Package) []*ssa.Function {
	var out []*ssa.Function
	for _, f := range w.Funcs {
		if f.Pkg == pkg {
			out = append(out, f)
		}
	}
	if in := pkg.Func("init"); in != nil {
		have := false
		for _, f := range out {
			if f == in {
				have = true
			}
		}
		if !have {
			out = append(out, in)
		}
	}
	return out
}

// onlyPassesThrough: v is the loop phi itself merged through inner phis (the loop body never assigns the variable).
func onlyPassesThrough(v ssa.Value, loopPhi *ssa.Phi) bool {
	seen := map[ssa.Value]bool{}
	var walk func(v ssa.Value) bool
	walk = func(v ssa.Value) bool {
		if v == ssa.Value(loopPhi) || seen[v] {
			return true
		}
		seen[v] = true
		ph, ok := v.(*ssa.Phi)
		if !ok {
			return false
		}
		for _, e := range ph.Edges {
			if !walk(e) {
				return false
			}
		}
		return true
	}
	return walk(v)
}
