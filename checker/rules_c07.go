package main

// rules_c07.go — C07 (cache transparency) and C14 (bounded LRU).

import (
	"fmt"
	"go/constant"
	"go/token"
	"go/types"
	"sort"
	"strings"

	"golang.org/x/tools/go/ssa"
)

type cacheModel struct {
	w                        *World
	crT, nodeT               *types.Named
	listF, mapF, sizeF       *types.Var
	keyF, valF               *types.Var
	set, get, del, has, lenF *ssa.Function
}

func newCacheModel(w *World) *cacheModel {
	m := &cacheModel{w: w}
	m.crT = w.Named("rux", "cachedRoutes")
	m.nodeT = w.Named("rux", "cacheNode")
	m.listF = w.Field("rux", "cachedRoutes", "list")
	m.mapF = w.Field("rux", "cachedRoutes", "hashMap")
	m.sizeF = w.Field("rux", "cachedRoutes", "size")
	m.keyF = w.Field("rux", "cacheNode", "Key")
	m.valF = w.Field("rux", "cacheNode", "Value")
	m.set = w.Fn("rux", "cachedRoutes.Set")
	m.get = w.Fn("rux", "cachedRoutes.Get")
	m.del = w.Fn("rux", "cachedRoutes.Delete")
	m.has = w.Fn("rux", "cachedRoutes.Has")
	m.lenF = w.Fn("rux", "cachedRoutes.Len")
	return m
}

func listOp(c ssa.CallInstruction) string {
	n := calleeName(c)
	if strings.HasPrefix(n, "(*container/list.List).") {
		return strings.TrimPrefix(n, "(*container/list.List).")
	}
	return ""
}

// C07-KEY / C14-KEY
func ruleCacheKey(rule string) func(r *Run) {
	return func(r *Run) {
		w := r.W
		r.Floor(rule, 3)
		tm := newTierModel(w)
		cm := newCacheModel(w)
		mf := tm.matchFn
		method, path := ssa.Value(mf.Params[1]), ssa.Value(mf.Params[2])
		wholeKey := func(v ssa.Value) bool {
			b, ok := v.(*ssa.BinOp)
			return ok && b.Op == token.ADD && b.X == method && b.Y == path
		}
		gets := callsToFn(mf, cm.get)
		r.Check(rule, "(*Router).match:Get sites", mf.Pos(), len(gets) == 1, fmt.Sprintf("%d cache lookup(s) in match", len(gets)))
		for i, g := range gets {
			ok := wholeKey(g.Common().Args[1])
			r.Check(rule, fmt.Sprintf("(*Router).match:Get key#%d", i+1), w.InstrPos(g), ok, map[bool]string{true: "lookup key = method + whole normalised path (injective in both)", false: "the cache is consulted under a key that is not method + whole path"}[ok])
		}
		// every fill of the cache (through the wrapper or in line) uses the lookup key
		lookup := ""
		if len(gets) == 1 {
			lookup = canon(gets[0].Common().Args[1])
		}
		sites, problems := cacheStoreSites(w, tm)
		for _, pr := range problems {
			r.Check(rule, pr.construct, w.InstrPos(pr.in), false, pr.why)
		}
		n := 0
		for _, site := range sites {
			n++
			okK := site.fn == mf && lookup != "" && site.key == lookup
			r.Check(rule, fmt.Sprintf("%s:store key#%d", FuncName(site.fn), n), w.InstrPos(site.in), okK,
				map[bool]string{true: "entries are stored under the key lookup uses (method + whole path)", false: "a dynamic match is cached under a key that lookup never asks for (" + shortCanon(site.key) + "), or outside the matcher: the repeat of the request is a miss again, and different paths overwrite one entry"}[okK])
		}
		// every successful dynamic match reaches a fill (or a decision that caching is off) before it returns
		filled := map[ssa.Instruction]bool{}
		for _, site := range sites {
			filled[site.in] = true
		}
		// "caching is off" = a test of router configuration only (fields of the Router and constants: the
		// enable flag in whatever representation, the nil test of the cache) that also guards a fill site
		routerT := w.Named("rux", "Router")
		var isConfig func(v ssa.Value, d int) bool
		isConfig = func(v ssa.Value, d int) bool {
			if d > 6 {
				return false
			}
			switch x := v.(type) {
			case *ssa.Const:
				return true
			case *ssa.BinOp:
				return isConfig(x.X, d+1) && isConfig(x.Y, d+1)
			case *ssa.UnOp:
				if x.Op == token.MUL {
					fa, ok := x.X.(*ssa.FieldAddr)
					return ok && isNamedPtr(fa.X.Type(), routerT)
				}
				return isConfig(x.X, d+1)
			case *ssa.Convert:
				return isConfig(x.X, d+1)
			case *ssa.ChangeType:
				return isConfig(x.X, d+1)
			}
			return false
		}
		guards := map[string]bool{} // condition key -> truth required to reach a fill
		noteGuards := func(in ssa.Instruction) {
			for _, ft := range factsAt(in) {
				c0, pos := stripNot(ft.Cond)
				if isConfig(c0, 0) {
					key, flip := condKey(c0, nil)
					guards[key] = (ft.True == pos) != flip
				}
			}
		}
		for _, site := range sites {
			noteGuards(site.in)
		}
		if tm.cacheDyn != nil {
			for _, c := range callsToFn(tm.cacheDyn, cm.set) {
				noteGuards(c.(ssa.Instruction))
			}
		}
		for i, mc := range callsIn(mf, func(c ssa.CallInstruction) bool {
			_, plain := c.(*ssa.Call)
			return plain && tm.scanFns[staticCallee(c)]
		}) {
			okFlag := extractOf(mc.Value(), 1)
			okAll := okFlag != nil
			if okAll {
				fps, complete := exploreFrom(mc.(ssa.Instruction), []condFact{{okFlag, true}}, 4000)
				okAll = complete && len(fps) > 0
				for _, fp := range fps {
					hit := false
					for _, x := range fp.instrs {
						if filled[x] {
							hit = true
						}
					}
					for _, d := range fp.pc.decs {
						if d.If == nil {
							continue
						}
						if isConfig(d.Cond, 0) {
							key, flip := condKey(d.Cond, nil)
							if want, isGuard := guards[key]; isGuard && (d.Truth != flip) != want {
								hit = true // the configuration says: no caching
							}
						}
					}
					if !hit && fp.ret != nil {
						okAll = false
					}
				}
			}
			r.Check(rule, fmt.Sprintf("(*Router).match:dynamic success#%d is cached", i+1), w.InstrPos(mc.(ssa.Instruction)), okAll, map[bool]string{true: "every successful regexp match fills the cache (or caching is off) before returning", false: "a successful dynamic match can return without being cached: its repeat is not served from the cache"}[okAll])
		}
		r.Check(rule, "(*Router).match:store sites", mf.Pos(), n >= 1, fmt.Sprintf("%d store site(s) in the matcher", n))
	}
}

// C07-COPY
func ruleC07Copy(r *Run) {
	w := r.W
	rule := "C07-COPY"
	r.Floor(rule, 3)
	tm := newTierModel(w)
	// the copy that goes into the cache: in copyWithParams, or written where the cache is filled
	var rc *routeCopy
	copies := findRouteCopies(w, tm)
	for i := range copies {
		if tm.copyWithParams != nil {
			if copies[i].fn == tm.copyWithParams {
				rc = &copies[i]
			}
		} else {
			// the cell handed to cachedRoutes.Set
			for _, c := range callsToFn(copies[i].fn, w.Fn("rux", "cachedRoutes.Set")) {
				if a := c.Common().Args; len(a) == 3 && a[2] == ssa.Value(copies[i].cell) {
					rc = &copies[i]
				}
			}
		}
	}
	if rc == nil {
		pos := tm.matchFn.Pos()
		if tm.copyWithParams != nil {
			pos = tm.copyWithParams.Pos()
		}
		r.Check(rule, "(*Route).copyWithParams:copy", pos, false, "no new Route value is created for the cache")
		return
	}
	cw, cell := rc.fn, rc.cell
	whole := rc.wholeSt != nil
	wholeSt := rc.wholeSt
	srcBase := unwrapAddr(rc.src).Base
	allowed := map[*types.Var]bool{tm.regex: true, tm.matches: true, tm.params: true}
	fieldwise := ""
	if !whole {
		// the field-wise spelling: every field of Route (whatever fields the struct has today) except the
		// three the copy may change is initialised from the same field of the receiver
		copied := map[*types.Var]bool{}
		for _, ref := range *cell.Referrers() {
			if fa, ok := ref.(*ssa.FieldAddr); ok {
				for _, r2 := range *fa.Referrers() {
					if st, ok := r2.(*ssa.Store); ok && st.Addr == ssa.Value(fa) && constructionCopy(st) {
						if ld := st.Val.(*ssa.UnOp); unwrapAddr(ld.X).Base == srcBase {
							copied[fieldVar(fa.X.Type(), fa.Field)] = true
						}
					}
				}
			}
		}
		var missing []string
		for _, fv := range w.StructFields("rux", "Route") {
			if !allowed[fv] && !copied[fv] {
				missing = append(missing, fv.Name())
			}
		}
		sort.Strings(missing)
		if len(missing) == 0 {
			whole = true
			fieldwise = " (written field by field: all " + fmt.Sprint(len(copied)) + " observable fields are copied)"
		} else {
			fieldwise = ": not copied: " + strings.Join(missing, ", ")
		}
	}
	r.Check(rule, "(*Route).copyWithParams:whole-struct copy", cw.Pos(), whole, map[bool]string{true: "the copy starts from *r (every field, present and future)" + fieldwise, false: "the cached copy is built field by field and a field a request reads is forgotten" + fieldwise}[whole])
	okF := true
	what := ""
	for _, ref := range *cell.Referrers() {
		if fa, ok := ref.(*ssa.FieldAddr); ok {
			fv := fieldVar(fa.X.Type(), fa.Field)
			for _, r2 := range *fa.Referrers() {
				if st, ok := r2.(*ssa.Store); ok && st.Addr == ssa.Value(fa) {
					if constructionCopy(st) && unwrapAddr(st.Val.(*ssa.UnOp).X).Base == srcBase {
						continue // initialised from the receiver's own field
					}
					if !allowed[fv] {
						okF, what = false, fv.Name()
					}
					if wholeSt != nil && !dominates(wholeSt, st) {
						okF, what = false, fv.Name()+" (before the struct copy)"
					}
				}
			}
		}
	}
	r.Check(rule, "(*Route).copyWithParams:fields changed", cw.Pos(), okF, map[bool]string{true: "afterwards only regex, matches and params are overwritten: name, path, handler, handlers, methods, Opts are identical to the matched route", false: "the copy overwrites Route." + what + ", which a request observes"}[okF])
	// returns the copy
	okRet := false
	eachInstr(cw, func(in ssa.Instruction) {
		if ret, ok := in.(*ssa.Return); ok && len(ret.Results) == 1 && ret.Results[0] == ssa.Value(cell) {
			okRet = true
		}
		if c, ok := in.(*ssa.Call); ok && tm.copyWithParams == nil && staticCallee(c) == w.Fn("rux", "cachedRoutes.Set") && len(c.Call.Args) == 3 && c.Call.Args[2] == ssa.Value(cell) {
			okRet = true // the copy (not the shared route) is what goes into the cache
		}
	})
	r.Check(rule, "(*Route).copyWithParams:returns the copy", cw.Pos(), okRet, "the new value is returned (the shared route is not modified)")
}

// C07-GUARD
func ruleC07Guard(r *Run) {
	w := r.W
	rule := "C07-GUARD"
	r.Floor(rule, 2)
	tm := newTierModel(w)
	cg := w.BuildCG()
	core := cg.Reach(w.Fn("rux", "Router.ServeHTTP"), w.Fn("rux", "Router.HandleContext"), w.Fn("rux", "Router.Match"), w.Fn("rux", "Router.QuickMatch"))
	for _, f := range sortFns(core) {
		n := 0
		eachInstr(f, func(in ssa.Instruction) {
			c, ok := in.(ssa.CallInstruction)
			if !ok {
				return
			}
			sc := staticCallee(c)
			if sc == nil || sc.Signature.Recv() == nil || !isNamedPtr(sc.Signature.Recv().Type(), w.Named("rux", "cachedRoutes")) {
				return
			}
			recv := c.Common().Args[0]
			if !isLoadOfField(recv, tm.cached) {
				return
			}
			n++
			okG := factHolds(in, func(cond ssa.Value, truth bool) bool {
				b, ok := cond.(*ssa.BinOp)
				if !ok {
					return false
				}
				var other ssa.Value
				if isLoadOfField(b.X, tm.cached) {
					other = b.Y
				} else if isLoadOfField(b.Y, tm.cached) {
					other = b.X
				} else {
					return false
				}
				return isNilConst(other) && ((b.Op == token.NEQ && truth) || (b.Op == token.EQL && !truth))
			})
			r.Check(rule, fmt.Sprintf("%s:cachedRoutes.%s#%d", FuncName(f), sc.Name(), n), w.InstrPos(in), okG,
				map[bool]string{true: "the cache pointer is tested for nil on every path to this use", false: "the cache is created by AddRoute, not by the option: on a caching router without routes r.cachedRoutes is nil and this call dereferences it (no nil test dominates it)"}[okG])
		})
	}
}

// C07-NODE / C14-PAIR, C14-ORIENT, C14-BOUND
func ruleCacheStruct(prefix string) func(r *Run) {
	return func(r *Run) {
		w := r.W
		cm := newCacheModel(w)
		pair, orient, bound := prefix+"-PAIR", "C14-ORIENT", "C14-BOUND"
		if prefix == "C07" {
			pair = "C07-NODE"
		}
		r.Floor(pair, 4)
		// --- insert: PushFront(&cacheNode{k, v}); hashMap[k] = thatElement
		inserts := 0
		for _, f := range w.Funcs {
			for _, c := range callsIn(f, func(c ssa.CallInstruction) bool {
				op := listOp(c)
				return op == "PushFront" || op == "PushBack" || op == "InsertBefore" || op == "InsertAfter"
			}) {
				inserts++
				in := c.(ssa.Instruction)
				construct := fmt.Sprintf("%s:insert#%d", FuncName(f), inserts)
				if f != cm.set {
					r.Check(bound, construct, w.InstrPos(in), false, "an element is inserted outside Set: the capacity guard does not see it")
					continue
				}
				k, v := ssa.Value(f.Params[1]), ssa.Value(f.Params[2])
				// the pushed node
				arg := c.Common().Args[1]
				if mi, ok := arg.(*ssa.MakeInterface); ok {
					arg = mi.X
				}
				okNode := false
				if al, ok := arg.(*ssa.Alloc); ok && isNamedPtr(al.Type(), cm.nodeT) {
					var kv, vv ssa.Value
					for _, ref := range *al.Referrers() {
						if fa, ok := ref.(*ssa.FieldAddr); ok {
							for _, r2 := range *fa.Referrers() {
								if st, ok := r2.(*ssa.Store); ok {
									switch fieldVar(fa.X.Type(), fa.Field) {
									case cm.keyF:
										kv = st.Val
									case cm.valF:
										vv = st.Val
									}
								}
							}
						}
					}
					okNode = kv == k && vv == v
				}
				r.Check(pair, construct+" node", w.InstrPos(in), okNode, map[bool]string{true: "the pushed node is {Key: k, Value: v} of this Set call", false: "the node pushed on the list does not carry this call's key and value"}[okNode])
				// index update with the same key and that element
				okIdx := false
				eachInstr(f, func(x ssa.Instruction) {
					if mu, ok := x.(*ssa.MapUpdate); ok && unwrapAddr(mu.Map).hasField(cm.mapF) && mu.Key == k && mu.Value == c.Value() && dominates(in, x) {
						okIdx = true
					}
				})
				r.Check(pair, construct+" index", w.InstrPos(in), okIdx, map[bool]string{true: "hashMap[k] = the element just pushed, on the same path", false: "the index is not updated with the pushed element under the same key: index and list disagree"}[okIdx])
			}
		}
		r.Check(bound, "insert sites", token.NoPos, inserts == 1, fmt.Sprintf("%d place(s) insert into the recency list", inserts))
		// --- remove: list.Remove(e) paired with delete(hashMap, key-of-e)
		removes := 0
		for _, f := range w.Funcs {
			for _, c := range callsIn(f, func(c ssa.CallInstruction) bool { return listOp(c) == "Remove" }) {
				removes++
				in := c.(ssa.Instruction)
				e := c.Common().Args[1]
				construct := fmt.Sprintf("%s:remove#%d", FuncName(f), removes)
				ok := false
				eachInstr(f, func(x ssa.Instruction) {
					d, isCall := x.(*ssa.Call)
					if !isCall || !isBuiltin(d, "delete") || !unwrapAddr(d.Call.Args[0]).hasField(cm.mapF) {
						return
					}
					if !(dominates(x, in) || dominates(in, x)) {
						return
					}
					key := d.Call.Args[1]
					// key == node(e).Key
					if isLoadOfField(key, cm.keyF) {
						base := key.(*ssa.UnOp).X.(*ssa.FieldAddr).X
						if ta, isTA := base.(*ssa.TypeAssert); isTA {
							if ld, isLd := ta.X.(*ssa.UnOp); isLd {
								if fa, isFA := ld.X.(*ssa.FieldAddr); isFA && fa.X == e {
									ok = true
								}
							}
						}
					}
					// or key == the key under which e was found
					if ex, isEx := e.(*ssa.Extract); isEx {
						if lk, isLk := ex.Tuple.(*ssa.Lookup); isLk && lk.Index == key {
							ok = true
						}
					}
				})
				r.Check(pair, construct, w.InstrPos(in), ok, map[bool]string{true: "list.Remove(e) is paired on the same path with delete(hashMap, key of e)", false: "an element is removed from the list without deleting its own key from the index (stale index entry: a later Get returns an evicted route)"}[ok])
			}
		}
		r.Check(pair, "remove sites", token.NoPos, removes >= 2, fmt.Sprintf("%d removal site(s) (eviction, Delete)", removes))
		// deletes without remove
		for _, f := range w.Funcs {
			n := 0
			eachInstr(f, func(x ssa.Instruction) {
				d, isCall := x.(*ssa.Call)
				if !isCall || !isBuiltin(d, "delete") || !unwrapAddr(d.Call.Args[0]).hasField(cm.mapF) {
					return
				}
				n++
				paired := false
				for _, c := range callsIn(f, func(c ssa.CallInstruction) bool { return listOp(c) == "Remove" }) {
					if dominates(x, c) || dominates(c, x) {
						paired = true
					}
				}
				if !paired {
					// or the element is re-used for another key: delete(index, node.Key); node.Key = k2; index[k2] = that element
					if kl, isLd := d.Call.Args[1].(*ssa.UnOp); isLd && isLoadOfField(kl, cm.keyF) {
						node := kl.X.(*ssa.FieldAddr).X
						var elem ssa.Value
						if ta, isTA := node.(*ssa.TypeAssert); isTA {
							if ld, ok := ta.X.(*ssa.UnOp); ok {
								if fa, ok := ld.X.(*ssa.FieldAddr); ok {
									elem = fa.X
								}
							}
						}
						if elem != nil {
							eachInstr(f, func(y ssa.Instruction) {
								mu, isMU := y.(*ssa.MapUpdate)
								if !isMU || !unwrapAddr(mu.Map).hasField(cm.mapF) || mu.Value != elem || !dominates(x, y) {
									return
								}
								// the node's key is set to the new index key between the two
								for _, st := range storesToField(f, cm.keyF) {
									if fa := fieldAddrOf(st); fa.X == node && st.Val == mu.Key && dominates(x, st) {
										paired = true
									}
								}
							})
						}
					}
				}
				r.Check(pair, fmt.Sprintf("%s:delete#%d", FuncName(f), n), w.InstrPos(x), paired, "every index deletion is paired with a list removal (or the element is re-keyed: its node gets the new key and the index maps that key to it)")
			})
		}
		// --- Get returns the Value of the node found under hashMap[k]
		g := cm.get
		okGet := false
		valueOf := func(res0 ssa.Value, p *pathCtx) bool {
			res := func(v ssa.Value) ssa.Value {
				if p != nil {
					return resolvePhi(v, p)
				}
				return v
			}
			res0 = res(res0)
			ld0, ok := res0.(*ssa.UnOp)
			if !ok || ld0.Op != token.MUL {
				return false
			}
			fa0, ok := ld0.X.(*ssa.FieldAddr)
			if !ok || fieldVar(fa0.X.Type(), fa0.Field) != cm.valF {
				return false
			}
			ta, isTA := res(fa0.X).(*ssa.TypeAssert)
			if !isTA {
				return false
			}
			ld, isLd := res(ta.X).(*ssa.UnOp)
			if !isLd {
				return false
			}
			fa, isFA := ld.X.(*ssa.FieldAddr)
			if !isFA {
				return false
			}
			ex, isEx := res(fa.X).(*ssa.Extract)
			if !isEx {
				return false
			}
			lk, isLk := ex.Tuple.(*ssa.Lookup)
			return isLk && lk.Index == ssa.Value(g.Params[1]) && unwrapAddr(lk.X).hasField(cm.mapF)
		}
		eachInstr(g, func(in ssa.Instruction) {
			ret, ok := in.(*ssa.Return)
			if !ok || len(ret.Results) != 2 {
				return
			}
			if isRecoverBlock(in.Block()) {
				return
			}
			if valueOf(resolveSpill(ret.Results[0]), nil) {
				okGet = true
				return
			}
			// the node travels through merged locals (a helper that returns (node, ok)): decide per path —
			// every path that reports a hit returns the Value of the node found under the key
			paths, complete := enumPaths(g, in, 3000)
			if !complete || len(paths) == 0 {
				return
			}
			hits, good := 0, true
			for _, p := range paths {
				okv := resolvePhi(resolveSpill(ret.Results[1]), p)
				if k, isC := okv.(*ssa.Const); isC && k.Value != nil && k.Value.Kind() == constant.Bool && !constant.BoolVal(k.Value) {
					continue // reports a miss
				}
				hits++
				if !valueOf(resolveSpill(ret.Results[0]), p) {
					good = false
				}
			}
			if hits > 0 && good {
				okGet = true
			}
		})
		r.Check(pair, "(*cachedRoutes).Get:value", g.Pos(), okGet, map[bool]string{true: "Get(k) returns the Value of the node indexed under k", false: "Get does not return the value stored under the requested key"}[okGet])
		if prefix == "C07" {
			return
		}
		// --- orientation
		r.Floor(orient, 4)
		fam := map[string]int{}
		for _, f := range w.Funcs {
			for _, c := range callsIn(f, func(c ssa.CallInstruction) bool { return listOp(c) != "" }) {
				fam[listOp(c)]++
			}
		}
		front := fam["PushFront"] + fam["MoveToFront"]
		back := fam["PushBack"] + fam["MoveToBack"]
		victimBack, victimFront := fam["Back"], fam["Front"]
		okO := (front > 0 && back == 0 && victimBack > 0 && victimFront == 0) || (back > 0 && front == 0 && victimFront > 0 && victimBack == 0)
		r.Check(orient, "list orientation", token.NoPos, okO, fmt.Sprintf("touch operations and eviction victim use opposite ends consistently (ops: %v)", fam))
		touchOp := "MoveToFront"
		if back > 0 {
			touchOp = "MoveToBack"
		}
		// Set on an existing key: touch + replace value, no insert
		s := cm.set
		var found ssa.Value
		var foundElem ssa.Value
		eachInstr(s, func(in ssa.Instruction) {
			if lk, ok := in.(*ssa.Lookup); ok && lk.CommaOk && lk.Index == ssa.Value(s.Params[1]) && unwrapAddr(lk.X).hasField(cm.mapF) {
				found = extractOf(lk, 1)
				foundElem = extractOf(lk, 0)
			}
		})
		if found == nil {
			r.Undecided(orient, "(*cachedRoutes).Set:existing key test", s.Pos(), "no comma-ok lookup of the key in Set")
		} else {
			cutMiss := cutEdges(s, func(cond ssa.Value, truth bool) bool { return cond == found && !truth })
			cutHit := cutEdges(s, func(cond ssa.Value, truth bool) bool { return cond == found && truth })
			var lkIn ssa.Instruction = found.(*ssa.Extract).Tuple.(ssa.Instruction)
			// on the paths where the key was found (decided along each path, also through merged flags) nothing is pushed
			insertOnHit := false
			if fps, complete := exploreFrom(lkIn, []condFact{{found, true}}, 4000); complete && len(fps) > 0 {
				for _, fp := range fps {
					for _, x := range fp.instrs {
						if c, ok := x.(ssa.CallInstruction); ok && (listOp(c) == "PushFront" || listOp(c) == "PushBack") {
							insertOnHit = true
						}
					}
				}
			} else {
				insertOnHit = pathExists(s, lkIn, func(x ssa.Instruction) bool {
					c, ok := x.(ssa.CallInstruction)
					return ok && (listOp(c) == "PushFront" || listOp(c) == "PushBack")
				}, nil, cutMiss)
			}
			r.Check(orient, "(*cachedRoutes).Set:existing key no insert", s.Pos(), !insertOnHit, map[bool]string{true: "storing an existing key inserts nothing", false: "storing an existing key inserts a second element"}[!insertOnHit])
			// on hit: every path to return passes touch(element) and a store node.Value = v
			touched, _ := allPathsHitCut(s, lkIn, func(x ssa.Instruction) bool {
				c, ok := x.(ssa.CallInstruction)
				return ok && listOp(c) == touchOp && c.Common().Args[1] == foundElem
			}, cutMiss)
			r.Check(orient, "(*cachedRoutes).Set:existing key touched", s.Pos(), touched, map[bool]string{true: "a key just stored again becomes the most recent", false: "re-storing a key does not refresh its recency"}[touched])
			replaced, _ := allPathsHitCut(s, lkIn, func(x ssa.Instruction) bool {
				st, ok := x.(*ssa.Store)
				if !ok || st.Val != ssa.Value(s.Params[2]) {
					return false
				}
				fa, ok := st.Addr.(*ssa.FieldAddr)
				return ok && fieldVar(fa.X.Type(), fa.Field) == cm.valF
			}, cutMiss)
			r.Check(orient, "(*cachedRoutes).Set:existing key replaced", s.Pos(), replaced, map[bool]string{true: "storing an existing key replaces its value", false: "storing an existing key keeps the old value"}[replaced])
			// on miss: no touch of other elements
			_ = cutHit
		}
		// Get on a hit touches
		var gFound, gElem ssa.Value
		var gLk ssa.Instruction
		eachInstr(g, func(in ssa.Instruction) {
			if lk, ok := in.(*ssa.Lookup); ok && lk.CommaOk && unwrapAddr(lk.X).hasField(cm.mapF) {
				gFound, gElem, gLk = extractOf(lk, 1), extractOf(lk, 0), in
			}
		})
		if gLk != nil {
			cutMiss := cutEdges(g, func(cond ssa.Value, truth bool) bool { return cond == gFound && !truth })
			touched, _ := allPathsHitCut(g, gLk, func(x ssa.Instruction) bool {
				c, ok := x.(ssa.CallInstruction)
				return ok && listOp(c) == touchOp && c.Common().Args[1] == gElem
			}, cutMiss)
			r.Check(orient, "(*cachedRoutes).Get:hit touched", g.Pos(), touched, map[bool]string{true: "a key just read becomes the most recent", false: "a hit does not refresh the entry's recency: the cache degrades to FIFO"}[touched])
		}
		// Has is a read of the key like Get: it answers through Get, or touches the element it found itself
		if h := w.FnOpt("rux", "cachedRoutes.Has"); h != nil && len(h.Params) == 2 {
			isOwnGet := func(x ssa.Instruction) bool {
				c, ok := x.(*ssa.Call)
				return ok && staticCallee(c) == g && len(c.Call.Args) == 2 && c.Call.Args[0] == ssa.Value(h.Params[0]) && c.Call.Args[1] == ssa.Value(h.Params[1])
			}
			viaGet, nRet := true, 0
			eachInstr(h, func(in ssa.Instruction) {
				if _, isRet := in.(*ssa.Return); isRet && !isRecoverBlock(in.Block()) {
					nRet++
					if entryPathAvoiding(h, in, isOwnGet) {
						viaGet = false
					}
				}
			})
			okHas := viaGet && nRet > 0
			if !okHas {
				var hFound, hElem ssa.Value
				var hLk ssa.Instruction
				eachInstr(h, func(in ssa.Instruction) {
					if lk, ok := in.(*ssa.Lookup); ok && lk.CommaOk && lk.Index == ssa.Value(h.Params[1]) && unwrapAddr(lk.X).hasField(cm.mapF) {
						hFound, hElem, hLk = extractOf(lk, 1), extractOf(lk, 0), in
					}
				})
				if hLk != nil {
					cutMiss := cutEdges(h, func(cond ssa.Value, truth bool) bool { return cond == hFound && !truth })
					okHas, _ = allPathsHitCut(h, hLk, func(x ssa.Instruction) bool {
						c, ok := x.(ssa.CallInstruction)
						return ok && listOp(c) == touchOp && c.Common().Args[1] == hElem
					}, cutMiss)
				}
			}
			r.Check(orient, "(*cachedRoutes).Has:hit touched", h.Pos(), okHas, map[bool]string{true: "Has reads the key through Get (or moves the element it found to the recent end itself)", false: "Has reports a key as present without refreshing its recency: a key that was just read can be the next eviction victim"}[okHas])
		}
		// Delete touches nothing else
		d := cm.del
		nTouch := len(callsIn(d, func(c ssa.CallInstruction) bool { op := listOp(c); return op != "" && op != "Remove" }))
		r.Check(orient, "(*cachedRoutes).Delete:only removes", d.Pos(), nTouch == 0, "Delete changes no other entry's recency")
		// --- bound
		r.Floor(bound, 3)
		var guard *ssa.If
		overOnFalse := false
		for _, b := range s.Blocks {
			iff, ok := b.Instrs[len(b.Instrs)-1].(*ssa.If)
			if !ok {
				continue
			}
			c0, _ := stripNot(iff.Cond)
			bo, ok := c0.(*ssa.BinOp)
			if !ok {
				continue
			}
			isLen := func(v ssa.Value) bool {
				c, ok := v.(*ssa.Call)
				return ok && listOp(c) == "Len"
			}
			if (isLen(bo.X) && isLoadOfField(bo.Y, cm.sizeF)) || (isLen(bo.Y) && isLoadOfField(bo.X, cm.sizeF)) {
				guard = iff
				// over-capacity edge
				op := bo.Op
				if isLen(bo.Y) {
					op = flipOp(op)
				}
				// "Len() > size" evicts on the true edge, the guard-clause spelling "Len() <= size" on the false edge
				okOp := op == token.GTR || op == token.LEQ
				overOnFalse = op == token.LEQ
				r.Check(bound, "(*cachedRoutes).Set:capacity comparison", w.InstrPos(iff), okOp, map[bool]string{true: "eviction when Len() > size", false: "the capacity comparison is not 'Len() > size' (capacity off by one or never evicting)"}[okOp])
			}
		}
		if guard == nil {
			r.Check(bound, "(*cachedRoutes).Set:capacity guard", s.Pos(), false, "no comparison of list.Len() with size after an insertion: the cache grows without bound")
		} else {
			// the insertion path reaches the guard
			var ins ssa.Instruction
			for _, c := range callsIn(s, func(c ssa.CallInstruction) bool { return listOp(c) == "PushFront" || listOp(c) == "PushBack" }) {
				ins = c.(ssa.Instruction)
			}
			reach := false
			if ins != nil {
				reach, _ = allPathsHit(s, ins, func(x ssa.Instruction) bool { return x == ssa.Instruction(guard) })
			}
			r.Check(bound, "(*cachedRoutes).Set:insert reaches guard", w.InstrPos(guard), reach, "every insertion is followed by the capacity test")
			// over capacity: exactly one removal, of the victim end
			c0, pos := stripNot(guard.Cond)
			_ = c0
			over := guard.Block().Succs[0]
			if pos == overOnFalse {
				over = guard.Block().Succs[1]
			}
			rem := 0
			loop := false
			var victim ssa.Value
			seen := map[*ssa.BasicBlock]bool{}
			var walk func(b *ssa.BasicBlock)
			walk = func(b *ssa.BasicBlock) {
				if seen[b] {
					return
				}
				seen[b] = true
				for _, x := range b.Instrs {
					if c, ok := x.(ssa.CallInstruction); ok && listOp(c) == "Remove" {
						rem++
						victim = c.Common().Args[1]
						if inLoop(x) {
							loop = true
						}
					}
				}
				for _, sc := range b.Succs {
					walk(sc)
				}
			}
			walk(over)
			okV := false
			if vc, ok := victim.(*ssa.Call); ok {
				want := "Back"
				if back > 0 {
					want = "Front"
				}
				okV = listOp(vc) == want
			}
			r.Check(bound, "(*cachedRoutes).Set:evicts one victim", w.InstrPos(guard), rem == 1 && !loop && okV, map[bool]string{true: "over capacity exactly one element, the least recently used end, is removed", false: fmt.Sprintf("over capacity %d removal(s) (loop=%v), victim is the LRU end=%v", rem, loop, okV)}[rem == 1 && !loop && okV])
		}
		// the capacity the guard compares with is the configured one: every store to the size field (constructor
		// literal or assignment) stores a parameter of its function as it came in — or the constant 0, which is what
		// any negative capacity already means for 'Len() > size'. A clamp to 1 ("make() needs a positive hint") turns
		// a cache configured to hold nothing into one that holds an entry.
		nSize := 0
		for _, f := range w.Funcs {
			for _, st := range storesToField(f, cm.sizeF) {
				nSize++
				okS, what := true, ""
				for _, leaf := range valueLeaves(st.Val) {
					for {
						if cv, isCv := leaf.(*ssa.Convert); isCv {
							leaf = cv.X
							continue
						}
						break
					}
					switch x := leaf.(type) {
					case *ssa.Parameter:
					case *ssa.Const:
						if k, isInt := constInt(x); !isInt || k != 0 {
							okS, what = false, "the constant "+x.Name()
						}
					default:
						if !isLoadOfField(leaf, cm.sizeF) {
							okS, what = false, "a computed value ("+leaf.Name()+")"
						}
					}
				}
				r.Check(bound, fmt.Sprintf("%s:capacity stored#%d", FuncName(f), nSize), w.InstrPos(st), okS, map[bool]string{true: "the stored capacity is the caller's parameter (or 0 for a negative one)", false: "the stored capacity can be " + what + " instead of the configured value: the bound that Set enforces is not the one the router was given (a capacity of 0 no longer means 'keep nothing')"}[okS])
			}
		}
		r.Exists(bound, "cachedRoutes.size:stores", token.NoPos, nSize > 0, fmt.Sprintf("%d store(s) to the capacity field", nSize))
	}
}

// allPathsHitCut is allPathsHit restricted to paths that avoid cut edges.
func allPathsHitCut(f *ssa.Function, from ssa.Instruction, hit func(ssa.Instruction) bool, cut func(*ssa.BasicBlock, int) bool) (bool, ssa.Instruction) {
	miss := pathExists(f, from, isReturnInstr, hit, cut)
	// require that at least one hit is reachable at all (non-vacuous)
	any := pathExists(f, from, hit, nil, cut)
	return !miss && any, nil
}

// C14-TOTAL: the cache operations never panic, for any capacity (0 included) and key sequence.
func ruleC14Total(r *Run) {
	w := r.W
	var fns []*ssa.Function
	for _, f := range w.Funcs {
		if f.Parent() == nil && isCachedRoutesMethod(w, f) {
			fns = append(fns, f)
		}
	}
	runIdx(r, "C14-TOTAL", fns, 3)
}

func init() {
	register(&property{
		Meta: propertyMeta{
			ID:          "C07",
			Explanation: "The cache can only return what the uncached path would have returned for the same (method, path): (C07-KEY) store and lookup keys are both method + whole normalised path (canonical form through the wrapper cacheDynamicRoute; two store sites, one per dynamic tier). (C07-VALUE = C02-CACHE) the pair stored is the pair the miss path returns; a hit returns (v, v.params). (C07-COPY) copyWithParams starts from a whole-struct copy and overwrites only regex, matches, params. (C07-ORDER = C01-TIERS) the cache sits after the static table and before dynamic matching and is filled only on dynamic success paths. (C07-NODE) index and list of the cache agree on keys: pushed node carries (k, v), hashMap[k] is that element, every Remove is paired with delete of that element's key, Get returns the value indexed under k. (C07-GUARD) every use of r.cachedRoutes in the request core is dominated by a nil test. (C02-STATIC) no route reaches the static table through another door than registration's variable-free test of its own whole path: a dynamic route promoted there by the caching code would be answered without parameters from its second request on. (C07-OWN) every store into Router.cachedRoutes stores nil or a container allocated by that activation — a call, made in the storing function, of a module constructor whose every return is its own allocation, or a literal — never a captured variable, a parameter or a loaded value: two routers cannot share a cache, whose METHOD+path key identifies a route only within one route table.",
			NotDecided:  []string{"step-by-step equality of twin routers for every request history (history-valued)", "eviction policy (C14)", "handlers mutating Params (excluded by the property's premise)"},
			Assumptions: []string{"handlers treat Params as read-only; registration is finished before the first request"},
		},
		Rules: []ruleFn{{"C07-KEY", ruleCacheKey("C07-KEY")}, {"C07-VALUE", ruleC02Cache("C07-VALUE")}, {"C07-COPY", ruleC07Copy}, {"C01-TIERS", ruleC01Tiers}, {"C07-NODE", ruleCacheStruct("C07")}, {"C07-GUARD", ruleC07Guard}, {"C02-STATIC", ruleC02Static("C02-STATIC")}, {"C07-OWN", ruleC07Own}},
	})
	register(&property{
		Meta: propertyMeta{
			ID:          "C14",
			Explanation: "Structural invariants that make the two-structure implementation a bounded LRU: (C14-PAIR) index and list change together (insert: PushFront(&node{k,v}) with hashMap[k] = that element; remove: list.Remove(e) with delete(hashMap, key of e); Get returns the indexed node's value). (C14-ORIENT) one orientation is used consistently: inserts, re-stores and hits touch the front family, the eviction victim is the back; re-storing a key touches and replaces without inserting; Delete touches nothing else. (C14-BOUND) only Set inserts, every insertion reaches the guard Len() > size, which removes exactly one element, the LRU end (by induction Len <= max(size,0) after every Set). (C14-KEY) the router stores each dynamic match under the key lookup uses, and (C01-TIERS) consults the cache before dynamic matching, so an immediate repeat is answered from the cache. (C14-LOCK) recency mutations happen under the exclusive lock. (C14-ORIENT, Has) Has reads the key through Get, or moves the element it found to the recent end itself. (C14-BOUND, capacity) every store to the capacity field stores a parameter of its function unchanged, or the constant 0 (what a negative capacity already means to Len() > size).",
			NotDecided:  []string{"LRU conformance as a property of arbitrary operation histories (needs the run-time order); Len() values"},
			Assumptions: []string{"container/list semantics"},
		},
		Rules: []ruleFn{{"C14-PAIR", ruleCacheStruct("C14")}, {"C14-KEY", ruleCacheKey("C14-KEY")}, {"C14-LOCK", ruleCacheLock("C14-LOCK")}, {"C14-TOTAL", ruleC14Total}, {"C01-TIERS", ruleC01Tiers}, {"C03-EFF", ruleC03Eff}},
	})
}

// flowsOnlyFromParams: v is computed from the function's parameters and constants by pure operators.
func flowsOnlyFromParams(v ssa.Value, f *ssa.Function) bool {
	switch x := v.(type) {
	case *ssa.Parameter:
		return x.Parent() == f
	case *ssa.Const:
		return true
	case *ssa.BinOp:
		return flowsOnlyFromParams(x.X, f) && flowsOnlyFromParams(x.Y, f)
	case *ssa.ChangeType:
		return flowsOnlyFromParams(x.X, f)
	case *ssa.Convert:
		return flowsOnlyFromParams(x.X, f)
	}
	return false
}

// C07-OWN: the cache key is METHOD + path, which identifies a route only inside one route table. "The cache never
// changes what a request observes" therefore needs every router to have a cache of its own: each store into
// Router.cachedRoutes stores nil or a container allocated by that very activation (a NewCachedRoutes call, or a
// cachedRoutes literal, made in the function that stores it). A container that comes in from outside — a variable
// captured by an option closure, a parameter, a package-level value — can be shared by two routers, and the second
// one is answered with the routes the first one cached.
func ruleC07Own(r *Run) {
	w := r.W
	rule := "C07-OWN"
	r.Floor(rule, 1)
	tm := newTierModel(w)
	crT := w.Named("rux", "cachedRoutes")
	n := 0
	for _, f := range w.Funcs {
		for _, st := range storesToField(f, tm.cached) {
			n++
			okO, what := true, ""
			for _, leaf := range valueLeaves(st.Val) {
				switch x := leaf.(type) {
				case *ssa.Const:
					if !isNilConst(x) {
						okO, what = false, "a constant"
					}
				case *ssa.Call:
					sc := staticCallee(x)
					fresh := sc != nil && w.InModule(sc) && sc.Signature.Results().Len() == 1 && isNamedPtr(sc.Signature.Results().At(0).Type(), crT) && allReturnsFresh(sc, crT)
					if !fresh || x.Parent() != f {
						okO, what = false, "the result of "+calleeName(x)
					}
				case *ssa.Alloc:
					if x.Parent() != f || !isNamedPtr(x.Type(), crT) {
						okO, what = false, "a variable"
					}
				case *ssa.FreeVar:
					okO, what = false, "the captured variable "+x.Name()+" (one container for every router the closure is applied to)"
				case *ssa.Parameter:
					okO, what = false, "the parameter "+x.Name()
				case *ssa.UnOp:
					if fv, isFV := x.X.(*ssa.FreeVar); isFV && x.Op == token.MUL {
						okO, what = false, "the captured variable "+fv.Name()+" (one container for every router the closure is applied to)"
					} else {
						okO, what = false, "a value loaded from elsewhere ("+leaf.Name()+")"
					}
				default:
					okO, what = false, "a value that is not allocated here ("+leaf.Name()+")"
				}
			}
			r.Check(rule, fmt.Sprintf("%s:store Router.cachedRoutes#%d", FuncName(f), n), w.InstrPos(st), okO, map[bool]string{true: "the router gets a container allocated by this activation (or nil)", false: "the router's cache container can be " + what + ": two routers can end up with the same cache, and METHOD+path of one route table answers requests of the other"}[okO])
		}
	}
}

// allReturnsFresh: every return of the constructor is a cachedRoutes allocated in it.
func allReturnsFresh(f *ssa.Function, t *types.Named) bool {
	if f.Blocks == nil {
		return false
	}
	ok, n := true, 0
	eachInstr(f, func(in ssa.Instruction) {
		ret, isRet := in.(*ssa.Return)
		if !isRet || len(ret.Results) != 1 {
			return
		}
		n++
		for _, leaf := range valueLeaves(ret.Results[0]) {
			if a, isA := leaf.(*ssa.Alloc); !isA || a.Parent() != f || !isNamedPtr(a.Type(), t) {
				ok = false
			}
		}
	})
	return ok && n > 0
}
