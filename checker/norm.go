package main

// norm.go — E-NORM: source-level normalisation applied before the analysis.
//
// The rules are written against the functions of the pinned tree (the anchors
// and the helpers they look through). A behaviour-preserving change that moves
// part of such a function into a *new* unexported helper would otherwise hide
// that part from the intra-procedural engines (lock sets, sequence shapes,
// dominance) and end in a false alarm. E-NORM undoes exactly that step: every
// call of a function that does not exist in the pinned tree (baseline_funcs.go)
// and is unexported, non-recursive, non-generic, free of defer/recover/labels,
// is replaced — in an overlay, /repo is never written — by the callee's body:
//
//	var a0 T0 = arg0 ...            // receiver and arguments, in call order
//	var r0 R0 ...                   // result temporaries
//	{ var p0 T0 = a0 ...            // parameters, named results
//	  L: for { body; break L } }    // return e  ==>  r0 = e; break L
//
// Calls are hoisted out of a statement only where Go's evaluation order is
// preserved (no earlier side-effecting call in the statement, not under && / ||,
// not in a loop header, not in an else-if header); every other call site is
// left alone. A helper whose every reference was inlined is removed from the
// overlay, so the engines see its code only in the callers' context. //line
// directives keep every reported position on the real file and line.
//
// The result is type-checked by the ordinary load; if it does not type-check
// the normalisation is discarded and the tree is analysed as written. What was
// inlined/removed/left is recorded in the evidence.

import (
	"bytes"
	"crypto/sha1"
	"encoding/hex"
	"fmt"
	"go/ast"
	"go/parser"
	"go/printer"
	"go/token"
	"go/types"
	"os"
	"path/filepath"
	"sort"
	"strconv"
	"strings"

	"golang.org/x/tools/go/packages"
)

type normResult struct {
	Overlay map[string][]byte
	Inlined []string
	Removed []string
	Left    []string
}

func (r *normResult) summary() map[string]any {
	if r == nil {
		return map[string]any{"applied": false, "reason": "no function outside the pinned tree's function list: the source is analysed as written"}
	}
	return map[string]any{"applied": len(r.Overlay) > 0, "inlined_call_sites": r.Inlined, "helpers_removed_from_the_analysed_program": r.Removed, "call_sites_left_as_calls": r.Left}
}

// moduleGoFiles lists the non-test .go files of the module (overlay files included).
func moduleGoFiles(dir string, overlay map[string][]byte) []string {
	seen := map[string]bool{}
	var out []string
	_ = filepath.Walk(dir, func(p string, fi os.FileInfo, err error) error {
		if err != nil {
			return nil
		}
		b := filepath.Base(p)
		if fi.IsDir() {
			if p != dir && (strings.HasPrefix(b, "_") || strings.HasPrefix(b, ".") || b == "testdata" || b == "vendor") {
				return filepath.SkipDir
			}
			return nil
		}
		if strings.HasSuffix(b, ".go") && !strings.HasSuffix(b, "_test.go") {
			seen[p] = true
			out = append(out, p)
		}
		return nil
	})
	for p := range overlay {
		if !seen[p] && strings.HasPrefix(p, dir+"/") && strings.HasSuffix(p, ".go") && !strings.HasSuffix(p, "_test.go") {
			out = append(out, p)
		}
	}
	sort.Strings(out)
	return out
}

func funcKey(dir, file string, fd *ast.FuncDecl) string {
	rel, _ := filepath.Rel(dir, filepath.Dir(file))
	recv := ""
	if fd.Recv != nil && len(fd.Recv.List) == 1 {
		t := fd.Recv.List[0].Type
		for {
			switch x := t.(type) {
			case *ast.StarExpr:
				t = x.X
				continue
			case *ast.ParenExpr:
				t = x.X
				continue
			case *ast.IndexExpr:
				t = x.X
				continue
			case *ast.IndexListExpr:
				t = x.X
				continue
			}
			break
		}
		if id, ok := t.(*ast.Ident); ok {
			recv = id.Name
		}
	}
	return rel + ":" + recv + "." + fd.Name.Name
}

// bodyHash fingerprints a function body (comments and layout do not count). Trivial
// bodies get no fingerprint: they are too easy to match by accident.
func bodyHash(fset *token.FileSet, fd *ast.FuncDecl) string {
	if fd.Body == nil {
		return ""
	}
	var buf bytes.Buffer
	if err := printer.Fprint(&buf, fset, fd.Body); err != nil {
		return ""
	}
	txt := strings.Join(strings.Fields(buf.String()), " ")
	if len(txt) < 60 {
		return ""
	}
	sum := sha1.Sum([]byte(txt))
	return hex.EncodeToString(sum[:6])
}

// bodyShape fingerprints the structure of a body with every identifier blanked: it survives a
// consistent renaming of the fields, constants and variables the body mentions. Prefixed "~".
func bodyShape(fd *ast.FuncDecl) string {
	if fd.Body == nil {
		return ""
	}
	var b strings.Builder
	n := 0
	ast.Inspect(fd.Body, func(x ast.Node) bool {
		if x == nil {
			b.WriteString(")")
			return false
		}
		n++
		switch v := x.(type) {
		case *ast.Ident:
			b.WriteString("(i")
		case *ast.BasicLit:
			b.WriteString("(" + v.Value)
		case *ast.BinaryExpr:
			b.WriteString("(" + v.Op.String())
		case *ast.UnaryExpr:
			b.WriteString("(u" + v.Op.String())
		case *ast.AssignStmt:
			b.WriteString("(=" + v.Tok.String())
		case *ast.IncDecStmt:
			b.WriteString("(" + v.Tok.String())
		case *ast.BranchStmt:
			b.WriteString("(" + v.Tok.String())
		default:
			b.WriteString("(" + strings.TrimPrefix(fmt.Sprintf("%T", x), "*ast."))
		}
		return true
	})
	if n < 25 {
		return "" // too small to be distinctive
	}
	sum := sha1.Sum([]byte(b.String()))
	return "~" + hex.EncodeToString(sum[:6])
}

// listFuncs parses the module and returns key -> body fingerprint of every declared function.
func listFuncs(dir string, overlay map[string][]byte) map[string]string {
	fset := token.NewFileSet()
	out := map[string]string{}
	for _, p := range moduleGoFiles(dir, overlay) {
		var src any
		if b, ok := overlay[p]; ok {
			src = b
		}
		f, err := parser.ParseFile(fset, p, src, parser.SkipObjectResolution)
		if err != nil {
			continue
		}
		for _, d := range f.Decls {
			if fd, ok := d.(*ast.FuncDecl); ok {
				out[funcKey(dir, p, fd)] = bodyHash(fset, fd) + "|" + bodyShape(fd)
			}
		}
	}
	return out
}

// listFuncKeys parses the module and returns the key of every declared function.
func listFuncKeys(dir string, overlay map[string][]byte) []string {
	var keys []string
	for k := range listFuncs(dir, overlay) {
		keys = append(keys, k)
	}
	sort.Strings(keys)
	return keys
}

// movedFuncs: functions of the pinned tree that are gone from the current tree but whose
// body lives on, unchanged, under another name or receiver (rename / move / method <-> function).
// old key -> new key.
func movedFuncs(cur map[string]string) map[string]string {
	split := func(h string) (string, string) {
		if i := strings.IndexByte(h, '|'); i >= 0 {
			return h[:i], h[i+1:]
		}
		return h, ""
	}
	recvOf := func(k string) string {
		// "rel:Recv.Name"
		k = k[strings.IndexByte(k, ':')+1:]
		return k[:strings.IndexByte(k, '.')]
	}
	byExact, byShape := map[string][]string{}, map[string][]string{}
	for k, h := range cur {
		if _, base := baselineFuncs[k]; base {
			continue
		}
		ex, sh := split(h)
		if ex != "" {
			byExact[ex] = append(byExact[ex], k)
		}
		if sh != "" {
			byShape[sh] = append(byShape[sh], k)
		}
	}
	out := map[string]string{}
	taken := map[string]bool{}
	var missing []string
	for k := range baselineFuncs {
		if _, still := cur[k]; !still {
			missing = append(missing, k)
		}
	}
	sort.Strings(missing)
	for _, k := range missing {
		ex, _ := split(baselineFuncs[k])
		if c := byExact[ex]; ex != "" && len(c) == 1 {
			out[k] = c[0]
			taken[c[0]] = true
		}
	}
	// same structure with renamed identifiers: only among functions with the same receiver type
	for _, k := range missing {
		if _, done := out[k]; done {
			continue
		}
		_, sh := split(baselineFuncs[k])
		if sh == "" {
			continue
		}
		var cands []string
		for _, c := range byShape[sh] {
			if !taken[c] && recvOf(c) == recvOf(k) {
				cands = append(cands, c)
			}
		}
		if len(cands) == 1 {
			out[k] = cands[0]
			taken[cands[0]] = true
		}
	}
	// same name in the same package, receiver dropped or added (a method whose receiver was unused becomes a plain
	// function, or the reverse): the body may have changed with it, so only the name decides, and only when unique
	nameOf := func(k string) (string, string) {
		i := strings.IndexByte(k, ':')
		rest := k[i+1:]
		return k[:i], rest[strings.IndexByte(rest, '.')+1:]
	}
	for _, k := range missing {
		if _, done := out[k]; done {
			continue
		}
		rel, name := nameOf(k)
		var cands []string
		for c := range cur {
			if _, base := baselineFuncs[c]; base || taken[c] {
				continue
			}
			crel, cname := nameOf(c)
			if crel == rel && cname == name && (recvOf(c) == "") != (recvOf(k) == "") {
				cands = append(cands, c)
			}
		}
		if len(cands) == 1 {
			out[k] = cands[0]
			taken[cands[0]] = true
		}
	}
	return out
}

type nEdit struct {
	start, end int
	text       string
}

type nHelper struct {
	obj   *types.Func
	decl  *ast.FuncDecl
	fname string
	free  []*ast.Ident
	// return shape
	nReturns int
	tailOnly bool
}

type nRetCtx struct {
	temps []string
	named []string
	label string // "" = tail mode (single trailing return) or no returns
}

type nScopeAt struct {
	scope *types.Scope
	pos   token.Pos
	file  string
}

type nGen struct {
	rc    *nRetCtx
	outer []nScopeAt // scopes of the enclosing inlining contexts, outermost first
	top   *ast.FuncDecl
}

type normalizer struct {
	dir     string
	fset    *token.FileSet
	pkg     *packages.Package
	src     map[string][]byte
	helpers map[*types.Func]*nHelper
	uid     int
	seen    map[*ast.Ident]bool
	fails   map[*ast.Ident]map[*ast.FuncDecl]bool
	notes   map[string]bool
	inlined map[string]bool
	needImp map[string]map[string]string // file -> name -> path
	depth   int
}

func (n *normalizer) off(p token.Pos) int     { return n.fset.PositionFor(p, false).Offset }
func (n *normalizer) line(p token.Pos) int    { return n.fset.PositionFor(p, false).Line }
func (n *normalizer) file(p token.Pos) string { return n.fset.PositionFor(p, false).Filename }
func (n *normalizer) rel(p token.Pos) string {
	ps := n.fset.PositionFor(p, false)
	fn := strings.TrimPrefix(ps.Filename, n.dir+"/")
	return fmt.Sprintf("%s:%d", fn, ps.Line)
}
func (n *normalizer) lineDir(p token.Pos) string {
	return fmt.Sprintf("\n//line %s:%d\n", n.file(p), n.line(p))
}

// splice returns the source text of [start,end) with the edits applied.
func (n *normalizer) splice(start, end token.Pos, edits []nEdit) string {
	src := n.src[n.file(start)]
	s, e := n.off(start), n.off(end)
	sort.SliceStable(edits, func(i, j int) bool { return edits[i].start < edits[j].start })
	var b strings.Builder
	cur := s
	for _, ed := range edits {
		if ed.start < cur || ed.end > e {
			continue // nested or out of range: cannot happen by construction; keep the text
		}
		b.Write(src[cur:ed.start])
		b.WriteString(ed.text)
		cur = ed.end
	}
	b.Write(src[cur:e])
	return b.String()
}

func (n *normalizer) fail(id *ast.Ident, gc *nGen, why string, at token.Pos) {
	if n.fails[id] == nil {
		n.fails[id] = map[*ast.FuncDecl]bool{}
	}
	n.fails[id][gc.top] = true
	n.notes[fmt.Sprintf("%s: call of %s left as a call (%s)", n.rel(at), id.Name, why)] = true
}

func (n *normalizer) info() *types.Info { return n.pkg.TypesInfo }

// calleeOf resolves a call to a helper (nil when it is not one).
func (n *normalizer) calleeOf(c *ast.CallExpr) (*nHelper, *ast.Ident, ast.Expr) {
	switch f := ast.Unparen(c.Fun).(type) {
	case *ast.Ident:
		if fn, ok := n.info().Uses[f].(*types.Func); ok {
			if h := n.helpers[fn]; h != nil {
				return h, f, nil
			}
		}
	case *ast.SelectorExpr:
		if fn, ok := n.info().Uses[f.Sel].(*types.Func); ok {
			if h := n.helpers[fn]; h != nil {
				return h, f.Sel, f.X
			}
		}
	}
	return nil, nil, nil
}

func directChildren(x ast.Node) []ast.Node {
	var out []ast.Node
	first := true
	ast.Inspect(x, func(c ast.Node) bool {
		if c == nil {
			return false
		}
		if first {
			first = false
			return true
		}
		out = append(out, c)
		return false
	})
	return out
}

type nHoist struct {
	impure bool
	pre    strings.Builder
	edits  []nEdit
}

// visit walks an expression (or simple statement) in evaluation order, hoisting
// helper calls where allowed and normalising the bodies of function literals.
func (n *normalizer) visit(x ast.Node, gc *nGen, hs *nHoist, allow, cond bool) {
	switch e := x.(type) {
	case nil:
		return
	case *ast.FuncLit:
		sub := &nGen{rc: nil, outer: gc.outer, top: gc.top}
		hs.edits = append(hs.edits, n.stmtList(e.Body.List, sub)...)
		return
	case *ast.BinaryExpr:
		if e.Op == token.LAND || e.Op == token.LOR {
			if allow && !cond && !hs.impure && n.depth <= 6 && n.hasHelperCall(e.Y) {
				// a helper called in the right operand: spell the short-circuit out as statements
				//   c := X; if c { c = Y }      (&&)        c := X; if !c { c = Y }      (||)
				subX := &nHoist{}
				n.visit(e.X, gc, subX, true, false)
				n.uid++
				cv := "__c" + strconv.Itoa(n.uid)
				hs.pre.WriteString(subX.pre.String())
				fmt.Fprintf(&hs.pre, "%s := %s; _ = %s\n", cv, n.splice(e.X.Pos(), e.X.End(), subX.edits), cv)
				subY := &nHoist{}
				n.visit(e.Y, gc, subY, true, false)
				guard := cv
				if e.Op == token.LOR {
					guard = "!" + cv
				}
				fmt.Fprintf(&hs.pre, "if %s {\n%s%s = %s\n}\n", guard, subY.pre.String(), cv, n.splice(e.Y.Pos(), e.Y.End(), subY.edits))
				hs.edits = append(hs.edits, nEdit{n.off(e.Pos()), n.off(e.End()), cv})
				hs.impure = hs.impure || subX.impure || subY.impure
				return
			}
			n.visit(e.X, gc, hs, allow, cond)
			n.visit(e.Y, gc, hs, allow, true)
			return
		}
	case *ast.UnaryExpr:
		if e.Op == token.ARROW {
			n.visit(e.X, gc, hs, allow, cond)
			hs.impure = true
			return
		}
	case *ast.CallExpr:
		h, id, recv := n.calleeOf(e)
		if h != nil {
			n.seen[id] = true
			why := ""
			switch {
			case !allow:
				why = "position is evaluated repeatedly or conditionally (loop header, else-if header, labelled statement)"
			case cond:
				why = "right operand of && / ||"
			case hs.impure:
				why = "an earlier side-effecting call in the same statement must run first"
			case n.depth > 6:
				why = "inlining depth bound (6) reached"
			}
			if why == "" {
				pre, repl, w2 := n.inlineCall(e, h, id, recv, gc, hs)
				if w2 == "" {
					hs.pre.WriteString(pre)
					hs.edits = append(hs.edits, nEdit{n.off(e.Pos()), n.off(e.End()), repl})
					n.inlined[fmt.Sprintf("%s: %s inlined into %s", n.rel(e.Pos()), h.obj.FullName(), gc.top.Name.Name)] = true
					return
				}
				why = w2
			}
			n.fail(id, gc, why, e.Pos())
		}
		// ordinary call: operands first, then the call itself
		n.visit(e.Fun, gc, hs, allow, cond)
		for _, a := range e.Args {
			n.visit(a, gc, hs, allow, cond)
		}
		if !n.pureCall(e) {
			hs.impure = true
		}
		return
	}
	for _, c := range directChildren(x) {
		n.visit(c, gc, hs, allow, cond)
	}
}

// hasHelperCall: x contains a call of an inlinable helper (function literals not entered).
func (n *normalizer) hasHelperCall(x ast.Node) bool {
	found := false
	ast.Inspect(x, func(c ast.Node) bool {
		if _, isLit := c.(*ast.FuncLit); isLit {
			return false
		}
		if ce, ok := c.(*ast.CallExpr); ok {
			if h, _, _ := n.calleeOf(ce); h != nil {
				found = true
			}
		}
		return !found
	})
	return found
}

// pureCall: conversions and the side-effect-free builtins.
func (n *normalizer) pureCall(c *ast.CallExpr) bool {
	if tv, ok := n.info().Types[c.Fun]; ok && tv.IsType() {
		return true
	}
	if id, ok := ast.Unparen(c.Fun).(*ast.Ident); ok {
		if b, ok := n.info().Uses[id].(*types.Builtin); ok {
			switch b.Name() {
			case "len", "cap", "new", "make", "min", "max", "complex", "real", "imag":
				return true
			}
		}
	}
	return false
}

func (n *normalizer) typeText(t ast.Expr) string {
	return string(n.src[n.file(t.Pos())][n.off(t.Pos()):n.off(t.End())])
}

// shadowOK checks that the callee's free names mean the same thing at the call site.
func (n *normalizer) shadowOK(h *nHelper, scopes []nScopeAt) string {
	for _, id := range h.free {
		obj := n.info().Uses[id]
		for i, sc := range scopes {
			_, o := sc.scope.LookupParent(id.Name, sc.pos)
			if o == obj {
				continue
			}
			pn, isPkg := obj.(*types.PkgName)
			if isPkg {
				if on, ok := o.(*types.PkgName); ok && on.Imported().Path() == pn.Imported().Path() {
					continue
				}
				if o == nil {
					if i == 0 {
						if n.needImp[sc.file] == nil {
							n.needImp[sc.file] = map[string]string{}
						}
						n.needImp[sc.file][id.Name] = pn.Imported().Path()
					}
					continue
				}
				if _, ok := o.(*types.PkgName); ok && i > 0 {
					// an intermediate helper's file binds the name to another import: only the outermost file counts
					continue
				}
			}
			return fmt.Sprintf("name %q means something else at the call site", id.Name)
		}
	}
	return ""
}

func (n *normalizer) inlineCall(c *ast.CallExpr, h *nHelper, id *ast.Ident, recv ast.Expr, gc *nGen, hs *nHoist) (string, string, string) {
	sig := h.obj.Type().(*types.Signature)
	fd := h.decl
	// receiver shape
	recvAdj := ""
	if sig.Recv() != nil {
		if recv == nil {
			return "", "", "method expression"
		}
		sel := n.info().Selections[ast.Unparen(c.Fun).(*ast.SelectorExpr)]
		if sel == nil || sel.Kind() != types.MethodVal || len(sel.Index()) != 1 {
			return "", "", "promoted or indirect method selection"
		}
		_, wantPtr := sig.Recv().Type().(*types.Pointer)
		_, havePtr := n.info().TypeOf(recv).Underlying().(*types.Pointer)
		if wantPtr && !havePtr {
			recvAdj = "&"
		} else if !wantPtr && havePtr {
			recvAdj = "*"
		}
	} else if recv != nil {
		return "", "", "qualified call"
	}
	// parameters
	type par struct {
		name, typ string
		variadic  bool
	}
	var pars []par
	for _, f := range fd.Type.Params.List {
		tt := ""
		variadic := false
		if el, ok := f.Type.(*ast.Ellipsis); ok {
			variadic = true
			tt = "[]" + n.typeText(el.Elt)
		} else {
			tt = n.typeText(f.Type)
		}
		if len(f.Names) == 0 {
			pars = append(pars, par{"_", tt, variadic})
		}
		for _, nm := range f.Names {
			pars = append(pars, par{nm.Name, tt, variadic})
		}
	}
	nfixed := len(pars)
	variadic := nfixed > 0 && pars[nfixed-1].variadic
	if variadic {
		nfixed--
	}
	if len(c.Args) == 1 && len(pars) > 1 {
		if tup, ok := n.info().TypeOf(c.Args[0]).(*types.Tuple); ok && tup.Len() > 1 {
			return "", "", "multi-value argument"
		}
	}
	if len(c.Args) < nfixed || (!variadic && len(c.Args) != nfixed) {
		return "", "", "argument count"
	}
	if c.Ellipsis.IsValid() && len(c.Args) != len(pars) {
		return "", "", "spread argument shape"
	}
	// name capture
	scopes := append([]nScopeAt{}, gc.outer...)
	scopes = append(scopes, nScopeAt{n.pkg.Types.Scope().Innermost(c.Pos()), c.Pos(), n.file(c.Pos())})
	if len(gc.outer) == 0 {
		// the text lands in this file
	}
	if why := n.shadowOK(h, scopes); why != "" {
		return "", "", why
	}
	n.uid++
	px := "__n" + strconv.Itoa(n.uid)
	var pre, blk strings.Builder
	argText := func(e ast.Expr) string {
		sub := &nHoist{impure: hs.impure}
		n.visit(e, gc, sub, true, false)
		pre.WriteString(sub.pre.String())
		hs.impure = sub.impure
		return n.splice(e.Pos(), e.End(), sub.edits)
	}
	bind := func(name, typ, tmp string) {
		if name == "_" {
			return
		}
		fmt.Fprintf(&blk, "var %s %s = %s; _ = %s\n", name, typ, tmp, name)
	}
	if sig.Recv() != nil {
		rt := n.typeText(fd.Recv.List[0].Type)
		txt := argText(recv)
		if recvAdj != "" {
			txt = recvAdj + "(" + txt + ")"
		}
		fmt.Fprintf(&pre, "var %s_v %s = %s; _ = %s_v\n", px, rt, txt, px)
		if len(fd.Recv.List[0].Names) == 1 {
			bind(fd.Recv.List[0].Names[0].Name, rt, px+"_v")
		}
	}
	for i := 0; i < nfixed; i++ {
		txt := argText(c.Args[i])
		fmt.Fprintf(&pre, "var %s_a%d %s = %s; _ = %s_a%d\n", px, i, pars[i].typ, txt, px, i)
		bind(pars[i].name, pars[i].typ, fmt.Sprintf("%s_a%d", px, i))
	}
	if variadic {
		p := pars[nfixed]
		val := "nil"
		if c.Ellipsis.IsValid() {
			val = argText(c.Args[nfixed])
		} else if len(c.Args) > nfixed {
			var parts []string
			for _, a := range c.Args[nfixed:] {
				parts = append(parts, argText(a))
			}
			val = p.typ + "{" + strings.Join(parts, ", ") + "}"
		}
		fmt.Fprintf(&pre, "var %s_a%d %s = %s; _ = %s_a%d\n", px, nfixed, p.typ, val, px, nfixed)
		bind(p.name, p.typ, fmt.Sprintf("%s_a%d", px, nfixed))
	}
	// results
	rc := &nRetCtx{}
	if fd.Type.Results != nil {
		k := 0
		for _, f := range fd.Type.Results.List {
			tt := n.typeText(f.Type)
			cnt := len(f.Names)
			if cnt == 0 {
				cnt = 1
			}
			for j := 0; j < cnt; j++ {
				tmp := fmt.Sprintf("%s_r%d", px, k)
				k++
				fmt.Fprintf(&pre, "var %s %s; _ = %s\n", tmp, tt, tmp)
				rc.temps = append(rc.temps, tmp)
				if len(f.Names) > 0 {
					nm := f.Names[j].Name
					if nm != "_" {
						fmt.Fprintf(&blk, "var %s %s; _ = %s\n", nm, tt, nm)
					} else {
						nm = "__z" + tmp
						fmt.Fprintf(&blk, "var %s %s; _ = %s\n", nm, tt, nm)
					}
					rc.named = append(rc.named, nm)
				}
			}
		}
	}
	labelled := h.nReturns > 0 && !h.tailOnly
	if labelled {
		rc.label = px + "_L"
	}
	n.depth++
	sub := &nGen{rc: rc, outer: scopes, top: gc.top}
	bodyEdits := n.stmtList(fd.Body.List, sub)
	n.depth--
	body := n.splice(fd.Body.Lbrace+1, fd.Body.Rbrace, bodyEdits)
	var out strings.Builder
	out.WriteString(pre.String())
	out.WriteString("{\n")
	out.WriteString(blk.String())
	if labelled {
		fmt.Fprintf(&out, "%s: for {", rc.label)
	}
	out.WriteString(n.lineDir(fd.Body.Lbrace))
	out.WriteString(body)
	if labelled {
		fmt.Fprintf(&out, "\nbreak %s }", rc.label)
	} else if len(rc.named) > 0 && h.nReturns == 0 {
		// cannot happen for a function with results (a return is required); kept for symmetry
	}
	if len(rc.named) > 0 && !labelled && h.nReturns == 0 {
		fmt.Fprintf(&out, "\n%s = %s", strings.Join(rc.temps, ", "), strings.Join(rc.named, ", "))
	}
	out.WriteString("\n}\n")
	return out.String(), strings.Join(rc.temps, ", "), ""
}

func (n *normalizer) stmtList(list []ast.Stmt, gc *nGen) []nEdit {
	var es []nEdit
	for _, s := range list {
		es = append(es, n.stmt(s, gc, true)...)
	}
	return es
}

// header visits a header expression/statement without hoisting (function literals are still normalised).
func (n *normalizer) header(x ast.Node, gc *nGen) []nEdit {
	if x == nil || isNilNode(x) {
		return nil
	}
	hs := &nHoist{}
	n.visit(x, gc, hs, false, false)
	return hs.edits
}

func isNilNode(x ast.Node) bool {
	switch v := x.(type) {
	case ast.Expr:
		return v == nil
	case ast.Stmt:
		return v == nil
	}
	return false
}

func (n *normalizer) stmt(s ast.Stmt, gc *nGen, allow bool) []nEdit {
	wrap := func(pre string, inner string, at ast.Node) []nEdit {
		txt := "{" + n.lineDir(at.Pos()) + pre + n.lineDir(at.Pos()) + inner + "\n}" + n.lineDir(at.End())
		return []nEdit{{n.off(at.Pos()), n.off(at.End()), txt}}
	}
	switch s := s.(type) {
	case nil:
		return nil
	case *ast.BlockStmt:
		return n.stmtList(s.List, gc)
	case *ast.LabeledStmt:
		return n.stmt(s.Stmt, gc, false)
	case *ast.IfStmt:
		var rest []nEdit
		rest = append(rest, n.stmtList(s.Body.List, gc)...)
		if s.Else != nil {
			_, elseIf := s.Else.(*ast.IfStmt)
			rest = append(rest, n.stmt(s.Else, gc, !elseIf)...)
		}
		if !allow {
			if s.Init != nil {
				rest = append(rest, n.header(s.Init, gc)...)
			}
			return append(rest, n.header(s.Cond, gc)...)
		}
		hi, hc := &nHoist{}, &nHoist{}
		if s.Init != nil {
			n.visit(s.Init, gc, hi, true, false)
		}
		n.visit(s.Cond, gc, hc, true, false)
		ipre, cpre := hi.pre.String(), hc.pre.String()
		if ipre == "" && cpre == "" {
			return append(append(rest, hi.edits...), hc.edits...)
		}
		if s.Init != nil && cpre != "" {
			txt := ipre + n.lineDir(s.Pos()) + n.splice(s.Init.Pos(), s.Init.End(), hi.edits) + "\n" + cpre + n.lineDir(s.Cond.Pos()) + "if " + n.splice(s.Cond.Pos(), s.End(), append(hc.edits, rest...))
			return []nEdit{{n.off(s.Pos()), n.off(s.End()), "{" + n.lineDir(s.Pos()) + txt + "\n}" + n.lineDir(s.End())}}
		}
		return wrap(ipre+cpre, n.splice(s.Pos(), s.End(), append(append(hi.edits, hc.edits...), rest...)), s)
	case *ast.SwitchStmt:
		var rest []nEdit
		for _, cc := range s.Body.List {
			c := cc.(*ast.CaseClause)
			for _, e := range c.List {
				rest = append(rest, n.header(e, gc)...)
			}
			rest = append(rest, n.stmtList(c.Body, gc)...)
		}
		if !allow {
			if s.Init != nil {
				rest = append(rest, n.header(s.Init, gc)...)
			}
			if s.Tag != nil {
				rest = append(rest, n.header(s.Tag, gc)...)
			}
			return rest
		}
		hi, ht := &nHoist{}, &nHoist{}
		if s.Init != nil {
			n.visit(s.Init, gc, hi, true, false)
		}
		if s.Tag != nil {
			n.visit(s.Tag, gc, ht, true, false)
		}
		ipre, tpre := hi.pre.String(), ht.pre.String()
		if ipre == "" && tpre == "" {
			return append(append(rest, hi.edits...), ht.edits...)
		}
		if s.Init != nil && tpre != "" {
			txt := ipre + n.lineDir(s.Pos()) + n.splice(s.Init.Pos(), s.Init.End(), hi.edits) + "\n" + tpre + n.lineDir(s.Tag.Pos()) + "switch " + n.splice(s.Tag.Pos(), s.End(), append(ht.edits, rest...))
			return []nEdit{{n.off(s.Pos()), n.off(s.End()), "{" + n.lineDir(s.Pos()) + txt + "\n}" + n.lineDir(s.End())}}
		}
		return wrap(ipre+tpre, n.splice(s.Pos(), s.End(), append(append(hi.edits, ht.edits...), rest...)), s)
	case *ast.TypeSwitchStmt:
		var rest []nEdit
		if s.Init != nil {
			rest = append(rest, n.header(s.Init, gc)...)
		}
		rest = append(rest, n.header(s.Assign, gc)...)
		for _, cc := range s.Body.List {
			rest = append(rest, n.stmtList(cc.(*ast.CaseClause).Body, gc)...)
		}
		return rest
	case *ast.SelectStmt:
		var rest []nEdit
		for _, cc := range s.Body.List {
			c := cc.(*ast.CommClause)
			if c.Comm != nil {
				rest = append(rest, n.header(c.Comm, gc)...)
			}
			rest = append(rest, n.stmtList(c.Body, gc)...)
		}
		return rest
	case *ast.ForStmt:
		var rest []nEdit
		if s.Init != nil {
			rest = append(rest, n.header(s.Init, gc)...)
		}
		if s.Cond != nil {
			rest = append(rest, n.header(s.Cond, gc)...)
		}
		if s.Post != nil {
			rest = append(rest, n.header(s.Post, gc)...)
		}
		return append(rest, n.stmtList(s.Body.List, gc)...)
	case *ast.RangeStmt:
		rest := n.stmtList(s.Body.List, gc)
		if !allow {
			return append(rest, n.header(s.X, gc)...)
		}
		hx := &nHoist{}
		n.visit(s.X, gc, hx, true, false)
		if hx.pre.Len() == 0 {
			return append(rest, hx.edits...)
		}
		return wrap(hx.pre.String(), n.splice(s.Pos(), s.End(), append(hx.edits, rest...)), s)
	case *ast.ReturnStmt:
		hs := &nHoist{}
		for _, e := range s.Results {
			n.visit(e, gc, hs, allow, false)
		}
		if gc.rc == nil {
			if hs.pre.Len() == 0 {
				return hs.edits
			}
			txt := n.lineDir(s.Pos()) + hs.pre.String() + n.lineDir(s.Pos()) + n.splice(s.Pos(), s.End(), hs.edits) + n.lineDir(s.End())
			return []nEdit{{n.off(s.Pos()), n.off(s.End()), txt}}
		}
		rc := gc.rc
		asg := ""
		if len(s.Results) > 0 {
			if len(rc.temps) > 0 {
				asg = strings.Join(rc.temps, ", ") + " = " + n.splice(s.Results[0].Pos(), s.Results[len(s.Results)-1].End(), hs.edits)
			}
		} else if len(rc.named) > 0 {
			asg = strings.Join(rc.temps, ", ") + " = " + strings.Join(rc.named, ", ")
		}
		txt := asg
		if rc.label != "" {
			if txt != "" {
				txt += "; "
			}
			txt += "break " + rc.label
		}
		if hs.pre.Len() > 0 {
			txt = n.lineDir(s.Pos()) + hs.pre.String() + n.lineDir(s.Pos()) + txt + n.lineDir(s.End())
		}
		return []nEdit{{n.off(s.Pos()), n.off(s.End()), txt}}
	case *ast.GoStmt, *ast.DeferStmt:
		// the operands are evaluated now, the call itself is not: never inline it
		var c *ast.CallExpr
		if g, ok := s.(*ast.GoStmt); ok {
			c = g.Call
		} else {
			c = s.(*ast.DeferStmt).Call
		}
		hs := &nHoist{}
		if h, id, _ := n.calleeOf(c); h != nil {
			n.seen[id] = true
			n.fail(id, gc, "go/defer statement", c.Pos())
		}
		n.visit(c.Fun, gc, hs, false, false)
		for _, a := range c.Args {
			n.visit(a, gc, hs, allow, false)
		}
		if hs.pre.Len() == 0 {
			return hs.edits
		}
		txt := n.lineDir(s.Pos()) + hs.pre.String() + n.lineDir(s.Pos()) + n.splice(s.Pos(), s.End(), hs.edits) + n.lineDir(s.End())
		return []nEdit{{n.off(s.Pos()), n.off(s.End()), txt}}
	case *ast.ExprStmt, *ast.AssignStmt, *ast.DeclStmt, *ast.SendStmt, *ast.IncDecStmt:
		hs := &nHoist{}
		// a statement that is only the inlined call keeps nothing but the inlined body
		n.visit(s, gc, hs, allow, false)
		if hs.pre.Len() == 0 {
			return hs.edits
		}
		inner := n.splice(s.Pos(), s.End(), hs.edits)
		if es, ok := s.(*ast.ExprStmt); ok {
			if c, ok := ast.Unparen(es.X).(*ast.CallExpr); ok {
				if h, _, _ := n.calleeOf(c); h != nil && len(hs.edits) > 0 && hs.edits[len(hs.edits)-1].start == n.off(c.Pos()) {
					inner = "" // results (if any) are discarded
				}
			}
		}
		txt := n.lineDir(s.Pos()) + hs.pre.String() + n.lineDir(s.Pos()) + inner + n.lineDir(s.End())
		return []nEdit{{n.off(s.Pos()), n.off(s.End()), txt}}
	}
	return nil
}

// Normalise computes the overlay (nil when nothing qualifies).
func Normalise(dir string, overlay map[string][]byte, extraEnv []string) (*normResult, error) {
	// first pass: loops over constant tables become straight-line code
	var unrollNotes []string
	var unrolled map[string][]byte
	if uo, notes := unrollTables(dir, overlay, extraEnv); len(uo) > 0 {
		merged := map[string][]byte{}
		for k, v := range overlay {
			merged[k] = v
		}
		for k, v := range uo {
			merged[k] = v
		}
		overlay, unrolled, unrollNotes = merged, uo, notes
	}
	res, err := normalise2(dir, overlay, extraEnv)
	if len(unrolled) > 0 {
		if res == nil {
			res = &normResult{Overlay: map[string][]byte{}}
		}
		for k, v := range unrolled {
			if _, has := res.Overlay[k]; !has {
				res.Overlay[k] = v
			}
		}
		res.Inlined = append(res.Inlined, unrollNotes...)
	}
	return res, err
}

func normalise2(dir string, overlay map[string][]byte, extraEnv []string) (*normResult, error) {
	fresh := false
	cur := listFuncs(dir, overlay)
	moved := map[string]bool{}
	for _, nk := range movedFuncs(cur) {
		moved[nk] = true
	}
	for k := range cur {
		if _, base := baselineFuncs[k]; !base && !moved[k] {
			fresh = true
			break
		}
	}
	if !fresh {
		return nil, nil
	}
	cfg := &packages.Config{Mode: packages.LoadSyntax, Dir: dir, Env: loadEnv(extraEnv...), Overlay: overlay}
	pkgs, err := packages.Load(cfg, "./...")
	if err != nil {
		return nil, err
	}
	res := &normResult{Overlay: map[string][]byte{}}
	for _, p := range pkgs {
		if len(p.Errors) > 0 || p.TypesInfo == nil {
			return nil, fmt.Errorf("package %s does not type-check", p.PkgPath)
		}
		if err := normalisePkg(dir, p, overlay, res, moved); err != nil {
			return nil, err
		}
	}
	sort.Strings(res.Inlined)
	sort.Strings(res.Removed)
	sort.Strings(res.Left)
	if len(res.Overlay) == 0 {
		return res, nil
	}
	return res, nil
}

func normalisePkg(dir string, p *packages.Package, overlay map[string][]byte, res *normResult, moved map[string]bool) error {
	n := &normalizer{dir: dir, fset: p.Fset, pkg: p, src: map[string][]byte{}, helpers: map[*types.Func]*nHelper{},
		seen: map[*ast.Ident]bool{}, fails: map[*ast.Ident]map[*ast.FuncDecl]bool{}, notes: map[string]bool{}, inlined: map[string]bool{}, needImp: map[string]map[string]string{}}
	universe := types.Universe
	for _, f := range p.Syntax {
		fn := p.Fset.PositionFor(f.Pos(), false).Filename
		if b, ok := overlay[fn]; ok {
			n.src[fn] = b
		} else {
			b, err := os.ReadFile(fn)
			if err != nil {
				return err
			}
			n.src[fn] = b
		}
		for _, d := range f.Decls {
			fd, ok := d.(*ast.FuncDecl)
			if !ok || fd.Body == nil || ast.IsExported(fd.Name.Name) || fd.Name.Name == "init" || fd.Name.Name == "main" || fd.Name.Name == "_" {
				continue
			}
			if _, base := baselineFuncs[funcKey(dir, fn, fd)]; base || moved[funcKey(dir, fn, fd)] || fd.Type.TypeParams != nil {
				continue
			}
			obj, _ := p.TypesInfo.Defs[fd.Name].(*types.Func)
			if obj == nil {
				continue
			}
			if r := obj.Type().(*types.Signature).Recv(); r != nil {
				t := r.Type()
				if pt, ok := t.(*types.Pointer); ok {
					t = pt.Elem()
				}
				if nt, ok := t.(*types.Named); !ok || nt.TypeParams().Len() > 0 || nt.TypeArgs().Len() > 0 {
					continue
				}
			}
			h := &nHelper{obj: obj, decl: fd, fname: fn}
			ok2 := true
			declared := map[string]bool{}
			if fd.Recv != nil {
				for _, fl := range fd.Recv.List {
					for _, nm := range fl.Names {
						declared[nm.Name] = true
					}
				}
			}
			for _, fl := range fd.Type.Params.List {
				for _, nm := range fl.Names {
					declared[nm.Name] = true
				}
			}
			if fd.Type.Results != nil {
				for _, fl := range fd.Type.Results.List {
					for _, nm := range fl.Names {
						declared[nm.Name] = true
					}
				}
			}
			var walk func(x ast.Node, inLit bool)
			walk = func(x ast.Node, inLit bool) {
				ast.Inspect(x, func(c ast.Node) bool {
					switch c := c.(type) {
					case *ast.DeferStmt, *ast.LabeledStmt:
						ok2 = false
					case *ast.BranchStmt:
						if c.Tok == token.GOTO || c.Label != nil {
							ok2 = false
						}
					case *ast.CallExpr:
						if id, ok := c.Fun.(*ast.Ident); ok && id.Name == "recover" {
							ok2 = false
						}
					case *ast.ReturnStmt:
						if !inLit {
							h.nReturns++
						}
					case *ast.FuncLit:
						if !inLit {
							walk(c.Body, true)
							return false
						}
					case *ast.Ident:
						if o := p.TypesInfo.Uses[c]; o != nil {
							if _, isPkg := o.(*types.PkgName); isPkg || o.Parent() == universe || o.Parent() == p.Types.Scope() {
								h.free = append(h.free, c)
							}
						}
					}
					return true
				})
			}
			walk(fd.Body, false)
			if fd.Recv != nil {
				walk(fd.Recv, true)
			}
			walk(fd.Type, true)
			// a top-level := that re-declares a parameter would change meaning inside the inlined block
			for _, st := range fd.Body.List {
				if as, ok := st.(*ast.AssignStmt); ok && as.Tok == token.DEFINE {
					for _, l := range as.Lhs {
						if id, ok := l.(*ast.Ident); ok && declared[id.Name] {
							ok2 = false
						}
					}
				}
			}
			if nl := len(fd.Body.List); h.nReturns == 1 && nl > 0 {
				if _, ok := fd.Body.List[nl-1].(*ast.ReturnStmt); ok {
					h.tailOnly = true
				}
			}
			if ok2 {
				n.helpers[obj] = h
			}
		}
	}
	if len(n.helpers) == 0 {
		return nil
	}
	// drop recursive helpers
	calls := map[*types.Func][]*types.Func{}
	for o, h := range n.helpers {
		ast.Inspect(h.decl.Body, func(c ast.Node) bool {
			if id, ok := c.(*ast.Ident); ok {
				if fn, ok := p.TypesInfo.Uses[id].(*types.Func); ok && n.helpers[fn] != nil {
					calls[o] = append(calls[o], fn)
				}
			}
			return true
		})
	}
	var reach func(from, to *types.Func, seen map[*types.Func]bool) bool
	reach = func(from, to *types.Func, seen map[*types.Func]bool) bool {
		for _, c := range calls[from] {
			if c == to {
				return true
			}
			if !seen[c] {
				seen[c] = true
				if reach(c, to, seen) {
					return true
				}
			}
		}
		return false
	}
	for o := range n.helpers {
		if reach(o, o, map[*types.Func]bool{}) {
			delete(n.helpers, o)
		}
	}
	if len(n.helpers) == 0 {
		return nil
	}
	// per-declaration edits
	type declEdits struct {
		fd    *ast.FuncDecl
		file  string
		edits []nEdit
	}
	var all []declEdits
	for _, f := range p.Syntax {
		fn := p.Fset.PositionFor(f.Pos(), false).Filename
		for _, d := range f.Decls {
			fd, ok := d.(*ast.FuncDecl)
			if !ok || fd.Body == nil {
				continue
			}
			gc := &nGen{top: fd}
			all = append(all, declEdits{fd, fn, n.stmtList(fd.Body.List, gc)})
		}
	}
	// which helpers disappear: every reference was an inlined call (greatest fixpoint)
	refs := map[*types.Func][]*ast.Ident{}
	for id, o := range p.TypesInfo.Uses {
		if fn, ok := o.(*types.Func); ok && n.helpers[fn] != nil {
			refs[fn] = append(refs[fn], id)
		}
	}
	removable := map[*ast.FuncDecl]bool{}
	for _, h := range n.helpers {
		removable[h.decl] = true
	}
	for changed := true; changed; {
		changed = false
		for o, h := range n.helpers {
			if !removable[h.decl] {
				continue
			}
			keep := len(refs[o]) == 0 // never called: leave it alone
			for _, id := range refs[o] {
				if !n.seen[id] {
					keep = true
				}
				for top := range n.fails[id] {
					if !removable[top] {
						keep = true
					}
				}
			}
			if keep {
				removable[h.decl] = false
				changed = true
			}
		}
	}
	byFile := map[string][]nEdit{}
	touched := map[string]bool{}
	for _, de := range all {
		if removable[de.fd] {
			start := de.fd.Pos()
			if de.fd.Doc != nil {
				start = de.fd.Doc.Pos()
			}
			s, e := n.off(start), n.off(de.fd.End())
			nl := bytes.Count(n.src[de.file][s:e], []byte("\n"))
			byFile[de.file] = append(byFile[de.file], nEdit{s, e, strings.Repeat("\n", nl)})
			touched[de.file] = true
			res.Removed = append(res.Removed, fmt.Sprintf("%s %s", n.rel(de.fd.Pos()), n.pkg.TypesInfo.Defs[de.fd.Name].(*types.Func).FullName()))
			continue
		}
		if len(de.edits) > 0 {
			byFile[de.file] = append(byFile[de.file], de.edits...)
			touched[de.file] = true
		}
	}
	for k := range n.inlined {
		res.Inlined = append(res.Inlined, k)
	}
	for k := range n.notes {
		res.Left = append(res.Left, k)
	}
	for _, f := range p.Syntax {
		fn := p.Fset.PositionFor(f.Pos(), false).Filename
		if !touched[fn] {
			continue
		}
		eds := byFile[fn]
		// imports the inlined bodies need
		var names []string
		for nm := range n.needImp[fn] {
			names = append(names, nm)
		}
		sort.Strings(names)
		if len(names) > 0 {
			var b strings.Builder
			for _, nm := range names {
				fmt.Fprintf(&b, "; import %s %q", nm, n.needImp[fn][nm])
			}
			at := n.off(f.Name.End())
			eds = append(eds, nEdit{at, at, b.String()})
		}
		sort.SliceStable(eds, func(i, j int) bool { return eds[i].start < eds[j].start })
		src := n.src[fn]
		var b bytes.Buffer
		cur := 0
		for _, ed := range eds {
			if ed.start < cur {
				return fmt.Errorf("overlapping edits in %s", fn)
			}
			b.Write(src[cur:ed.start])
			b.WriteString(ed.text)
			cur = ed.end
		}
		b.Write(src[cur:])
		out := blankUnusedImports(fn, b.Bytes())
		res.Overlay[fn] = out
	}
	return nil
}

// blankUnusedImports turns imports that lost their last use (their user was removed) into blank imports.
func blankUnusedImports(fn string, src []byte) []byte {
	fset := token.NewFileSet()
	f, err := parser.ParseFile(fset, fn, src, parser.ParseComments)
	if err != nil {
		return src
	}
	used := map[string]bool{}
	ast.Inspect(f, func(c ast.Node) bool {
		if se, ok := c.(*ast.SelectorExpr); ok {
			if id, ok := se.X.(*ast.Ident); ok && id.Obj == nil {
				used[id.Name] = true
			}
		}
		return true
	})
	var eds []nEdit
	for _, is := range f.Imports {
		name := ""
		if is.Name != nil {
			name = is.Name.Name
			if name == "_" || name == "." {
				continue
			}
		} else {
			pth, _ := strconv.Unquote(is.Path.Value)
			name = pth[strings.LastIndex(pth, "/")+1:]
			if used[name] {
				continue
			}
			// the package name may differ from the last path element: leave such imports alone
			// unless the conventional name is plainly unused and no selector could refer to it
			if strings.Contains(name, ".") || strings.Contains(name, "-") || strings.HasPrefix(name, "v") && len(name) <= 3 {
				continue
			}
		}
		if used[name] {
			continue
		}
		if is.Name != nil {
			eds = append(eds, nEdit{fset.PositionFor(is.Name.Pos(), false).Offset, fset.PositionFor(is.Name.End(), false).Offset, "_"})
		} else {
			o := fset.PositionFor(is.Path.Pos(), false).Offset
			eds = append(eds, nEdit{o, o, "_ "})
		}
	}
	if len(eds) == 0 {
		return src
	}
	sort.Slice(eds, func(i, j int) bool { return eds[i].start < eds[j].start })
	var b bytes.Buffer
	cur := 0
	for _, ed := range eds {
		b.Write(src[cur:ed.start])
		b.WriteString(ed.text)
		cur = ed.end
	}
	b.Write(src[cur:])
	return b.Bytes()
}

// ---- table unrolling --------------------------------------------------------
//
// A refactoring that replaces an if-chain by a loop over a package-level table of
// struct literals (`for _, e := range table { if test(e.key) { return e.fn(...) } }`)
// keeps the behaviour but hides the chain from rules that read decision tables out
// of branch conditions. When the table is provably constant — a package-level
// slice/array variable initialised by a composite literal of struct literals whose
// fields are literals, constants or functions, and whose only uses are `range`
// operands — and the loop variable is used only through field selectors, and the
// body neither breaks nor continues the loop, the loop is replaced (in the overlay)
// by one copy of its body per element with `e.field` replaced by the element's
// field expression. No such loop exists in the pinned tree.

func unrollTables(dir string, overlay map[string][]byte, extraEnv []string) (map[string][]byte, []string) {
	// cheap syntactic trigger
	fset0 := token.NewFileSet()
	trigger := false
	for _, p := range moduleGoFiles(dir, overlay) {
		var src any
		if b, ok := overlay[p]; ok {
			src = b
		}
		f, err := parser.ParseFile(fset0, p, src, parser.SkipObjectResolution)
		if err != nil {
			continue
		}
		tables := map[string]bool{}
		for _, d := range f.Decls {
			gd, ok := d.(*ast.GenDecl)
			if !ok || gd.Tok != token.VAR {
				continue
			}
			for _, sp := range gd.Specs {
				vs := sp.(*ast.ValueSpec)
				for i, nm := range vs.Names {
					if i < len(vs.Values) {
						if cl, ok := vs.Values[i].(*ast.CompositeLit); ok {
							if at, ok := cl.Type.(*ast.ArrayType); ok {
								switch at.Elt.(type) {
								case *ast.StructType, *ast.Ident:
									if len(cl.Elts) > 0 {
										if _, isLit := cl.Elts[0].(*ast.CompositeLit); isLit {
											tables[nm.Name] = true
										}
									}
								}
							}
						}
					}
				}
			}
		}
		_ = tables
		ast.Inspect(f, func(c ast.Node) bool {
			if rs, ok := c.(*ast.RangeStmt); ok {
				if id, ok := rs.X.(*ast.Ident); ok && id.Obj == nil {
					trigger = true
				}
			}
			return true
		})
	}
	if !trigger {
		return nil, nil
	}
	cfg := &packages.Config{Mode: packages.LoadSyntax, Dir: dir, Env: loadEnv(extraEnv...), Overlay: overlay}
	pkgs, err := packages.Load(cfg, "./...")
	if err != nil {
		return nil, nil
	}
	out := map[string][]byte{}
	var notes []string
	for _, p := range pkgs {
		if len(p.Errors) > 0 || p.TypesInfo == nil {
			return nil, nil
		}
		info := p.TypesInfo
		// candidate tables: package-level var -> element literals
		type table struct {
			obj   *types.Var
			elems []*ast.CompositeLit
			st    *types.Struct
		}
		tables := map[*types.Var]*table{}
		for _, f := range p.Syntax {
			for _, d := range f.Decls {
				gd, ok := d.(*ast.GenDecl)
				if !ok || gd.Tok != token.VAR {
					continue
				}
				for _, sp := range gd.Specs {
					vs := sp.(*ast.ValueSpec)
					if len(vs.Names) != len(vs.Values) {
						continue
					}
					for i, nm := range vs.Names {
						cl, ok := vs.Values[i].(*ast.CompositeLit)
						if !ok {
							continue
						}
						obj, _ := info.Defs[nm].(*types.Var)
						if obj == nil {
							continue
						}
						var elt types.Type
						switch t := obj.Type().Underlying().(type) {
						case *types.Slice:
							elt = t.Elem()
						case *types.Array:
							elt = t.Elem()
						default:
							continue
						}
						st, ok := elt.Underlying().(*types.Struct)
						if !ok {
							continue
						}
						tb := &table{obj: obj, st: st}
						good := len(cl.Elts) > 0 && len(cl.Elts) <= 32
						for _, e := range cl.Elts {
							ecl, ok := e.(*ast.CompositeLit)
							if !ok {
								good = false
								break
							}
							for _, fe := range ecl.Elts {
								v := fe
								if kv, ok := fe.(*ast.KeyValueExpr); ok {
									v = kv.Value
								}
								if !constantLike(info, v) {
									good = false
								}
							}
							tb.elems = append(tb.elems, ecl)
						}
						if good {
							tables[obj] = tb
						}
					}
				}
			}
		}
		if len(tables) == 0 {
			continue
		}
		// every use of the table is a range operand
		rangeOf := map[*ast.Ident]*ast.RangeStmt{}
		for _, f := range p.Syntax {
			ast.Inspect(f, func(c ast.Node) bool {
				if rs, ok := c.(*ast.RangeStmt); ok {
					if id, ok := ast.Unparen(rs.X).(*ast.Ident); ok {
						rangeOf[id] = rs
					}
				}
				return true
			})
		}
		for id, o := range info.Uses {
			if v, ok := o.(*types.Var); ok && tables[v] != nil && rangeOf[id] == nil {
				delete(tables, v)
			}
		}
		for _, f := range p.Syntax {
			fn := p.Fset.PositionFor(f.Pos(), false).Filename
			src, ok := overlay[fn]
			if !ok {
				b, err := os.ReadFile(fn)
				if err != nil {
					continue
				}
				src = b
			}
			off := func(pos token.Pos) int { return p.Fset.PositionFor(pos, false).Offset }
			line := func(pos token.Pos) int { return p.Fset.PositionFor(pos, false).Line }
			var edits []nEdit
			ast.Inspect(f, func(c ast.Node) bool {
				rs, ok := c.(*ast.RangeStmt)
				if !ok {
					return true
				}
				id, ok := ast.Unparen(rs.X).(*ast.Ident)
				if !ok {
					return true
				}
				tv, _ := info.Uses[id].(*types.Var)
				tb := tables[tv]
				if tb == nil || rs.Tok != token.DEFINE {
					return true
				}
				var keyObj, valObj types.Object
				if k, ok := rs.Key.(*ast.Ident); ok && k.Name != "_" {
					keyObj = info.Defs[k]
				}
				if v, ok := rs.Value.(*ast.Ident); ok && v.Name != "_" {
					valObj = info.Defs[v]
				}
				// the loop variable is only read through field selectors; no break/continue of this loop
				okBody := true
				type sub struct {
					start, end int
					field      string
					isKey      bool
				}
				var subs []sub
				selOf := map[*ast.Ident]*ast.SelectorExpr{}
				ast.Inspect(rs.Body, func(x ast.Node) bool {
					if se, ok := x.(*ast.SelectorExpr); ok {
						if xi, ok := se.X.(*ast.Ident); ok {
							selOf[xi] = se
						}
					}
					return true
				})
				depth := 0
				var walk func(x ast.Node)
				walk = func(x ast.Node) {
					ast.Inspect(x, func(y ast.Node) bool {
						switch z := y.(type) {
						case *ast.ForStmt, *ast.RangeStmt, *ast.SwitchStmt, *ast.TypeSwitchStmt, *ast.SelectStmt:
							if y != ast.Node(rs.Body) {
								depth++
								for _, ch := range directChildren(y) {
									walk(ch)
								}
								depth--
								return false
							}
						case *ast.BranchStmt:
							if z.Label != nil || z.Tok == token.GOTO || (depth == 0 && (z.Tok == token.BREAK || z.Tok == token.CONTINUE)) {
								okBody = false
							}
							if depth > 0 && z.Tok == token.CONTINUE {
								// continue inside a switch/select of the body still targets this loop
								okBody = false
							}
						case *ast.LabeledStmt:
							okBody = false
						case *ast.Ident:
							o := info.Uses[z]
							if o != nil && o == valObj {
								se := selOf[z]
								if se == nil {
									okBody = false
								} else {
									subs = append(subs, sub{off(se.Pos()), off(se.End()), se.Sel.Name, false})
								}
							}
							if o != nil && o == keyObj {
								subs = append(subs, sub{off(z.Pos()), off(z.End()), "", true})
							}
						case *ast.AssignStmt:
							for _, l := range z.Lhs {
								if li, ok := l.(*ast.Ident); ok && (info.Uses[li] == valObj || info.Uses[li] == keyObj) && info.Uses[li] != nil {
									okBody = false
								}
							}
						case *ast.UnaryExpr:
							if z.Op == token.AND {
								if xi, ok := z.X.(*ast.Ident); ok && info.Uses[xi] != nil && info.Uses[xi] == valObj {
									okBody = false
								}
							}
						}
						return true
					})
				}
				walk(rs.Body)
				if !okBody {
					return true
				}
				// field expression text per element
				fieldText := func(ecl *ast.CompositeLit, name string) (string, bool) {
					idx := -1
					for i := 0; i < tb.st.NumFields(); i++ {
						if tb.st.Field(i).Name() == name {
							idx = i
						}
					}
					if idx < 0 {
						return "", false
					}
					for i, fe := range ecl.Elts {
						if kv, ok := fe.(*ast.KeyValueExpr); ok {
							if k, ok := kv.Key.(*ast.Ident); ok && k.Name == name {
								return "(" + string(src[off(kv.Value.Pos()):off(kv.Value.End())]) + ")", true
							}
							continue
						}
						if i == idx {
							return "(" + string(src[off(fe.Pos()):off(fe.End())]) + ")", true
						}
					}
					// not given: zero value
					switch t := tb.st.Field(idx).Type().Underlying().(type) {
					case *types.Basic:
						switch {
						case t.Info()&types.IsString != 0:
							return `""`, true
						case t.Info()&types.IsBoolean != 0:
							return "false", true
						case t.Info()&types.IsNumeric != 0:
							return "0", true
						}
					case *types.Signature, *types.Pointer, *types.Slice, *types.Map, *types.Interface, *types.Chan:
						return "nil", true
					}
					return "", false
				}
				var b strings.Builder
				b.WriteString("{")
				for k, ecl := range tb.elems {
					var es []nEdit
					good := true
					for _, s := range subs {
						if s.isKey {
							es = append(es, nEdit{s.start, s.end, strconv.Itoa(k)})
							continue
						}
						txt, ok := fieldText(ecl, s.field)
						if !ok {
							good = false
						}
						es = append(es, nEdit{s.start, s.end, txt})
					}
					if !good {
						return true
					}
					sort.Slice(es, func(i, j int) bool { return es[i].start < es[j].start })
					fmt.Fprintf(&b, "\n//line %s:%d\n", fn, line(rs.Body.Lbrace))
					cur := off(rs.Body.Lbrace)
					for _, e := range es {
						b.Write(src[cur:e.start])
						b.WriteString(e.text)
						cur = e.end
					}
					b.Write(src[cur : off(rs.Body.Rbrace)+1])
				}
				fmt.Fprintf(&b, "\n}\n//line %s:%d\n", fn, line(rs.End()))
				edits = append(edits, nEdit{off(rs.Pos()), off(rs.End()), b.String()})
				notes = append(notes, fmt.Sprintf("%s:%d: loop over the constant table %s unrolled (%d elements)", strings.TrimPrefix(fn, dir+"/"), line(rs.Pos()), tv.Name(), len(tb.elems)))
				return false
			})
			if len(edits) == 0 {
				continue
			}
			sort.Slice(edits, func(i, j int) bool { return edits[i].start < edits[j].start })
			var nb bytes.Buffer
			cur := 0
			for _, e := range edits {
				if e.start < cur {
					continue
				}
				nb.Write(src[cur:e.start])
				nb.WriteString(e.text)
				cur = e.end
			}
			nb.Write(src[cur:])
			out[fn] = nb.Bytes()
		}
	}
	if len(out) == 0 {
		return nil, nil
	}
	return out, notes
}

// constantLike: literals, constants, nil/true/false, package-level functions, and operators over them.
func constantLike(info *types.Info, e ast.Expr) bool {
	switch x := e.(type) {
	case *ast.BasicLit:
		return true
	case *ast.ParenExpr:
		return constantLike(info, x.X)
	case *ast.UnaryExpr:
		return x.Op != token.AND && x.Op != token.ARROW && constantLike(info, x.X)
	case *ast.BinaryExpr:
		return constantLike(info, x.X) && constantLike(info, x.Y)
	case *ast.Ident:
		switch o := info.Uses[x].(type) {
		case *types.Const, *types.Nil:
			return true
		case *types.Func:
			return o.Type().(*types.Signature).Recv() == nil
		}
		return false
	case *ast.SelectorExpr:
		switch info.Uses[x.Sel].(type) {
		case *types.Const:
			return true
		case *types.Func:
			_, isPkg := info.Uses[identOf(x.X)].(*types.PkgName)
			return isPkg
		}
		return false
	}
	return false
}

func identOf(e ast.Expr) *ast.Ident {
	id, _ := e.(*ast.Ident)
	return id
}
