package main

// selftest.go — "test the checker both ways": construct-anchored mutants of
// the *current* /repo are analysed through a packages overlay (the mutated
// file lives in a fresh temp dir outside /repo and /verif and is removed at
// once; /repo itself is never touched) and the rule expected to fire must
// fire. The kill matrix goes into the evidence; it never changes the exit
// status of a property check — a surviving mutant is a defect of the
// checker, not a statement about /repo.

import (
	"bytes"
	"encoding/json"
	"fmt"
	"os"
	"os/exec"
	"path/filepath"
	"sort"
	"strings"
	"sync"
)

type edit struct {
	File string // path relative to the repository root
	Old  string // must occur exactly once in File
	New  string
}

type mutant struct {
	ID     string
	Props  []string // properties whose check must report it (benign: must stay silent)
	Rules  []string // any of these rules must be among the reports
	Edits  []edit
	Desc   string
	Benign bool // behaviour-preserving rewrite: no check may report anything
}

// b1 builds a single-edit behaviour-preserving variant.
func b1(id string, props []string, file, old, new, desc string) mutant {
	return mutant{ID: id, Props: props, Edits: []edit{{file, old, new}}, Desc: desc, Benign: true}
}

// m1 builds a single-edit mutant.
func m1(id string, props, rules []string, file, old, new, desc string) mutant {
	return mutant{ID: id, Props: props, Rules: rules, Edits: []edit{{file, old, new}}, Desc: desc}
}

type mutantResult struct {
	ID       string   `json:"id"`
	Property string   `json:"property"`
	Desc     string   `json:"desc"`
	Outcome  string   `json:"outcome"` // killed | survived | skipped(anchor) | invalid(does not type-check)
	Fired    []string `json:"fired,omitempty"`
	Expected []string `json:"expected"`
}

func selfExe() string {
	exe, err := os.Executable()
	if err != nil {
		return os.Args[0]
	}
	return exe
}

type subReport struct{ Rule, Construct, Verdict, Site, Detail string }

// subRun analyses repo (optionally with one file overlaid) in a child process.
func subRun(prop, repo string, overlay [][2]string, extra ...string) (reports []subReport, loadFail bool, out string) {
	args := []string{"-property", prop, "-tier", "quick", "-repo", repo, "-quiet-evidence"}
	if exe, err := os.Executable(); err == nil {
		args = append(args, "-verif", filepath.Dir(filepath.Dir(exe)))
	}
	for _, ov := range overlay {
		args = append(args, "-overlay", ov[0]+"="+ov[1])
	}
	args = append(args, extra...)
	cmd := exec.Command(selfExe(), args...)
	var buf bytes.Buffer
	cmd.Stdout = &buf
	cmd.Stderr = &buf
	_ = cmd.Run()
	out = buf.String()
	for _, line := range strings.Split(out, "\n") {
		if strings.HasPrefix(line, "REPORT\t") {
			p := strings.SplitN(line, "\t", 6)
			for len(p) < 6 {
				p = append(p, "")
			}
			reports = append(reports, subReport{p[1], p[2], p[3], p[4], p[5]})
		}
		if strings.HasPrefix(line, "cannot analyse") {
			loadFail = true
		}
	}
	return
}

func runMutants(ms []mutant, onlyProp, repo string) []mutantResult {
	type job struct {
		m    mutant
		prop string
	}
	var jobs []job
	for _, m := range ms {
		for _, p := range m.Props {
			if onlyProp == "" || onlyProp == p {
				jobs = append(jobs, job{m, p})
			}
		}
	}
	results := make([]mutantResult, len(jobs))
	sem := make(chan struct{}, 6)
	var wg sync.WaitGroup
	for i, j := range jobs {
		wg.Add(1)
		go func(i int, j job) {
			defer wg.Done()
			sem <- struct{}{}
			defer func() { <-sem }()
			res := mutantResult{ID: j.m.ID, Property: j.prop, Desc: j.m.Desc, Expected: j.m.Rules}
			tmp, err := os.MkdirTemp("", "ruxmut")
			if err != nil {
				res.Outcome = "skipped(tmp)"
				results[i] = res
				return
			}
			defer os.RemoveAll(tmp)
			var ovs [][2]string
			contents := map[string]string{}
			for k, ed := range j.m.Edits {
				orig := filepath.Join(repo, ed.File)
				cur, have := contents[orig]
				if !have {
					data, err := os.ReadFile(orig)
					if err != nil {
						res.Outcome = "skipped(anchor)"
						results[i] = res
						return
					}
					cur = string(data)
				}
				if strings.Count(cur, ed.Old) != 1 {
					res.Outcome = "skipped(anchor)"
					results[i] = res
					return
				}
				contents[orig] = strings.Replace(cur, ed.Old, ed.New, 1)
				_ = k
			}
			n := 0
			for orig, c := range contents {
				n++
				mf := filepath.Join(tmp, fmt.Sprintf("%d_%s", n, filepath.Base(orig)))
				_ = os.WriteFile(mf, []byte(c), 0o644)
				ovs = append(ovs, [2]string{orig, mf})
			}
			reps, loadFail, _ := subRun(j.prop, repo, ovs)
			if loadFail {
				res.Outcome = "invalid(does not type-check)"
				results[i] = res
				return
			}
			fired := map[string]bool{}
			for _, r := range reps {
				fired[r.Rule] = true
			}
			for r := range fired {
				res.Fired = append(res.Fired, r)
			}
			sort.Strings(res.Fired)
			if j.m.Benign {
				res.Outcome = "quiet"
				if len(reps) > 0 {
					res.Outcome = "false-alarm"
					for _, r := range reps {
						res.Fired = append(res.Fired, r.Construct)
					}
				}
				results[i] = res
				return
			}
			res.Outcome = "survived"
			for _, want := range j.m.Rules {
				if fired[want] {
					res.Outcome = "killed"
				}
			}
			if len(j.m.Rules) == 0 && len(fired) > 0 {
				res.Outcome = "killed"
			}
			results[i] = res
		}(i, j)
	}
	wg.Wait()
	return results
}

func selftestFor(prop, repo, vdir string) any {
	res := runMutants(allMutants(), prop, repo)
	res = append(res, runPatchFixtures(prop, repo, vdir)...)
	killed, survived, skipped := 0, 0, 0
	for _, r := range res {
		switch {
		case r.Outcome == "killed" || r.Outcome == "quiet" || r.Outcome == "declined":
			killed++
		case r.Outcome == "survived":
			survived++
		default:
			skipped++
		}
	}
	return map[string]any{"total": len(res), "killed_or_quiet": killed, "killed": killed, "survived": survived, "skipped_or_invalid": skipped, "results": res,
		"note": "mutants must be reported (killed); behaviour-preserving variants must stay silent (quiet)"}
}

func runSelftestCLI(prop, repo, vdir string) int {
	res := runMutants(allMutants(), prop, repo)
	res = append(res, runPatchFixtures(prop, repo, vdir)...)
	bad := 0
	for _, r := range res {
		fmt.Printf("%-10s %-4s %-34s fired=%v expected=%v  %s\n", r.Outcome, r.Property, r.ID, r.Fired, r.Expected, r.Desc)
		if r.Outcome != "killed" && r.Outcome != "quiet" && r.Outcome != "declined" && !strings.HasPrefix(r.Outcome, "skipped(diff") {
			bad++
		}
	}
	fmt.Printf("mutants: %d, not killed: %d\n", len(res), bad)
	if bad > 0 {
		return 1
	}
	return 0
}

// configMatrix re-runs the property's rules under other build
// configurations and in NaiveForm; the verdicts must agree.
func configMatrix(run *Run, p *property, repo, vdir string) any {
	type cfg struct {
		goos, goarch string
		naive        bool
	}
	// NaiveForm is deliberately not part of the matrix: the rules are written against go/ssa's
	// lifted (register) form; the naive form is another normal form of the same program, so a
	// disagreement there would say nothing about /repo (DESIGN 6.4).
	cfgs := []cfg{{"linux", "386", false}, {"windows", "amd64", false}, {"darwin", "arm64", false}, {"freebsd", "amd64", false}}
	mine := map[string]bool{}
	for _, o := range run.Obs {
		if o.Verdict != Holds {
			mine[o.Rule+"|"+o.Construct] = true
		}
	}
	out := make([]map[string]any, len(cfgs))
	var wg sync.WaitGroup
	for i, c := range cfgs {
		wg.Add(1)
		go func(i int, c cfg) {
			defer wg.Done()
			extra := []string{"-goos", c.goos, "-goarch", c.goarch}
			if c.naive {
				extra = append(extra, "-naive")
			}
			reps, loadFail, _ := subRun(run.Property, repo, nil, extra...)
			theirs := map[string]bool{}
			for _, r := range reps {
				theirs[r.Rule+"|"+r.Construct] = true
			}
			agree := !loadFail && len(theirs) == len(mine)
			for k := range theirs {
				if !mine[k] {
					agree = false
				}
			}
			out[i] = map[string]any{"goos": c.goos, "goarch": c.goarch, "naive_ssa": c.naive, "reports": len(reps), "load_failed": loadFail, "agrees_with_default": agree}
		}(i, c)
	}
	wg.Wait()
	for i, c := range cfgs {
		if out[i]["agrees_with_default"] != true {
			run.Undecided("CONFIG-MATRIX", fmt.Sprintf("%s/%s naive=%v", c.goos, c.goarch, c.naive), 0,
				"verdicts under this build configuration differ from the default configuration")
		} else {
			run.Exists("CONFIG-MATRIX", fmt.Sprintf("%s/%s naive=%v", c.goos, c.goarch, c.naive), 0, true, "same verdicts as default configuration")
		}
	}
	return out
}

// ---- patch fixtures: behaviour-preserving refactorings kept as unified diffs ----
//
// /verif/refactors/*.diff are multi-file refactorings of the pinned tree written by
// independent sub-agents (extract/inline helper, control-flow rewrites, signature
// changes ...). Each is applied to a scratch copy of the touched files (never to
// /repo), analysed through an overlay, and must stay quiet. A diff that no longer
// applies to the tree under analysis is skipped.

type patchFixture struct {
	ID       string   `json:"id"`
	Diff     string   `json:"diff"`
	Files    []string `json:"files"`
	Props    []string `json:"props"`
	Declined string   `json:"declined,omitempty"`
}

func loadPatchFixtures(vdir string) []patchFixture {
	data, err := os.ReadFile(filepath.Join(vdir, "refactors", "index.json"))
	if err != nil {
		return nil
	}
	var out []patchFixture
	if json.Unmarshal(data, &out) != nil {
		return nil
	}
	return out
}

func runPatchFixtures(onlyProp, repo, vdir string) []mutantResult {
	type job struct {
		f    patchFixture
		prop string
	}
	var jobs []job
	for _, f := range loadPatchFixtures(vdir) {
		for _, p := range f.Props {
			if onlyProp == "" || onlyProp == p {
				jobs = append(jobs, job{f, p})
			}
		}
	}
	results := make([]mutantResult, len(jobs))
	sem := make(chan struct{}, 6)
	var wg sync.WaitGroup
	for i, j := range jobs {
		wg.Add(1)
		go func(i int, j job) {
			defer wg.Done()
			sem <- struct{}{}
			defer func() { <-sem }()
			res := mutantResult{ID: "refactor-" + j.f.ID, Property: j.prop, Desc: "behaviour-preserving refactoring (patch fixture " + j.f.Diff + ")"}
			defer func() { results[i] = res }()
			tmp, err := os.MkdirTemp("", "ruxref")
			if err != nil {
				res.Outcome = "skipped(tmp)"
				return
			}
			defer os.RemoveAll(tmp)
			for _, rel := range j.f.Files {
				data, err := os.ReadFile(filepath.Join(repo, rel))
				if err != nil {
					continue // a file the diff creates
				}
				_ = os.MkdirAll(filepath.Dir(filepath.Join(tmp, rel)), 0o755)
				_ = os.WriteFile(filepath.Join(tmp, rel), data, 0o644)
			}
			cmd := exec.Command("patch", "-p1", "-s", "-f", "--no-backup-if-mismatch", "-i", filepath.Join(vdir, "refactors", j.f.Diff))
			cmd.Dir = tmp
			if outb, err := cmd.CombinedOutput(); err != nil {
				res.Outcome = "skipped(diff does not apply to this tree)"
				_ = outb
				return
			}
			var ovs [][2]string
			for _, rel := range j.f.Files {
				if _, err := os.Stat(filepath.Join(tmp, rel)); err == nil {
					ovs = append(ovs, [2]string{filepath.Join(repo, rel), filepath.Join(tmp, rel)})
				}
			}
			reps, loadFail, _ := subRun(j.prop, repo, ovs)
			if loadFail {
				res.Outcome = "invalid(does not type-check)"
				return
			}
			res.Outcome = "quiet"
			if len(reps) > 0 {
				res.Outcome = "false-alarm"
				if j.f.Declined != "" {
					res.Outcome = "declined"
					res.Desc += " — " + j.f.Declined
				}
				for _, r := range reps {
					res.Fired = append(res.Fired, r.Rule+" "+r.Construct)
				}
			}
		}(i, j)
	}
	wg.Wait()
	return results
}
