package main

// idx.go — E-IDX: guarded-index prover. Obligations are every index / slice
// expression with a non-constant or non-trivially-safe bound, every type
// assertion without comma-ok, every explicit panic and every call through a
// nil-able function field in a given set of functions. Each is discharged by
// facts from dominating branches, by proved post-conditions of module
// functions, by pre-conditions that are then checked at every call site, or
// by a named entry of the frozen trusted table.

import (
	"fmt"
	"go/token"
	"go/types"
	"strings"

	"golang.org/x/tools/go/ssa"
)

type strPost struct {
	minLen int
	first  int // first byte, -1 unknown
	proved bool
}

type idxProver struct {
	edgeFacts map[ssa.Instruction][]Fact
	w         *World
	post      map[*ssa.Function]strPost
	pre       map[*ssa.Parameter]int // required minLen of string/slice parameters
	depth     int
	work      int // upperRel calls made for the current top-level query (budget: the recursion through facts and phis is exponential)
}

func newIdxProver(w *World) *idxProver {
	return &idxProver{w: w, post: map[*ssa.Function]strPost{}, pre: map[*ssa.Parameter]int{}}
}

func sameVal(a, b ssa.Value) bool {
	if a == b {
		return true
	}
	return a != nil && b != nil && canon(a) == canon(b) && !strings.Contains(canon(a), "opaque") && !strings.Contains(canon(a), "call<") && !strings.Contains(canon(a), "phi(")
}

// condFacts yields (cond, truth) pairs known at instruction `at`.
func condFacts(at ssa.Instruction) []Fact {
	fs := factsAt(at)
	out := make([]Fact, 0, len(fs))
	for _, f := range fs {
		c, pos := stripNot(f.Cond)
		t := f.True
		if !pos {
			t = !t
		}
		out = append(out, Fact{f.If, c, t})
	}
	return out
}

// strIndex0: v is s[0] of string s (ssa.Lookup on a string with const index 0).
func strIndexOf(v ssa.Value) (ssa.Value, int64, bool) {
	if ix, ok := v.(*ssa.Index); ok {
		if _, isStr := ix.X.Type().Underlying().(*types.Basic); isStr {
			if i, okc := constInt(ix.Index); okc {
				return ix.X, i, true
			}
		}
	}
	if lk, ok := v.(*ssa.Lookup); ok {
		if _, isStr := lk.X.Type().Underlying().(*types.Basic); isStr {
			if i, okc := constInt(lk.Index); okc {
				return lk.X, i, true
			}
		}
	}
	return nil, 0, false
}

// minLen: a lower bound of len(v) valid at `at`.
func (p *idxProver) minLen(v ssa.Value, at ssa.Instruction) int {
	if p.depth > 12 {
		return 0
	}
	p.depth++
	defer func() { p.depth-- }()
	best := 0
	up := func(n int) {
		if n > best {
			best = n
		}
	}
	switch x := v.(type) {
	case *ssa.Const:
		if s, ok := constString(x); ok {
			return len(s)
		}
		return 0
	case *ssa.BinOp:
		if x.Op == token.ADD {
			if _, isStr := x.Type().Underlying().(*types.Basic); isStr {
				up(p.minLen(x.X, at) + p.minLen(x.Y, at))
			}
		}
	case *ssa.Phi:
		m := -1
		for i, e := range x.Edges {
			if e == v {
				continue
			}
			// the facts valid on the incoming edge: those at the end of the predecessor plus its branch decision
			n := 0
			p.onEdge(x, i, func(term ssa.Instruction) { n = p.minLen(e, term) })
			if m < 0 || n < m {
				m = n
			}
		}
		if m > 0 {
			up(m)
		}
	case *ssa.Slice:
		if x.High != nil && x.Max == nil {
			// s[lo:hi] has hi-lo bytes: a proved lower bound of hi with a constant (or absent) lo
			lo := int64(0)
			okc := true
			if x.Low != nil {
				lo, okc = constInt(x.Low)
			}
			if hb, okh := p.lowerBound(x.High, at); okc && okh && hb-lo > 0 {
				up(int(hb - lo))
			}
		}
		if x.High == nil {
			lo := int64(0)
			okc := true
			if x.Low != nil {
				lo, okc = constInt(x.Low)
			}
			if okc {
				up(p.minLen(x.X, at) - int(lo))
			} else if x.Low != nil {
				// s[low:] with low <= len(s) + k (k < 0): at least -k bytes remain
				if sb, k, okr := p.upperRel(x.Low, at); okr {
					xb, kb := p.lenBase(x.X)
					if sameVal(sb, xb) && kb-k > 0 {
						up(int(kb - k))
					}
				}
			}
		}
	case *ssa.Call:
		if sc := staticCallee(x); sc != nil && p.w.InModule(sc) {
			if po := p.postOf(sc); po.proved {
				up(po.minLen)
			}
		}
	case *ssa.Extract:
	case *ssa.ChangeType:
		up(p.minLen(x.X, at))
	case *ssa.Convert:
		// string <-> []byte keeps the length
		up(p.minLen(x.X, at))
	case *ssa.MakeSlice:
		if n, ok := constInt(x.Len); ok {
			up(int(n))
		}
	}
	// facts
	first := -1
	notOneChar := map[int]bool{} // v != "c" for these c
	notLen := map[int]bool{}     // len(v) != c for these c
	for _, f := range p.facts(at) {
		b, ok := f.Cond.(*ssa.BinOp)
		if !ok {
			continue
		}
		// v == "" / v != "" / v == const
		for _, side := range [][2]ssa.Value{{b.X, b.Y}, {b.Y, b.X}} {
			if sameVal(side[0], v) {
				if s, okc := constString(side[1]); okc {
					eq := (b.Op == token.EQL && f.True) || (b.Op == token.NEQ && !f.True)
					ne := (b.Op == token.NEQ && f.True) || (b.Op == token.EQL && !f.True)
					if eq {
						up(len(s))
					}
					if ne && s == "" {
						up(1)
					}
					if ne && len(s) == 1 {
						notOneChar[int(s[0])] = true
					}
				}
				if isNilConst(side[1]) {
					// slice != nil says nothing about the length
				}
			}
			// len(v) OP c
			if call, okc := side[0].(*ssa.Call); okc && isBuiltin(call, "len") && sameVal(call.Call.Args[0], v) {
				if c, okk := constInt(side[1]); okk {
					op := b.Op
					if side[0] == b.Y {
						op = flipOp(op)
					}
					if !f.True {
						op = negOp(op)
					}
					switch op {
					case token.GTR:
						up(int(c) + 1)
					case token.GEQ, token.EQL:
						up(int(c))
					case token.NEQ:
						if c == 0 {
							up(1)
						}
						notLen[int(c)] = true
					}
				}
			}
			// v[0] == 'c'
			if s, i, oki := strIndexOf(side[0]); oki && i == 0 && sameVal(s, v) {
				if c, okk := constInt(side[1]); okk {
					if (b.Op == token.EQL && f.True) || (b.Op == token.NEQ && !f.True) {
						first = int(c)
					}
				}
			}
		}
	}
	if best >= 1 && first >= 0 && (notOneChar[first] || p.notTheOneChar(v, at, first)) {
		up(2) // non-empty, starts with c, is not "c"  =>  at least two bytes
	}
	for notLen[best] {
		up(best + 1) // len >= n and len != n  =>  len >= n+1
	}
	// parameters: pre-condition (checked at call sites by the caller of prove)
	if prm, ok := v.(*ssa.Parameter); ok && best == 0 {
		if n, has := p.pre[prm]; has {
			return n
		}
	}
	return best
}

// firstByte of v known at `at` (-1 unknown). Requires minLen >= 1 separately.
func (p *idxProver) firstByte(v ssa.Value, at ssa.Instruction) int {
	if p.depth > 12 {
		return -1
	}
	p.depth++
	defer func() { p.depth-- }()
	switch x := v.(type) {
	case *ssa.Phi:
		fb := -2
		for i, e := range x.Edges {
			if e == v {
				continue
			}
			b := -1
			p.onEdge(x, i, func(term ssa.Instruction) {
				if p.minLen(e, term) >= 1 {
					b = p.firstByte(e, term)
				}
			})
			if fb == -2 {
				fb = b
			} else if fb != b {
				fb = -1
			}
		}
		if fb >= 0 {
			return fb
		}
	case *ssa.Slice:
		// s[n-1:] where n is a counter: starts at a constant c with s[c-1] == ch known, and is incremented by one only
		// on edges taken under s[n] == ch — then s[n-1] == ch throughout
		if sub, ok := x.Low.(*ssa.BinOp); ok && x.High == nil && sub.Op == token.SUB {
			if one, okc := constInt(sub.Y); okc && one == 1 {
				if ph, isPhi := sub.X.(*ssa.Phi); isPhi {
					byteAt := func(term ssa.Instruction, idx ssa.Value, cidx int64, useConst bool) int {
						for _, f := range p.facts(term) {
							b, ok := f.Cond.(*ssa.BinOp)
							if !ok || !((b.Op == token.EQL && f.True) || (b.Op == token.NEQ && !f.True)) {
								continue
							}
							for _, side := range [][2]ssa.Value{{b.X, b.Y}, {b.Y, b.X}} {
								c, okk := constInt(side[1])
								if !okk {
									continue
								}
								var sx, si ssa.Value
								switch e := side[0].(type) {
								case *ssa.Index:
									sx, si = e.X, e.Index
								case *ssa.Lookup:
									sx, si = e.X, e.Index
								default:
									continue
								}
								if !sameVal(sx, x.X) {
									continue
								}
								if useConst {
									if ci, okc := constInt(si); okc && ci == cidx {
										return int(c)
									}
								} else if sameVal(si, idx) {
									return int(c)
								}
							}
						}
						return -1
					}
					fb := -2
					for i, e := range ph.Edges {
						b := -1
						if bo, isB := e.(*ssa.BinOp); isB && bo.Op == token.ADD && bo.X == ssa.Value(ph) {
							if st, okc := constInt(bo.Y); okc && st == 1 {
								p.onEdge(ph, i, func(term ssa.Instruction) { b = byteAt(term, ph, 0, false) })
							}
						} else if c, okc := constInt(e); okc && c >= 1 {
							p.onEdge(ph, i, func(term ssa.Instruction) { b = byteAt(term, nil, c-1, true) })
						}
						if fb == -2 {
							fb = b
						} else if fb != b {
							fb = -1
						}
					}
					if fb >= 0 {
						return fb
					}
				}
			}
		}
	case *ssa.Const:
		if s, ok := constString(x); ok && len(s) > 0 {
			return int(s[0])
		}
	case *ssa.BinOp:
		if x.Op == token.ADD && p.minLen(x.X, at) >= 1 {
			return p.firstByte(x.X, at)
		}
	case *ssa.Call:
		if sc := staticCallee(x); sc != nil && p.w.InModule(sc) {
			if po := p.postOf(sc); po.proved {
				return po.first
			}
		}
	}
	for _, f := range p.facts(at) {
		b, ok := f.Cond.(*ssa.BinOp)
		if !ok {
			continue
		}
		for _, side := range [][2]ssa.Value{{b.X, b.Y}, {b.Y, b.X}} {
			if s, i, oki := strIndexOf(side[0]); oki && i == 0 && sameVal(s, v) {
				if c, okk := constInt(side[1]); okk {
					if (b.Op == token.EQL && f.True) || (b.Op == token.NEQ && !f.True) {
						return int(c)
					}
				}
			}
			if sameVal(side[0], v) {
				if s, okc := constString(side[1]); okc && len(s) > 0 && ((b.Op == token.EQL && f.True) || (b.Op == token.NEQ && !f.True)) {
					return int(s[0])
				}
			}
		}
	}
	return -1
}

// postOf: proved post-condition of a module function returning one string:
// min length and first byte over all return statements.
func (p *idxProver) postOf(f *ssa.Function) strPost {
	if po, ok := p.post[f]; ok {
		return po
	}
	p.post[f] = strPost{} // cycle guard
	res := f.Signature.Results()
	if res.Len() != 1 {
		return strPost{}
	}
	if b, ok := res.At(0).Type().Underlying().(*types.Basic); !ok || b.Kind() != types.String {
		return strPost{}
	}
	po := strPost{minLen: -1, first: -2, proved: true}
	eachInstr(f, func(in ssa.Instruction) {
		ret, ok := in.(*ssa.Return)
		if !ok {
			return
		}
		v := ret.Results[0]
		n := p.minLen(v, in)
		fb := -1
		if n >= 1 {
			fb = p.firstByte(v, in)
		}
		if po.minLen < 0 || n < po.minLen {
			po.minLen = n
		}
		if po.first == -2 {
			po.first = fb
		} else if po.first != fb {
			po.first = -1
		}
	})
	if po.minLen < 0 {
		po = strPost{}
	}
	if po.first == -2 {
		po.first = -1
	}
	p.post[f] = po
	return po
}

// bounds on integers -------------------------------------------------------

// lowerBound: a constant c with v >= c at `at` (ok=false: unknown).
func (p *idxProver) lowerBound(v ssa.Value, at ssa.Instruction) (int64, bool) {
	if p.depth > 12 {
		return 0, false
	}
	p.depth++
	defer func() { p.depth-- }()
	best, have := int64(0), false
	up := func(c int64) {
		if !have || c > best {
			best, have = c, true
		}
	}
	if c, ok := constInt(v); ok {
		return c, true
	}
	switch x := v.(type) {
	case *ssa.BinOp:
		switch x.Op {
		case token.ADD:
			if a, ok := p.lowerBound(x.X, at); ok {
				if b, ok := p.lowerBound(x.Y, at); ok {
					up(a + b)
				}
			}
		case token.SUB:
			if c, ok := constInt(x.Y); ok {
				if a, ok := p.lowerBound(x.X, at); ok {
					up(a - c)
				}
			}
		}
	case *ssa.Call:
		if isBuiltin(x, "len") {
			up(int64(p.minLen(x.Call.Args[0], at)))
		}
		if isBuiltin(x, "copy") {
			up(0) // the number of elements copied
		}
		switch calleeName(x) {
		case "strings.IndexByte", "strings.Index", "strings.LastIndexByte", "strings.IndexRune", "strings.LastIndex":
			up(-1)
		}
	case *ssa.Convert:
		if _, ok := x.X.Type().Underlying().(*types.Basic); ok {
			// widening/narrowing of small non-negative values is not tracked
		}
	}
	if isRangeIndex(v) {
		up(0)
	}
	// induction variable: phi of constants and of itself plus a non-negative step
	if ph, ok := v.(*ssa.Phi); ok {
		lo, okAll, n := int64(0), true, 0
		for _, e := range ph.Edges {
			if c, okc := constInt(e); okc {
				if n == 0 || c < lo {
					lo = c
				}
				n++
				continue
			}
			if b, isB := e.(*ssa.BinOp); isB && b.Op == token.ADD && b.X == ssa.Value(ph) {
				if st, okc := constInt(b.Y); okc && st >= 0 {
					continue
				}
			}
			okAll = false
		}
		if okAll && n > 0 {
			up(lo)
		}
	}
	for _, f := range p.facts(at) {
		b, ok := f.Cond.(*ssa.BinOp)
		if !ok {
			continue
		}
		op := b.Op
		var c int64
		var okc bool
		if sameVal(b.X, v) {
			c, okc = constInt(b.Y)
		} else if sameVal(b.Y, v) {
			c, okc = constInt(b.X)
			op = flipOp(op)
		}
		if !okc {
			continue
		}
		if !f.True {
			op = negOp(op)
		}
		switch op {
		case token.GTR:
			up(c + 1)
		case token.GEQ, token.EQL:
			up(c)
		}
	}
	return best, have
}

// upperRel: v <= len(S) + c for the returned (S, c).
func (p *idxProver) upperRel(v ssa.Value, at ssa.Instruction) (ssa.Value, int64, bool) {
	if p.depth == 0 {
		p.work = 0
	}
	p.work++
	if p.depth > 12 || p.work > 20000 {
		return nil, 0, false
	}
	p.depth++
	defer func() { p.depth-- }()
	switch x := v.(type) {
	case *ssa.BinOp:
		switch x.Op {
		case token.ADD:
			if c, ok := constInt(x.Y); ok {
				if s, k, ok := p.upperRel(x.X, at); ok {
					return s, k + c, true
				}
			}
			if c, ok := constInt(x.X); ok {
				if s, k, ok := p.upperRel(x.Y, at); ok {
					return s, k + c, true
				}
			}
		case token.SUB:
			if c, ok := constInt(x.Y); ok {
				if s, k, ok := p.upperRel(x.X, at); ok {
					return s, k - c, true
				}
			}
		}
	case *ssa.Call:
		if isBuiltin(x, "len") {
			s, k := p.lenBase(x.Call.Args[0])
			return s, k, true
		}
		if isBuiltin(x, "copy") {
			// copy(dst, src) <= len(dst)
			s, k := p.lenBase(x.Call.Args[0])
			return s, k, true
		}
		switch calleeName(x) {
		case "strings.IndexByte", "strings.LastIndexByte", "strings.IndexRune":
			s, k := p.lenBase(x.Call.Args[0])
			return s, k - 1, true
		case "strings.Index", "strings.LastIndex":
			s, k := p.lenBase(x.Call.Args[0])
			return s, k, true
		}
	case *ssa.Phi:
		if sb, k, okf := p.upperRelFacts(v, at, nil); okf {
			return sb, k, true // a branch fact in force here is at least as tight
		}
		// a counter that only grows by a positive constant, and only on edges taken under "counter < len(S) + d":
		// counter <= len(S) + d + step - 1 holds throughout, provided every initial value satisfies it too
		var base ssa.Value
		bound := int64(0)
		okInd, steps := true, 0
		for i, e := range x.Edges {
			b, isB := e.(*ssa.BinOp)
			if !isB || b.Op != token.ADD || b.X != ssa.Value(x) {
				continue
			}
			st, okc := constInt(b.Y)
			if !okc || st <= 0 {
				okInd = false
				break
			}
			steps++
			found := false
			p.onEdge(x, i, func(term ssa.Instruction) {
				if sb, k, okr := p.upperRelFacts(x, term, nil); okr {
					if base == nil || (sameVal(base, sb) && k+st > bound) {
						base, bound = sb, k+st
					}
					found = sameVal(base, sb)
				}
			})
			if !found {
				okInd = false
			}
		}
		if okInd && steps > 0 && base != nil {
			for i, e := range x.Edges {
				if b, isB := e.(*ssa.BinOp); isB && b.Op == token.ADD && b.X == ssa.Value(x) {
					continue
				}
				c, okc := constInt(e)
				if !okc {
					okInd = false
					break
				}
				enough := false
				p.onEdge(x, i, func(term ssa.Instruction) {
					// c <= len(base) + bound
					enough = int64(p.minLen(base, term)) >= c-bound
				})
				if !enough {
					okInd = false
				}
			}
			if okInd {
				return base, bound, true
			}
		}
	}
	return p.upperRelFacts(v, at, nil)
}

// upperRelFacts: an upper relation v <= len(S)+k taken from the branch facts at the instruction
// (v < len(S), v <= len(S) - c ...). With want != nil only a relation to that base is returned —
// a value that is itself a length (n := len(start)) has a trivial relation to its own base and a
// second, useful one to the base it was compared with (len(path) >= n).
func (p *idxProver) upperRelFacts(v ssa.Value, at ssa.Instruction, want ssa.Value) (ssa.Value, int64, bool) {
	for _, f := range p.facts(at) {
		b, ok := f.Cond.(*ssa.BinOp)
		if !ok {
			continue
		}
		op := b.Op
		var other ssa.Value
		if sameVal(b.X, v) {
			other = b.Y
		} else if sameVal(b.Y, v) {
			other = b.X
			op = flipOp(op)
		} else {
			continue
		}
		if !f.True {
			op = negOp(op)
		}
		if s, k, ok := p.upperRel(other, at); ok && other != v {
			if want != nil && !sameVal(s, want) {
				continue
			}
			// v OP other, other <= len(s)+k
			switch op {
			case token.LSS:
				return s, k - 1, true
			case token.LEQ, token.EQL:
				return s, k, true
			}
		}
	}
	return nil, 0, false
}

// lenBase: len(v) == len(S) + c for the returned (S, c), peeling constant-low re-slices.
func (p *idxProver) lenBase(v ssa.Value) (ssa.Value, int64) {
	var k int64
	for i := 0; i < 8; i++ {
		sl, ok := v.(*ssa.Slice)
		if !ok || sl.High != nil {
			break
		}
		lo := int64(0)
		if sl.Low != nil {
			c, okc := constInt(sl.Low)
			if !okc {
				break
			}
			lo = c
		}
		k -= lo
		v = sl.X
	}
	return v, k
}

// obligations --------------------------------------------------------------

type idxOb struct {
	fn        *ssa.Function
	in        ssa.Instruction
	kind      string
	construct string
	ok        bool
	detail    string
	trusted   string
}

// trustedDischarges: frozen table of discharges that rest on a library
// contract, a checked who-may-write fact or the handler boundary; each is
// recognised structurally (never by line or variable name) and carries its
// reason (DESIGN C13-TOTAL).
type trustedRule struct {
	name   string
	reason string
	match  func(p *idxProver, ob *idxOb) bool
}

func submatchResult(v ssa.Value) (*ssa.Call, bool) {
	c, ok := v.(*ssa.Call)
	if ok && strings.HasPrefix(calleeName(c), "(*regexp.Regexp).FindAll") && strings.HasSuffix(calleeName(c), "Submatch") {
		return c, true
	}
	return nil, false
}

// elemOfSubmatch: v == ss[k] (loaded) with ss a FindAll*Submatch result, or v is
// the result of FindStringSubmatch itself (one match: 1+NumSubexp entries, nil when no match).
func elemOfSubmatch(v ssa.Value) (*ssa.Call, bool) {
	if c, ok := v.(*ssa.Call); ok && (calleeName(c) == "(*regexp.Regexp).FindStringSubmatch" || calleeName(c) == "(*regexp.Regexp).FindSubmatch") {
		return c, true
	}
	ld, ok := v.(*ssa.UnOp)
	if !ok || ld.Op != token.MUL {
		return nil, false
	}
	ia, ok := ld.X.(*ssa.IndexAddr)
	if !ok {
		return nil, false
	}
	return submatchResult(ia.X)
}

var trustedRules = []trustedRule{
	{"executor handlers[index]",
		"upper bound from the loop guard index < len(handlers) under the assumption that a handler does not replace the chain through SetHandlers mid-request; lower bound from C04-CURSOR (cursor writers store -1, the sentinel or +1, and Next increments before the first use)",
		func(p *idxProver, ob *idxOb) bool {
			ia, ok := ob.in.(*ssa.IndexAddr)
			if !ok {
				return false
			}
			hF, iF := p.w.Field("rux", "Context", "handlers"), p.w.Field("rux", "Context", "index")
			idx := ia.Index
			if cv, isC := idx.(*ssa.Convert); isC {
				idx = cv.X
			}
			if !isLoadOfField(ia.X, hF) || !isLoadOfField(idx, iF) {
				return false
			}
			// the guard index < len(handlers) must dominate
			return factHolds(ob.in, func(cond ssa.Value, truth bool) bool {
				b, okb := cond.(*ssa.BinOp)
				return okb && ((b.Op == token.LSS && truth) || (b.Op == token.GEQ && !truth)) && isLoadOfField(b.X, iF) && derivesFromLen(b.Y, hF)
			})
		}},
	{"submatch element has >= 1 entries",
		"every element of FindAllStringSubmatch's result has 1+NumSubexp >= 1 entries (regexp documentation)",
		func(p *idxProver, ob *idxOb) bool {
			sl, ok := ob.in.(*ssa.Slice)
			if !ok || sl.High != nil {
				return false
			}
			lo, okc := constInt(sl.Low)
			if !okc || lo != 1 {
				return false
			}
			sub, isSub := elemOfSubmatch(sl.X)
			if !isSub {
				return false
			}
			if sub == sl.X {
				// direct FindStringSubmatch result is nil when nothing matched: a length/nil test must dominate
				return p.minLen(sl.X, ob.in) >= 1 || factHolds(ob.in, func(cond ssa.Value, truth bool) bool {
					is, pol := nonNilTest(cond, sl.X)
					return is && pol == truth
				})
			}
			return true
		}},
	{"i-th submatch has an i-th name",
		"registration invariant C02-GROUPS: every compiled route pattern satisfies NumSubexp() == len(matches) (checked on every store to Route.regex), and a submatch slice has 1+NumSubexp entries",
		func(p *idxProver, ob *idxOb) bool {
			ia, ok := ob.in.(*ssa.IndexAddr)
			if !ok || !isRangeIndex(ia.Index) {
				return false
			}
			mF, rF := p.w.Field("rux", "Route", "matches"), p.w.Field("rux", "Route", "regex")
			if !isLoadOfField(ia.X, mF) {
				return false
			}
			// the range is over vs[1:] with vs an element of regex.FindAllStringSubmatch
			okRange := false
			for _, ft := range condFacts(ob.in) {
				c, isB := ft.Cond.(*ssa.BinOp)
				if !isB || c.X != ia.Index || c.Op != token.LSS || !ft.True {
					continue
				}
				if call, isCall := c.Y.(*ssa.Call); isCall && isBuiltin(call, "len") {
					if sl, isSl := call.Call.Args[0].(*ssa.Slice); isSl && sl.High == nil {
						if lo, okc := constInt(sl.Low); okc && lo == 1 {
							if sub, isSub := elemOfSubmatch(sl.X); isSub && isLoadOfField(sub.Call.Args[0], rF) {
								okRange = true
							}
						}
					}
				}
			}
			if !okRange {
				return false
			}
			tm := newTierModel(p.w)
			checkers := groupCountCheckers(p.w, tm)
			for _, f := range p.w.Funcs {
				for _, st := range storesToField(f, rF) {
					if isNilConst(st.Val) {
						continue
					}
					if hasGroupCountCheck(f, tm, st) {
						continue
					}
					found := false
					for _, c := range callsIn(f, func(c ssa.CallInstruction) bool { return checkers[staticCallee(c)] }) {
						if canReach(st, c) {
							found = true
						}
					}
					okAll, _ := allPathsHit(f, st, func(in ssa.Instruction) bool {
						c, isCall := in.(*ssa.Call)
						return isCall && checkers[staticCallee(c)]
					})
					if !found || !okAll {
						return false
					}
				}
			}
			return true
		}},
	{"pool yields *Context",
		"the pool's New returns *Context and only *Context values are Put (checked: C03-POOL and the pool Put value-type obligation)",
		func(p *idxProver, ob *idxOb) bool {
			ta, ok := ob.in.(*ssa.TypeAssert)
			if !ok || !isNamedPtr(ta.AssertedType, p.w.Named("rux", "Context")) {
				return false
			}
			c, isCall := ta.X.(*ssa.Call)
			return isCall && calleeName(c) == "(*sync.Pool).Get"
		}},
	{"allowed set under CTXAllowedMethods is a []string",
		"internal405Handler is unexported and installed only on the dispatcher path that stored a []string under CTXAllowedMethods first (checked: C06-DISPATCH)",
		func(p *idxProver, ob *idxOb) bool {
			ta, ok := ob.in.(*ssa.TypeAssert)
			if !ok || typeShort(ta.AssertedType) != "[]string" {
				return false
			}
			c, isCall := ta.X.(*ssa.Call)
			if !isCall || len(c.Call.Args) != 2 {
				return false
			}
			key, _ := constString(p.w.Const("rux", "CTXAllowedMethods").Value)
			k, okc := constString(c.Call.Args[1])
			if !okc || k != key {
				return false
			}
			// every Set under that key in the module stores a []string
			setFn := p.w.Fn("rux", "Context.Set")
			n := 0
			for _, f := range p.w.Funcs {
				for _, sc := range callsToFn(f, setFn) {
					if kk, okk := constString(sc.Common().Args[1]); okk && kk == key {
						n++
						v := sc.Common().Args[2]
						if mi, isMI := v.(*ssa.MakeInterface); isMI {
							v = mi.X
						}
						if typeShort(v.Type()) != "[]string" {
							return false
						}
					}
				}
			}
			return n >= 1
		}},
	{"list elements hold *cacheNode",
		"only *cacheNode values are ever pushed on the recency list (checked: who-may-push obligation)",
		func(p *idxProver, ob *idxOb) bool {
			ta, ok := ob.in.(*ssa.TypeAssert)
			if !ok || !isNamedPtr(ta.AssertedType, p.w.Named("rux", "cacheNode")) {
				return false
			}
			ld, isLd := ta.X.(*ssa.UnOp)
			if !isLd {
				return false
			}
			fa, isFA := ld.X.(*ssa.FieldAddr)
			return isFA && strings.HasSuffix(types.TypeString(fa.X.Type(), nil), "container/list.Element") && fieldName(fa.X.Type(), fa.Field) == "Value"
		}},
	{"hook called from the frame installed under OnPanic != nil",
		"the closure is created only on the edge where the function field was tested non-nil in the enclosing function",
		func(p *idxProver, ob *idxOb) bool {
			if ob.kind != "nilcall" || ob.fn.Parent() == nil {
				return false
			}
			c := ob.in.(*ssa.Call)
			lf := unwrapAddr(c.Call.Value).lastField()
			okAll, n := true, 0
			eachInstr(ob.fn.Parent(), func(in ssa.Instruction) {
				mc, isMC := in.(*ssa.MakeClosure)
				if !isMC || mc.Fn != ob.fn {
					return
				}
				n++
				if !factHolds(in, func(cond ssa.Value, truth bool) bool {
					b, okb := cond.(*ssa.BinOp)
					if !okb {
						return false
					}
					var other ssa.Value
					if isLoadOfField(b.X, lf) {
						other = b.Y
					} else if isLoadOfField(b.Y, lf) {
						other = b.X
					} else {
						return false
					}
					return isNilConst(other) && ((b.Op == token.NEQ && truth) || (b.Op == token.EQL && !truth))
				}) {
					okAll = false
				}
			})
			return okAll && n >= 1
		}},
	{"hook called from a named function that is only invoked where the hook was tested non-nil",
		"every call, defer or go of the (unexported) function in the module is dominated by the non-nil test of the same function field",
		func(p *idxProver, ob *idxOb) bool {
			if ob.kind != "nilcall" || ob.fn.Parent() != nil || ob.fn.Object() == nil || ob.fn.Object().Exported() {
				return false
			}
			c := ob.in.(*ssa.Call)
			acc := unwrapAddr(c.Call.Value)
			lf := acc.lastField()
			// the hook is a field of one of the function's own parameters (the same object the caller tested)
			prm, isPrm := acc.Base.(*ssa.Parameter)
			if !isPrm || len(acc.Fields) != 1 || acc.Elem {
				return false
			}
			pk := -1
			for i, q := range ob.fn.Params {
				if q == prm {
					pk = i
				}
			}
			if pk < 0 {
				return false
			}
			okAll, n := true, 0
			for _, g := range p.w.Funcs {
				eachInstr(g, func(in ssa.Instruction) {
					ci, isCall := in.(ssa.CallInstruction)
					if isCall && ci.Common().StaticCallee() == ob.fn {
						// the tested object is the one handed to the function
						args := ci.Common().Args
						if pk >= len(args) {
							okAll = false
							return
						}
						want := canon(args[pk])
						n++
						if !factHolds(in, func(cond ssa.Value, truth bool) bool {
							b, okb := cond.(*ssa.BinOp)
							if !okb {
								return false
							}
							var ld, other ssa.Value
							if isLoadOfField(b.X, lf) {
								ld, other = b.X, b.Y
							} else if isLoadOfField(b.Y, lf) {
								ld, other = b.Y, b.X
							} else {
								return false
							}
							if canon(unwrapAddr(ld).Base) != want && canon(ld.(*ssa.UnOp).X.(*ssa.FieldAddr).X) != want {
								return false
							}
							return isNilConst(other) && ((b.Op == token.NEQ && truth) || (b.Op == token.EQL && !truth))
						}) {
							okAll = false
						}
						return
					}
					if !isCall || ci.Common().StaticCallee() != ob.fn {
						// the function used as a value escapes the analysis
						if mc, isMC := in.(*ssa.MakeClosure); isMC && mc.Fn == ob.fn {
							okAll = false
						}
						return
					}
					n++
					if !factHolds(in, func(cond ssa.Value, truth bool) bool {
						b, okb := cond.(*ssa.BinOp)
						if !okb {
							return false
						}
						var other ssa.Value
						if isLoadOfField(b.X, lf) {
							other = b.Y
						} else if isLoadOfField(b.Y, lf) {
							other = b.X
						} else {
							return false
						}
						return isNilConst(other) && ((b.Op == token.NEQ && truth) || (b.Op == token.EQL && !truth))
					}) {
						okAll = false
					}
				})
			}
			// the function must not be referenced as a value anywhere (method value, function value)
			for _, g := range p.w.Funcs {
				eachInstr(g, func(in ssa.Instruction) {
					for _, op := range in.Operands(nil) {
						if op != nil && *op == ssa.Value(ob.fn) {
							if ci, isCall := in.(ssa.CallInstruction); !isCall || ci.Common().Value != ssa.Value(ob.fn) {
								okAll = false
							}
						}
					}
				})
			}
			return okAll && n >= 1
		}},
}

func typeShort(t types.Type) string {
	return types.TypeString(t, func(p *types.Package) string { return "" })
}

// collect enumerates and tries to discharge the obligations of f.
func (p *idxProver) collect(f *ssa.Function) []idxOb {
	var out []idxOb
	ord := map[string]int{}
	key := func(kind, d string) string {
		k := FuncName(f) + ":" + kind + " " + d
		ord[k]++
		if ord[k] > 1 {
			return fmt.Sprintf("%s#%d", k, ord[k])
		}
		return k
	}
	nameOf := func(v ssa.Value) string {
		acc := unwrapAddr(v)
		if lf := acc.lastField(); lf != nil {
			return lf.Name()
		}
		switch b := acc.Base.(type) {
		case *ssa.Parameter:
			return b.Name()
		case *ssa.Phi:
			if b.Comment != "" {
				return b.Comment
			}
		case *ssa.Call:
			return "result"
		}
		if v.Name() != "" && !strings.HasPrefix(v.Name(), "t") {
			return v.Name()
		}
		if ph, ok := v.(*ssa.Phi); ok && ph.Comment != "" {
			return ph.Comment
		}
		return "value"
	}
	idxStr := func(v ssa.Value) string {
		if c, ok := constInt(v); ok {
			return fmt.Sprint(c)
		}
		if isRangeIndex(v) {
			return "rangeindex"
		}
		if cv, ok := v.(*ssa.Convert); ok {
			v = cv.X
		}
		if ld, ok := v.(*ssa.UnOp); ok && ld.Op == token.MUL {
			if fa, ok := ld.X.(*ssa.FieldAddr); ok {
				return fieldName(fa.X.Type(), fa.Field)
			}
		}
		s := shortCanon(canon(v))
		s = strings.ReplaceAll(s, "call builtin ", "")
		if len(s) > 40 || strings.Contains(s, "opaque") || strings.Contains(s, "phi(") {
			acc := unwrapAddr(v)
			if lf := acc.lastField(); lf != nil {
				return lf.Name()
			}
			return "expr"
		}
		return s
	}
	proveIndex := func(in ssa.Instruction, x, idx ssa.Value) (bool, string) {
		// range element of the same collection
		if isRangeIndex(idx) {
			b := idx.(*ssa.BinOp)
			// the loop guard compares idx with len(x)
			for _, ft := range condFacts(in) {
				c, ok := ft.Cond.(*ssa.BinOp)
				if ok && c.X == ssa.Value(b) && c.Op == token.LSS && ft.True {
					if call, okc := c.Y.(*ssa.Call); okc && isBuiltin(call, "len") && sameVal(call.Call.Args[0], x) {
						return true, "range over the indexed collection itself"
					}
				}
			}
		}
		// an element stored at the running offset of a slice made for exactly the pieces that are copied into it:
		// E-SEQ's tiling proof (pieces start where the previous one ended, the made length is their sum, on every
		// path to this store) puts every piece, this element included, inside the slice
		if mk, isMk := x.(*ssa.MakeSlice); isMk {
			if _, isIA := in.(*ssa.IndexAddr); isIA {
				paths, complete := enumPaths(in.Parent(), in, 512)
				okAll := complete && len(paths) > 0
				e := &seqEngine{p.w}
				for _, pc := range paths {
					if !okAll {
						break
					}
					// the store through this address lies in the same block; evaluate the tiling on the path
					if sv := e.evalMake(mk, pc); sv.Unknown != "" {
						okAll = false
					}
				}
				if okAll {
					stored := false
					for _, ref := range *in.(*ssa.IndexAddr).Referrers() {
						if st, isSt := ref.(*ssa.Store); isSt && st.Addr == in.(ssa.Value) && st.Block() == in.Block() {
							stored = true
						}
					}
					if stored {
						return true, "element of a slice made for exactly the pieces copied into it (tiling proved by E-SEQ on every path)"
					}
				}
			}
		}
		// s[:i+1][i]: the last element of a view that was just cut (or extended) to end there
		if sl, isSl := x.(*ssa.Slice); isSl && sl.Low == nil && sl.High != nil {
			if b, isB := sl.High.(*ssa.BinOp); isB && b.Op == token.ADD {
				if one, okc := constInt(b.Y); okc && one == 1 && sameVal(b.X, idx) {
					if lb0, okl0 := p.lowerBound(idx, in); okl0 && lb0 >= 0 {
						return true, "index i of a view s[:i+1]"
					}
				}
			}
		}
		lb, okl := p.lowerBound(idx, in)
		if !okl || lb < 0 {
			return false, fmt.Sprintf("index may be negative (lower bound %v known=%v)", lb, okl)
		}
		if c, okc := constInt(idx); okc {
			if n := p.minLen(x, in); int64(n) > c {
				return true, fmt.Sprintf("constant index %d < proved minimum length %d", c, n)
			} else {
				return false, fmt.Sprintf("constant index %d but the proved minimum length is only %d", c, n)
			}
		}
		if s, k, ok := p.upperRel(idx, in); ok {
			base, bk := p.lenBase(x)
			if sameVal(s, base) && k-bk <= -1 {
				return true, fmt.Sprintf("index <= len(%s)%+d", nameOf(s), k-bk)
			}
			return false, fmt.Sprintf("index <= len(%s)%+d does not imply index < len(%s)", nameOf(s), k, nameOf(x))
		}
		return false, "no upper bound for the index is known"
	}
	eachInstr(f, func(in ssa.Instruction) {
		if isRecoverBlock(in.Block()) {
			return
		}
		switch x := in.(type) {
		case *ssa.IndexAddr:
			if _, isArr := x.X.Type().Underlying().(*types.Pointer); isArr {
				// pointer to array: constant index into a fixed-size array literal is checked by the compiler
				if _, okc := constInt(x.Index); okc {
					return
				}
			}
			ok, d := proveIndex(in, x.X, x.Index)
			out = append(out, idxOb{fn: f, in: in, kind: "index", construct: key("index", nameOf(x.X)+"["+idxStr(x.Index)+"]"), ok: ok, detail: d})
		case *ssa.Index:
			if _, okc := constInt(x.Index); okc {
				if _, isArr := x.X.Type().Underlying().(*types.Array); isArr {
					return
				}
			}
			ok, d := proveIndex(in, x.X, x.Index)
			out = append(out, idxOb{fn: f, in: in, kind: "index", construct: key("index", nameOf(x.X)+"["+idxStr(x.Index)+"]"), ok: ok, detail: d})
		case *ssa.Lookup:
			if _, isStr := x.X.Type().Underlying().(*types.Basic); !isStr {
				return // map lookup never panics
			}
			ok, d := proveIndex(in, x.X, x.Index)
			out = append(out, idxOb{fn: f, in: in, kind: "index", construct: key("index", nameOf(x.X)+"["+idxStr(x.Index)+"]"), ok: ok, detail: d})
		case *ssa.Slice:
			if _, isArrPtr := x.X.Type().Underlying().(*types.Pointer); isArrPtr {
				return // slicing a fresh array literal [:]
			}
			if x.Low == nil && x.High == nil && x.Max == nil {
				return
			}
			// 0 <= low <= high <= len(x)
			ok := true
			d := ""
			lo := int64(0)
			loKnown := true
			if x.Low != nil {
				var okl bool
				lo, okl = p.lowerBound(x.Low, in)
				if !okl || lo < 0 {
					ok, d = false, "low bound may be negative"
				}
				_, loKnown = constInt(x.Low)
			}
			base, bk := p.lenBase(x.X)
			if ok && x.High == nil {
				// low <= len(x)
				if c, okc := constInt(x.Low); okc {
					if n := p.minLen(x.X, in); int64(n) < c {
						ok, d = false, fmt.Sprintf("low bound %d but the proved minimum length of %s is %d", c, nameOf(x.X), n)
					} else {
						d = fmt.Sprintf("low bound %d <= proved minimum length %d", c, n)
					}
				} else if s, k, okr := p.upperRel(x.Low, in); okr && sameVal(s, base) && k-bk <= 0 {
					d = "low <= len"
				} else if mk, isMk := x.X.(*ssa.MakeSlice); isMk && sumOfLensContains(mk.Len, x.Low) {
					d = "the slice was made with a length that is a sum of lengths including this low bound"
				} else {
					ok, d = false, "no proof that low <= len"
				}
			}
			if ok && x.High != nil {
				if c, okc := constInt(x.High); okc {
					if c == 0 && lo == 0 {
						d = "x[:0]"
					} else if n := p.minLen(x.X, in); int64(n) < c {
						ok, d = false, fmt.Sprintf("high bound %d but the proved minimum length is %d", c, n)
					} else {
						d = "constant high bound within the proved minimum length"
					}
				} else if mk, isMk := x.X.(*ssa.MakeSlice); isMk && mk.Cap != nil && canon(mk.Cap) == canon(x.High) {
					// a slice may be extended up to its capacity: make(T, n, c)[:c]
					d = "high bound is the capacity the slice was made with"
				} else {
					s, k, okr := p.upperRel(x.High, in)
					if !okr || !sameVal(s, base) {
						s, k, okr = p.upperRelFacts(x.High, in, base)
					}
					if !okr || !sameVal(s, base) || k-bk > 0 {
						ok, d = false, "no proof that high <= len("+nameOf(x.X)+")"
					} else {
						hl, okh := p.lowerBound(x.High, in)
						if x.Low != nil && (!okh || !loKnown || hl < lo) {
							if !(okh && loKnown && hl >= lo) {
								ok, d = false, "no proof that low <= high"
							}
						}
						if ok {
							d = fmt.Sprintf("high <= len(%s)%+d and low <= high", nameOf(s), k-bk)
						}
					}
				}
			}
			hi := ""
			if x.High != nil {
				hi = idxStr(x.High)
			}
			lows := ""
			if x.Low != nil {
				lows = idxStr(x.Low)
			}
			out = append(out, idxOb{fn: f, in: in, kind: "slice", construct: key("slice", nameOf(x.X)+"["+lows+":"+hi+"]"), ok: ok, detail: d})
		case *ssa.FieldAddr:
			// dereference of a pointer that a library call / map lookup may deliver as nil
			var src string
			var okFlag ssa.Value
			switch b := x.X.(type) {
			case *ssa.Call:
				switch calleeName(b) {
				case "(*container/list.List).Back", "(*container/list.List).Front", "(*container/list.Element).Next", "(*container/list.Element).Prev":
					src = strings.TrimPrefix(calleeName(b), "(*container/list.")
				}
			case *ssa.Extract:
				if lk, isLk := b.Tuple.(*ssa.Lookup); isLk && lk.CommaOk && b.Index == 0 {
					if _, isPtr := b.Type().Underlying().(*types.Pointer); isPtr {
						src = "map lookup"
						okFlag = extractOf(lk, 1)
					}
				}
			case *ssa.Lookup:
				if _, isMap := b.X.Type().Underlying().(*types.Map); isMap {
					if _, isPtr := b.Type().Underlying().(*types.Pointer); isPtr {
						src = "map lookup"
					}
				}
			}
			if src == "" {
				return
			}
			base := x.X
			okN := factHolds(in, func(cond ssa.Value, truth bool) bool {
				if okFlag != nil && cond == okFlag && truth {
					return true
				}
				is, pol := nonNilTest(cond, base)
				return is && pol == truth
			})
			out = append(out, idxOb{fn: f, in: in, kind: "nilderef", construct: key("nilderef", src+"."+fieldName(x.X.Type(), x.Field)), ok: okN,
				detail: map[bool]string{true: "the pointer is tested (non-nil / found) on every path to this dereference", false: "dereference of the result of " + src + ", which is nil when the collection is empty / the key is absent, without a dominating test"}[okN]})
		case *ssa.TypeAssert:
			if x.CommaOk {
				return
			}
			out = append(out, idxOb{fn: f, in: in, kind: "assert", construct: key("assert", typeShort(x.AssertedType)), ok: false, detail: "type assertion without comma-ok panics when the dynamic type differs"})
		case *ssa.Panic:
			out = append(out, idxOb{fn: f, in: in, kind: "panic", construct: key("panic", "explicit"), ok: false, detail: "explicit panic in the lookup path"})
		case *ssa.Call:
			if neverReturns(x) {
				out = append(out, idxOb{fn: f, in: in, kind: "panic", construct: key("panic", calleeName(x)), ok: false, detail: "call that always panics in the lookup path"})
			}
			// dynamic call through a struct field holding a func: needs a nil test
			if !x.Call.IsInvoke() && staticCallee(x) == nil && calleeName(x) == "" {
				acc := unwrapAddr(x.Call.Value)
				if lf := acc.lastField(); lf != nil && !acc.Elem {
					okN := factHolds(in, func(cond ssa.Value, truth bool) bool {
						is, pol := nonNilTest(cond, nil)
						_ = is
						_ = pol
						b, okb := cond.(*ssa.BinOp)
						if !okb {
							return false
						}
						var other ssa.Value
						if isLoadOfField(b.X, lf) {
							other = b.Y
						} else if isLoadOfField(b.Y, lf) {
							other = b.X
						} else {
							return false
						}
						return isNilConst(other) && ((b.Op == token.NEQ && truth) || (b.Op == token.EQL && !truth))
					})
					out = append(out, idxOb{fn: f, in: in, kind: "nilcall", construct: key("nilcall", lf.Name()), ok: okN, detail: map[bool]string{true: "function field tested for nil before the call", false: "call through a function field that may be nil"}[okN]})
				}
			}
		case *ssa.MapUpdate:
			acc := unwrapAddr(x.Map)
			if lf := acc.lastField(); lf != nil {
				// a map loaded from a field must have been made on every path (nil test + make in this function, or constructor)
				okM := false
				for _, st := range storesToField(f, lf) {
					if _, isMake := st.Val.(*ssa.MakeMap); isMake && canReach(st, in) {
						// the store is guarded by field == nil and the update comes after it
						okM = factHolds(st, func(cond ssa.Value, truth bool) bool {
							b, okb := cond.(*ssa.BinOp)
							return okb && isLoadOfField(b.X, lf) && isNilConst(b.Y) && ((b.Op == token.EQL && truth) || (b.Op == token.NEQ && !truth))
						})
					}
				}
				if !okM && mapMadeInConstructor(p.w, lf) {
					okM = true
				}
				if !okM {
					// the write happens only where the field was tested non-nil
					okM = factHolds(in, func(cond ssa.Value, truth bool) bool {
						b, okb := cond.(*ssa.BinOp)
						return okb && isLoadOfField(b.X, lf) && isNilConst(b.Y) && ((b.Op == token.NEQ && truth) || (b.Op == token.EQL && !truth))
					})
				}
				out = append(out, idxOb{fn: f, in: in, kind: "mapwrite", construct: key("mapwrite", lf.Name()), ok: okM, detail: map[bool]string{true: "the map is created before it is written (nil test + make, or constructor)", false: "write to a map field that may still be nil"}[okM]})
			}
		}
	})
	for i := range out {
		if !out[i].ok {
			for _, tr := range trustedRules {
				if tr.match(p, &out[i]) {
					out[i].ok = true
					out[i].trusted = tr.name
					out[i].detail = "discharged by [" + tr.name + "]: " + tr.reason
					break
				}
			}
		}
	}
	return out
}

// mapMadeInConstructor: the map field is initialised with make in every
// composite literal / constructor of its struct in the module.
func mapMadeInConstructor(w *World, fv *types.Var) bool {
	made := false
	for _, f := range w.Funcs {
		for _, st := range storesToField(f, fv) {
			if _, isMake := st.Val.(*ssa.MakeMap); isMake {
				if al, ok := fieldAddrOf(st).X.(*ssa.Alloc); ok && al.Heap {
					made = true
				}
			}
		}
	}
	return made
}

// checkPre: every call site of functions whose parameters got a
// pre-condition must supply an argument that satisfies it.
func (p *idxProver) checkPre(report func(construct string, in ssa.Instruction, ok bool, detail string)) {
	for iter := 0; iter < 6; iter++ {
		before := len(p.pre)
		for prm, need := range p.pre {
			fn := prm.Parent()
			idx := -1
			for i, q := range fn.Params {
				if q == prm {
					idx = i
				}
			}
			for _, g := range p.w.Funcs {
				for _, c := range callsToFn(g, fn) {
					args := c.Common().Args
					if idx < 0 || idx >= len(args) {
						continue
					}
					_ = p.minLen(args[idx], c.(ssa.Instruction)) // may add pre-conditions on g's own parameters
				}
			}
			_ = need
		}
		if len(p.pre) == before {
			break
		}
	}
	for iter := 0; iter < 6; iter++ {
		changed := false
		for prm, need := range p.pre {
			fn := prm.Parent()
			idx := -1
			for i, q := range fn.Params {
				if q == prm {
					idx = i
				}
			}
			for _, g := range p.w.Funcs {
				for _, c := range callsToFn(g, fn) {
					args := c.Common().Args
					if idx < 0 || idx >= len(args) {
						continue
					}
					if ap, ok := args[idx].(*ssa.Parameter); ok && !(g.Object() != nil && g.Object().Exported()) {
						if p.minLen(ap, c.(ssa.Instruction)) < need && p.pre[ap] < need {
							p.pre[ap] = need
							changed = true
						}
					}
				}
			}
		}
		if !changed {
			break
		}
	}
	for prm, need := range p.pre {
		fn := prm.Parent()
		idx := -1
		for i, q := range fn.Params {
			if q == prm {
				idx = i
			}
		}
		exported := fn.Object() != nil && fn.Object().Exported()
		if exported {
			report(fmt.Sprintf("%s:precondition len(%s)>=%d", FuncName(fn), prm.Name(), need), nil, false,
				"an exported entry point needs a non-empty argument: arbitrary caller strings violate it")
			continue
		}
		n := 0
		for _, g := range p.w.Funcs {
			for _, c := range callsToFn(g, fn) {
				n++
				args := c.Common().Args
				got := p.minLen(args[idx], c.(ssa.Instruction))
				report(fmt.Sprintf("%s:call %s arg %s#%d", FuncName(g), FuncName(fn), prm.Name(), n), c.(ssa.Instruction), got >= need,
					fmt.Sprintf("callee requires len(%s) >= %d; argument has proved minimum length %d", prm.Name(), need, got))
			}
		}
	}
}

// requireParam registers a pre-condition when a proof about a parameter fails for lack of facts.
func (p *idxProver) requireParams(f *ssa.Function, need map[string]int) {
	for _, prm := range f.Params {
		if n, ok := need[prm.Name()]; ok {
			p.pre[prm] = n
		}
	}
}

// sumOfLensContains: total is a sum of len(...) terms (all non-negative) one of which is term.
func sumOfLensContains(total, term ssa.Value) bool {
	var terms []ssa.Value
	var walk func(v ssa.Value) bool
	walk = func(v ssa.Value) bool {
		if b, ok := v.(*ssa.BinOp); ok && b.Op == token.ADD {
			return walk(b.X) && walk(b.Y)
		}
		if c, ok := v.(*ssa.Call); ok && isBuiltin(c, "len") {
			terms = append(terms, v)
			return true
		}
		if c, ok := constInt(v); ok && c >= 0 {
			return true
		}
		return false
	}
	if !walk(total) {
		return false
	}
	for _, t := range terms {
		if t == term || canon(t) == canon(term) {
			return true
		}
	}
	return false
}

// facts: the branch facts at an instruction, plus the decision of the edge being evaluated (onEdge).
func (p *idxProver) facts(at ssa.Instruction) []Fact {
	fs := condFacts(at)
	if ex, ok := p.edgeFacts[at]; ok {
		fs = append(fs, ex...)
	}
	return fs
}

// onEdge evaluates fn at the end of the i-th predecessor of the phi's block, with
// that predecessor's own branch decision towards the block added as a fact.
func (p *idxProver) onEdge(ph *ssa.Phi, i int, fn func(term ssa.Instruction)) {
	b := ph.Block()
	if i >= len(b.Preds) || len(b.Preds[i].Instrs) == 0 {
		fn(ph)
		return
	}
	pb := b.Preds[i]
	term := pb.Instrs[len(pb.Instrs)-1]
	if iff, ok := term.(*ssa.If); ok && len(pb.Succs) == 2 && pb.Succs[0] != pb.Succs[1] {
		c, pos := stripNot(iff.Cond)
		truth := (pb.Succs[0] == b) == pos
		if p.edgeFacts == nil {
			p.edgeFacts = map[ssa.Instruction][]Fact{}
		}
		old, had := p.edgeFacts[term]
		p.edgeFacts[term] = append(append([]Fact(nil), old...), Fact{iff, c, truth})
		fn(term)
		if had {
			p.edgeFacts[term] = old
		} else {
			delete(p.edgeFacts, term)
		}
		return
	}
	fn(term)
}

// notTheOneChar: v is known not to be the one-character string "c" at `at`: by a branch fact, because v is the
// result of trimming c away on one side (TrimRight(x, "/") never ends with '/', so it is not "/"), or — for a merged
// value — because that holds for every alternative on its incoming edge.
func (p *idxProver) notTheOneChar(v ssa.Value, at ssa.Instruction, c int) bool {
	if p.depth > 12 {
		return false
	}
	p.depth++
	defer func() { p.depth-- }()
	switch x := v.(type) {
	case *ssa.Phi:
		if len(x.Edges) == 0 {
			return false
		}
		for i, e := range x.Edges {
			if e == v {
				continue
			}
			ok := false
			p.onEdge(x, i, func(term ssa.Instruction) { ok = p.notTheOneChar(e, term, c) })
			if !ok {
				return false
			}
		}
		return true
	case *ssa.Call:
		switch calleeName(x) {
		case "strings.TrimRight", "strings.TrimLeft", "strings.Trim":
			if cs, ok := constString(x.Call.Args[1]); ok && c < 128 && strings.IndexByte(cs, byte(c)) >= 0 {
				return true
			}
		case "strings.TrimSpace":
			if c == ' ' || c == '\t' || c == '\n' || c == '\r' {
				return true
			}
		}
	}
	for _, f := range p.facts(at) {
		b, ok := f.Cond.(*ssa.BinOp)
		if !ok {
			continue
		}
		for _, side := range [][2]ssa.Value{{b.X, b.Y}, {b.Y, b.X}} {
			if sameVal(side[0], v) {
				if s, okc := constString(side[1]); okc && len(s) == 1 && int(s[0]) == c {
					if (b.Op == token.NEQ && f.True) || (b.Op == token.EQL && !f.True) {
						return true
					}
				}
			}
		}
	}
	return false
}
