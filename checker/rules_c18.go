package main

// rules_c18.go — C18 (binding), C19 (response helpers), C20 (gates).

import (
	"fmt"
	"go/constant"
	"go/token"
	"go/types"
	"sort"
	"strings"

	"golang.org/x/tools/go/ssa"
)

// ---------------------------------------------------------------------------
// C18

func isErrorType(t types.Type) bool { return types.TypeString(t, nil) == "error" }

func ruleC18Table(r *Run) {
	w := r.W
	rule := "C18-TABLE"
	r.Floor(rule, 6)
	auto := w.Fn("binding", "Auto")
	req := ssa.Value(auto.Params[0])
	obj := ssa.Value(auto.Params[1])
	paths, complete := enumPaths(auto, nil, 8192)
	if !complete {
		r.Undecided(rule, "binding.Auto:paths", auto.Pos(), "too many paths")
		return
	}
	isMethod := func(v ssa.Value) bool {
		ld, ok := v.(*ssa.UnOp)
		if !ok {
			return false
		}
		fa, ok := ld.X.(*ssa.FieldAddr)
		return ok && fa.X == req && fieldName(fa.X.Type(), fa.Field) == "Method"
	}
	isCType := func(v ssa.Value) bool {
		c, ok := v.(*ssa.Call)
		if !ok || calleeName(c) != "(net/http.Header).Get" {
			return false
		}
		k, okc := constString(c.Call.Args[1])
		return okc && k == "Content-Type" && strings.HasSuffix(canon(c.Call.Args[0]), ".Header")
	}
	type row struct {
		bodyless  bool
		ctTests   []string // content-type constants tested, in order, with truth
		ctTrue    string
		calls     []string
		methodsNE map[string]bool
		methodEq  string
	}
	okAll := true
	problems := map[string]bool{}
	rows := map[string]int{}
	for _, p := range paths {
		rw := row{methodsNE: map[string]bool{}}
		for _, d := range p.decs {
			switch c := d.Cond.(type) {
			case *ssa.BinOp:
				if (c.Op == token.NEQ || c.Op == token.EQL) && isMethod(c.X) {
					if s, ok := constString(c.Y); ok {
						ne := (c.Op == token.NEQ) == d.Truth
						if ne {
							rw.methodsNE[s] = true
						} else {
							rw.methodEq = s
						}
					}
				}
			case *ssa.Call:
				n := calleeName(c)
				if (n == "strings.Contains" || n == "strings.HasPrefix") && isCType(c.Call.Args[0]) {
					k, _ := constString(c.Call.Args[1])
					rw.ctTests = append(rw.ctTests, fmt.Sprintf("%s=%v", k, d.Truth))
					if d.Truth {
						rw.ctTrue = k
					}
				}
			}
		}
		for _, b := range p.blocks {
			for _, in := range b.Instrs {
				c, ok := in.(*ssa.Call)
				if !ok {
					continue
				}
				n := calleeName(c)
				// a parse step chosen as a function value (parse := parserFor(cType); parse(r)): on this path the
				// callee is one module function; what it does to the request is read from its body
				if n == "" && !c.Call.IsInvoke() {
					fv := resolveAlong(c.Call.Value, p.pred)
					for {
						if ct, isCT := fv.(*ssa.ChangeType); isCT {
							fv = ct.X
							continue
						}
						break
					}
					if g, isFn := fv.(*ssa.Function); isFn && w.InModule(g) && g.Blocks != nil {
						eachInstr(g, func(gi ssa.Instruction) {
							gc, isCall := gi.(*ssa.Call)
							if !isCall {
								return
							}
							bound := func(v ssa.Value) bool {
								prm, isP := v.(*ssa.Parameter)
								if !isP {
									return false
								}
								for i, gp := range g.Params {
									if gp == prm && i < len(c.Call.Args) && c.Call.Args[i] == req {
										return true
									}
								}
								return false
							}
							switch gn := calleeName(gc); {
							case gn == "(*net/http.Request).ParseForm" && bound(gc.Call.Args[0]):
								rw.calls = append(rw.calls, "ParseForm")
							case gn == "(*net/http.Request).ParseMultipartForm" && bound(gc.Call.Args[0]):
								mm := "?"
								if ld, ok := gc.Call.Args[1].(*ssa.UnOp); ok {
									if gl, ok := ld.X.(*ssa.Global); ok {
										mm = gl.Name()
									}
								}
								rw.calls = append(rw.calls, "ParseMultipartForm("+mm+")")
							default:
								rw.calls = append(rw.calls, "?"+gn)
							}
						})
						continue
					}
				}
				switch {
				case n == "(*net/http.Request).ParseForm" && c.Call.Args[0] == req:
					rw.calls = append(rw.calls, "ParseForm")
				case n == "(*net/http.Request).ParseMultipartForm" && c.Call.Args[0] == req:
					mm := "?"
					if ld, ok := c.Call.Args[1].(*ssa.UnOp); ok {
						if g, ok := ld.X.(*ssa.Global); ok {
							mm = g.Name()
						}
					}
					rw.calls = append(rw.calls, "ParseMultipartForm("+mm+")")
				case n == "errors.New" || n == "fmt.Errorf":
					rw.calls = append(rw.calls, "error")
				default:
					if sc := staticCallee(c); sc != nil && w.InModule(sc) && sc.Signature.Recv() != nil {
						recv := types.TypeString(sc.Signature.Recv().Type(), func(*types.Package) string { return "" })
						src := ""
						last := c.Call.Args[len(c.Call.Args)-1]
						if last != obj {
							problems["a binder is applied to something other than the caller's object"] = true
						}
						if len(c.Call.Args) == 3 {
							a := c.Call.Args[1]
							cs := canon(a)
							switch {
							case a == req:
								src = "r"
							case strings.HasSuffix(cs, ".PostForm"):
								src = "r.PostForm"
							case strings.HasSuffix(cs, ".Form"):
								src = "r.Form"
							case strings.Contains(cs, "(*net/url.URL).Query") || strings.Contains(cs, "URL).Query"):
								src = "r.URL.Query()"
							default:
								if cc, ok := a.(*ssa.Call); ok && calleeName(cc) == "(*net/url.URL).Query" {
									src = "r.URL.Query()"
								} else {
									src = "?"
								}
							}
						}
						rw.calls = append(rw.calls, recv+"."+sc.Name()+"("+src+")")
					}
				}
			}
		}
		bodyMethods := []string{"PATCH", "POST", "PUT"}
		if rw.methodEq == "" {
			// every tested method differs: must be exactly the three body methods
			var ms []string
			for m := range rw.methodsNE {
				ms = append(ms, m)
			}
			sort.Strings(ms)
			rw.bodyless = true
			if strings.Join(ms, ",") != strings.Join(bodyMethods, ",") {
				problems[fmt.Sprintf("the 'no body' decision tests methods %v instead of exactly POST, PUT, PATCH", ms)] = true
			}
		} else {
			found := false
			for _, m := range bodyMethods {
				if m == rw.methodEq {
					found = true
				}
			}
			if !found {
				problems["method "+rw.methodEq+" is treated as a body method"] = true
			}
		}
		key := ""
		calls := strings.Join(rw.calls, ";")
		want := ""
		if rw.bodyless {
			key = "no-body"
			want = "QueryBinder.BindValues(r.URL.Query())"
			if len(rw.ctTests) != 0 {
				problems["the content type is consulted for a method without body"] = true
			}
		} else {
			order := []string{"/x-www-form-urlencoded", "/form-data", "/json", "/xml"}
			// tests must be a prefix of the order, all false except a final true
			for i, t := range rw.ctTests {
				k := strings.SplitN(t, "=", 2)[0]
				truth := strings.HasSuffix(t, "=true")
				if i >= len(order) || k != order[i] {
					problems[fmt.Sprintf("content-type tests are not in the order %v (got %v)", order, rw.ctTests)] = true
				}
				if truth && i != len(rw.ctTests)-1 {
					problems["a content-type test succeeds and a later one is still evaluated"] = true
				}
			}
			key = rw.ctTrue
			switch rw.ctTrue {
			case "/x-www-form-urlencoded":
				want = "ParseForm;FormBinder.BindValues(r.PostForm)"
			case "/form-data":
				want = "ParseMultipartForm(DefaultMaxMemory);FormBinder.BindValues(r.PostForm)"
			case "/json":
				want = "JSONBinder.Bind(r)"
			case "/xml":
				want = "XMLBinder.Bind(r)"
			case "":
				key = "other"
				want = "error"
				if len(rw.ctTests) != len(order) {
					problems["the 'unsupported type' error is reached without testing all four content types"] = true
				}
			default:
				problems["unexpected content-type constant "+rw.ctTrue] = true
			}
		}
		// error-return paths after a parse call are prefixes of the wanted sequence
		if calls != want {
			if !(strings.HasPrefix(want, calls) && calls != "" && (calls == "ParseForm" || strings.HasPrefix(calls, "ParseMultipartForm"))) {
				problems[fmt.Sprintf("row %s: expected %q, code does %q", key, want, calls)] = true
			} else {
				key += "(parse error)"
			}
		}
		rows[key]++
	}
	for pr := range problems {
		okAll = false
		r.Check(rule, "binding.Auto:"+pr, auto.Pos(), false, pr)
	}
	for _, k := range []string{"no-body", "/x-www-form-urlencoded", "/form-data", "/json", "/xml", "other"} {
		r.Check(rule, "binding.Auto:row "+k, auto.Pos(), rows[k] > 0 && okAll, fmt.Sprintf("%d path(s) implement the documented row '%s' (method set {POST,PUT,PATCH}; form -> ParseForm+PostForm, multipart -> ParseMultipartForm+PostForm, json, xml, else error; tests in that order)", rows[k], k))
	}
	// C18-SRC: request fields read by Auto
	okSrc := true
	bad := ""
	eachInstr(auto, func(in ssa.Instruction) {
		if fa, ok := in.(*ssa.FieldAddr); ok && fa.X == req {
			switch n := fieldName(fa.X.Type(), fa.Field); n {
			case "Method", "Header", "URL", "PostForm":
			default:
				okSrc, bad = false, n
			}
		}
	})
	r.Check("C18-SRC", "binding.Auto:request fields", auto.Pos(), okSrc, map[bool]string{true: "Auto reads only r.Method, r.Header, r.URL and r.PostForm (body through the binders)", false: "Auto reads r." + bad + " (e.g. r.Form mixes query and body values)"}[okSrc])
	r.Floor("C18-SRC", 1)
}

// validating: functions whose every successful return went through Validate(dest).
func validatingFns(w *World) (map[*ssa.Function]bool, map[*ssa.Function]string) {
	validate := w.Fn("binding", "Validate")
	ok := map[*ssa.Function]bool{validate: true}
	why := map[*ssa.Function]string{}
	var cands []*ssa.Function
	for _, f := range w.Funcs {
		if f.Pkg == nil || f.Pkg.Pkg.Path() != modPath+"/pkg/binding" || f.Parent() != nil || f == validate {
			continue
		}
		res := f.Signature.Results()
		if res.Len() != 1 || !isErrorType(res.At(0).Type()) || len(f.Params) == 0 {
			continue
		}
		last := f.Params[len(f.Params)-1]
		if _, isIface := last.Type().Underlying().(*types.Interface); !isIface {
			// DecodeUrlValues(values, ptr, tagName): destination is the interface-typed parameter
			found := false
			for _, p := range f.Params {
				if _, isI := p.Type().Underlying().(*types.Interface); isI && types.TypeString(p.Type(), nil) != "io.Reader" {
					found = true
				}
			}
			if !found {
				continue
			}
		}
		cands = append(cands, f)
	}
	destOf := func(f *ssa.Function) ssa.Value {
		var d ssa.Value
		for _, p := range f.Params {
			if _, isI := p.Type().Underlying().(*types.Interface); isI && types.TypeString(p.Type(), nil) != "io.Reader" && types.TypeString(p.Type(), nil) != "*net/http.Request" {
				d = p
			}
		}
		return d
	}
	for changed := true; changed; {
		changed = false
		for _, f := range cands {
			if ok[f] {
				continue
			}
			dest := destOf(f)
			good := true
			reason := ""
			eachInstr(f, func(in ssa.Instruction) {
				ret, isRet := in.(*ssa.Return)
				if !isRet || !good {
					return
				}
				phiLeavesA(ret.Results[0], in, func(v ssa.Value, fact factOracle, aliases []ssa.Value) {
					if !good {
						return
					}
					// (a) a known non-nil error on this edge (tested directly or through the merged variable)
					if fact(func(cond ssa.Value, truth bool) bool {
						if is, pol := nonNilTest(cond, v); is && pol == truth {
							return true
						}
						for _, al := range aliases {
							if is, pol := nonNilTest(cond, al); is && pol == truth {
								return true
							}
						}
						return false
					}) {
						return
					}
					if c, isCall := v.(*ssa.Call); isCall {
						if n := calleeName(c); n == "errors.New" || n == "fmt.Errorf" {
							return
						}
						if sc := staticCallee(c); sc != nil && ok[sc] {
							// destination passed through
							passed := false
							for _, a := range c.Call.Args {
								if a == dest {
									passed = true
								}
							}
							if passed {
								return
							}
							good, reason = false, "calls "+FuncName(sc)+" on another destination"
							return
						}
						good, reason = false, "returns the result of "+calleeName(c)+" which does not validate"
						return
					}
					if isNilConst(v) {
						good, reason = false, "returns nil without validating the bound value"
						return
					}
					good, reason = false, "returns an error value that is neither known non-nil nor the result of validation"
				})
			})
			if good {
				ok[f] = true
				changed = true
			} else {
				why[f] = reason
			}
		}
	}
	return ok, why
}

func ruleC18Valid(r *Run) {
	w := r.W
	rule := "C18-VALID"
	r.Floor(rule, 9)
	ok, why := validatingFns(w)
	// all implementers of Binder + BindValues/BindBytes + decode helpers
	binderT := w.Named("binding", "Binder").Underlying().(*types.Interface)
	n := 0
	for _, f := range w.Funcs {
		if f.Pkg == nil || f.Pkg.Pkg.Path() != modPath+"/pkg/binding" || f.Parent() != nil {
			continue
		}
		res := f.Signature.Results()
		if res.Len() != 1 || !isErrorType(res.At(0).Type()) {
			continue
		}
		isBinderMethod := false
		if recv := f.Signature.Recv(); recv != nil {
			if (types.Implements(recv.Type(), binderT) || types.Implements(types.NewPointer(recv.Type()), binderT)) && (strings.HasPrefix(f.Name(), "Bind")) {
				isBinderMethod = true
			}
		}
		isHelper := strings.HasPrefix(f.Name(), "decode") || strings.HasPrefix(f.Name(), "Decode") || f.Name() == "Auto" || f.Name() == "Bind"
		if !isBinderMethod && !isHelper {
			continue
		}
		n++
		if FuncName(f) == "(binding.BinderFunc).Bind" {
			r.Exists(rule, FuncName(f), f.Pos(), true, "listed exception: adapter around a user-supplied function; rux cannot validate on its behalf")
			continue
		}
		r.Check(rule, FuncName(f), f.Pos(), ok[f], map[bool]string{true: "every return is a non-nil error or the result of Validate(dest) (directly or through a validating helper on the same destination)", false: "a successful bind can return without validation: " + why[f]}[ok[f]])
	}
	// Validate itself consults the configured validator and nothing else
	v := w.Fn("binding", "Validate")
	valG := w.Global("binding", "Validator")
	okV := false
	eachInstr(v, func(in ssa.Instruction) {
		if c, isCall := in.(*ssa.Call); isCall && c.Call.IsInvoke() && c.Call.Method.Name() == "Validate" {
			if ld, isLd := c.Call.Value.(*ssa.UnOp); isLd && ld.X == ssa.Value(valG) && c.Call.Args[0] == ssa.Value(v.Params[0]) {
				okV = true
			}
		}
	})
	r.Check(rule, "binding.Validate", v.Pos(), okV, "Validate applies the configured Validator to the bound value (nil validator = disabled)")
	// the package's own validators: a nil result means the validation library ran on that very value and passed.
	// A shortcut that answers "valid" without running it (a per-type "has no rules" memo, a nil/kind fast path)
	// re-implements the library's rule discovery — rules also come from the ConfigValidation / Messages /
	// Translates methods of the value, not only from field tags — and lets unvalidated data through.
	dvT := w.Named("binding", "DataValidator").Underlying().(*types.Interface)
	nImpl := 0
	for _, f := range w.Funcs {
		if f.Pkg == nil || f.Pkg.Pkg.Path() != modPath+"/pkg/binding" || f.Parent() != nil || f.Name() != "Validate" {
			continue
		}
		recv := f.Signature.Recv()
		if recv == nil || !(types.Implements(recv.Type(), dvT) || types.Implements(types.NewPointer(recv.Type()), dvT)) || len(f.Params) < 2 {
			continue
		}
		nImpl++
		obj := f.Params[1]
		fromObj := func(x ssa.Value) bool {
			return flowsFromDeep(x, func(y ssa.Value) bool { return y == ssa.Value(obj) })
		}
		isLibCall := func(x ssa.Value) (*ssa.Call, bool) {
			c, ok := x.(*ssa.Call)
			if !ok {
				return nil, false
			}
			sc := staticCallee(c)
			if sc == nil || sc.Pkg == nil || sc.Pkg.Pkg.Path() != "github.com/gookit/validate" {
				return nil, false
			}
			return c, true
		}
		nr := 0
		eachInstr(f, func(in ssa.Instruction) {
			ret, ok := in.(*ssa.Return)
			if !ok || len(ret.Results) != 1 {
				return
			}
			nr++
			construct := fmt.Sprintf("%s:return#%d", FuncName(f), nr)
			paths, complete := enumPaths(f, ret, 4096)
			if !complete {
				r.Undecided(rule, construct, w.InstrPos(ret), "too many paths")
				return
			}
			bad := ""
			for _, p := range paths {
				rv := resolveAlong(ret.Results[0], p.pred)
				okPath := false
				// the verdict of the library, computed from the value: v.Errors.OneError(), v.ValidateErr(), ...
				if flowsFromDeep(rv, func(y ssa.Value) bool { c, is := isLibCall(y); return is && fromObj(c) }) {
					okPath = true
				}
				// or: the library's Validate() on a validation built from the value was taken as true on this path
				for _, d := range p.decs {
					if c, is := isLibCall(d.Cond); is && d.Truth && strings.Contains(calleeName(c), "Validate") && fromObj(c) {
						okPath = true
					}
				}
				if !okPath && bad == "" {
					bad = fmt.Sprintf("a path (%d blocks) returns %s without the validation library having run on the value", len(p.blocks), shortCanon(canon(rv)))
				}
			}
			r.Check(rule, construct, w.InstrPos(ret), bad == "", map[bool]string{true: "every path to this return either saw validate's Validate() on the bound value succeed or returns the library's own verdict", false: bad + ": a successful bind no longer implies that the value passed validation (rules declared through ConfigValidation / Messages methods or a later-changed tag option are skipped by any home-made 'nothing to check' test)"}[bad == ""])
		})
	}
	r.Exists(rule, "binding.DataValidator implementers", token.NoPos, nImpl >= 1, fmt.Sprintf("%d validator implementation(s) in pkg/binding", nImpl))
}

func ruleC18Err(r *Run) {
	w := r.W
	rule := "C18-ERR"
	r.Floor(rule, 8)
	// the decoder sees the values the caller handed in: DecodeUrlValues passes its own values parameter
	// (not a filtered or rewritten copy) to the decoder, so what was encoded is what is decoded
	if duv := w.FnOpt("binding", "DecodeUrlValues"); duv != nil && len(duv.Params) > 0 {
		nDec := 0
		eachInstr(duv, func(in ssa.Instruction) {
			c, ok := in.(*ssa.Call)
			if !ok || !strings.HasSuffix(calleeName(c), "formam.Decoder).Decode") {
				return
			}
			nDec++
			a := c.Call.Args
			v := a[len(a)-2]
			for {
				if ct, ok := v.(*ssa.ChangeType); ok {
					v = ct.X
					continue
				}
				if cv, ok := v.(*ssa.Convert); ok {
					v = cv.X
					continue
				}
				break
			}
			okRaw := v == ssa.Value(duv.Params[0])
			r.Check(rule, "binding.DecodeUrlValues:decoder input", w.InstrPos(in), okRaw, map[bool]string{true: "the decoder receives the caller's values unchanged", false: "the values are filtered or rewritten before decoding (" + shortCanon(canon(v)) + "): what a client encoded is not what gets bound (e.g. empty list elements or blank fields disappear)"}[okRaw])
		})
		r.Exists(rule, "binding.DecodeUrlValues:decode call", duv.Pos(), nDec >= 1, fmt.Sprintf("%d decoder call(s)", nDec))
	}
	for _, f := range w.Funcs {
		inBinding := f.Pkg != nil && f.Pkg.Pkg.Path() == modPath+"/pkg/binding"
		inCtxBinding := strings.HasSuffix(w.Fset.Position(f.Pos()).Filename, "context_binding.go")
		if !inBinding && !inCtxBinding {
			continue
		}
		n := 0
		eachInstr(f, func(in ssa.Instruction) {
			c, ok := in.(*ssa.Call)
			if !ok {
				return
			}
			var errVals []ssa.Value
			switch t := c.Type().(type) {
			case *types.Tuple:
				for i := 0; i < t.Len(); i++ {
					if isErrorType(t.At(i).Type()) {
						if ex := extractOf(c, i); ex != nil {
							errVals = append(errVals, ex)
						} else {
							errVals = append(errVals, nil)
						}
					}
				}
			default:
				if isErrorType(c.Type()) {
					errVals = append(errVals, c)
				}
			}
			for _, ev := range errVals {
				n++
				used := false
				if ev != nil {
					for _, ref := range *ev.Referrers() {
						if _, isDbg := ref.(*ssa.DebugRef); !isDbg {
							used = true
						}
					}
				}
				name := calleeName(c)
				if name == "" {
					name = "dynamic call"
				}
				r.Check(rule, fmt.Sprintf("%s:error of %s#%d", FuncName(f), name, n), w.InstrPos(in), used, map[bool]string{true: "the error is returned, tested or passed on", false: "an error result is dropped"}[used])
				// a failure is not turned into success: on every path where the error was found non-nil, the
				// function returns an error that comes from it (or another error that is certainly non-nil)
				res := f.Signature.Results()
				if !used || ev == nil || res.Len() == 0 || !isErrorType(res.At(res.Len()-1).Type()) {
					continue
				}
				fps, complete := exploreFrom(in, nil, 3000)
				okProp := complete
				for _, fp := range fps {
					if fp.ret == nil {
						continue
					}
					failed := false
					for _, d := range fp.pc.decs {
						if d.If == nil {
							continue
						}
						if is, pol := nonNilTestP(d.Cond, ev, fp.pc); is && pol == d.Truth {
							failed = true
						}
					}
					if !failed {
						continue
					}
					rv := resolvePhi(fp.ret.Results[len(fp.ret.Results)-1], fp.pc)
					fromErr := flowsFromValue(rv, ev)
					fresh := false
					if cc, isCall := rv.(*ssa.Call); isCall {
						if nm := calleeName(cc); nm == "errors.New" || nm == "fmt.Errorf" {
							fresh = true
						}
					}
					if !fromErr && !fresh {
						okProp = false
					}
				}
				r.Check(rule, fmt.Sprintf("%s:error of %s#%d propagates", FuncName(f), name, n), w.InstrPos(in), okProp, map[bool]string{true: "whenever this error is non-nil the function returns it (or an error built from it)", false: "a path on which this error is non-nil goes on and returns something else: a failed decode/parse is reported as success (the destination may be half-filled)"}[okProp])
			}
		})
		// no panic outside Must*
		if inBinding {
			eachInstr(f, func(in ssa.Instruction) {
				if panicsAt(in) {
					okP := strings.HasPrefix(f.Name(), "Must")
					r.Check(rule, FuncName(f)+":panic", w.InstrPos(in), okP, map[bool]string{true: "panicking variant is named Must*", false: "a binding function that is not a Must* variant panics"}[okP])
				}
			})
		}
	}
	// index / assertion obligations of pkg/binding
	p := newIdxProver(w)
	for _, f := range w.Funcs {
		if f.Pkg == nil || f.Pkg.Pkg.Path() != modPath+"/pkg/binding" {
			continue
		}
		for _, ob := range p.collect(f) {
			if ob.kind == "panic" && strings.HasPrefix(f.Name(), "Must") {
				continue
			}
			r.Check(rule, ob.construct, w.InstrPos(ob.in), ob.ok, ob.kind+": "+ob.detail)
		}
	}
}

// ---------------------------------------------------------------------------
// C19

func firstIntParam(f *ssa.Function) *ssa.Parameter {
	for i, p := range f.Params {
		if i == 0 && f.Signature.Recv() != nil {
			continue
		}
		if b, ok := p.Type().Underlying().(*types.Basic); ok && b.Kind() == types.Int {
			return p
		}
	}
	return nil
}

type helperModel struct {
	w        *World
	ctxT     *types.Named
	respF    *types.Var
	statusOf map[*ssa.Function]*ssa.Parameter // helper -> its status parameter
}

// recordsStatus: instruction records value v as the response status.
func (m *helperModel) recordsStatus(in ssa.Instruction, v ssa.Value, recorders map[*ssa.Function]bool) bool {
	c, ok := in.(*ssa.Call)
	if !ok {
		return false
	}
	cc := c.Common()
	if cc.IsInvoke() && cc.Method.Name() == "WriteHeader" && len(cc.Args) == 1 && cc.Args[0] == v {
		return true
	}
	switch calleeName(c) {
	case "net/http.Error":
		return cc.Args[2] == v
	case "net/http.Redirect":
		return cc.Args[3] == v
	}
	if sc := staticCallee(c); sc != nil {
		switch FuncName(sc) {
		case "(*Context).SetStatus", "(*Context).SetStatusCode", "(*responseWriter).WriteHeader":
			return len(cc.Args) == 2 && cc.Args[1] == v
		}
		if recorders[sc] {
			if sp := m.statusOf[sc]; sp != nil {
				for i, p := range sc.Params {
					if p == sp && i < len(cc.Args) && cc.Args[i] == v {
						return true
					}
				}
			}
		}
	}
	return false
}

func isBodyWrite(in ssa.Instruction, bodyWriters map[*ssa.Function]bool) bool {
	c, ok := in.(*ssa.Call)
	if !ok {
		return false
	}
	cc := c.Common()
	// only writes that go to the response: the response writer is the receiver or an argument
	toResp := false
	for _, a := range callArgs(c) {
		if mi, ok := a.(*ssa.MakeInterface); ok {
			a = mi.X
		}
		if ci, ok := a.(*ssa.ChangeInterface); ok {
			a = ci.X
		}
		t := types.TypeString(a.Type(), nil)
		if t == "net/http.ResponseWriter" || t == "*"+modPath+".responseWriter" {
			toResp = true
		}
	}
	if cc.IsInvoke() {
		switch cc.Method.Name() {
		case "Write", "Render", "WriteString":
			return toResp
		}
		return false
	}
	switch calleeName(c) {
	case "io.Copy", "net/http.ServeContent", "net/http.ServeFile", "io.WriteString", "fmt.Fprintf", "fmt.Fprint":
		return toResp
	}
	if sc := staticCallee(c); sc != nil && bodyWriters[sc] {
		return true
	}
	return false
}

func ruleC19Status(r *Run) {
	w := r.W
	rule := "C19-STATUS"
	r.Floor(rule, 12)
	m := &helperModel{w: w, ctxT: w.Named("rux", "Context"), respF: w.Field("rux", "Context", "Resp"), statusOf: map[*ssa.Function]*ssa.Parameter{}}
	names := []string{"Render", "ShouldRender", "MustRender", "Respond", "HTTPError", "Text", "HTML", "HTMLString", "Blob", "Stream", "JSON", "JSONBytes", "XML", "JSONP", "Binary", "dispositionContent"}
	var helpers []*ssa.Function
	for _, n := range names {
		f := w.FnOpt("rux", "Context."+n)
		if f == nil && n == "dispositionContent" {
			f = dispositionHelper(w) // renamed / turned into a plain function: found by what calls it
		}
		if f == nil && n == "dispositionContent" {
			continue // written in line in Binary / Attachment / Inline (Binary is in the list itself)
		}
		if f == nil {
			f = w.Fn("rux", "Context."+n)
		}
		helpers = append(helpers, f)
		m.statusOf[f] = firstIntParam(f)
	}
	// fixpoint: which helpers record their status parameter on every path before any body write
	recorders := map[*ssa.Function]bool{}
	bodyWriters := map[*ssa.Function]bool{w.Fn("rux", "Context.WriteBytes"): true, w.Fn("rux", "Context.WriteString"): true}
	for changed := true; changed; {
		changed = false
		for _, f := range helpers {
			sp := m.statusOf[f]
			if sp == nil || recorders[f] {
				continue
			}
			rec := callsIn(f, func(c ssa.CallInstruction) bool { return m.recordsStatus(c.(ssa.Instruction), sp, recorders) })
			if len(rec) == 0 {
				continue
			}
			allOK := true
			eachInstr(f, func(in ssa.Instruction) {
				if isBodyWrite(in, bodyWriters) {
					dom := false
					for _, rc := range rec {
						if dominates(rc, in) || rc.(ssa.Instruction) == in {
							dom = true
						}
					}
					if !dom {
						allOK = false
					}
				}
			})
			if allOK {
				recorders[f] = true
				changed = true
			}
		}
		for _, f := range helpers {
			if bodyWriters[f] {
				continue
			}
			hasBody := false
			eachInstr(f, func(in ssa.Instruction) {
				if isBodyWrite(in, bodyWriters) {
					hasBody = true
				}
			})
			if hasBody {
				bodyWriters[f] = true
				changed = true
			}
		}
	}
	for _, f := range helpers {
		sp := m.statusOf[f]
		if sp == nil {
			r.Check(rule, FuncName(f), f.Pos(), false, "the helper has no status parameter any more")
			continue
		}
		r.Check(rule, FuncName(f), f.Pos(), recorders[f], map[bool]string{true: "records exactly its status argument (" + sp.Name() + ") before any body write, directly or through a helper that does", false: "a body-writing call is not dominated by a call recording the helper's own status argument: the client sees another status (200) than the one given"}[recorders[f]])
	}
	// special helpers
	nc := w.Fn("rux", "Context.NoContent")
	okNC := false
	eachInstr(nc, func(in ssa.Instruction) {
		if c, ok := in.(*ssa.Call); ok && c.Call.IsInvoke() && c.Call.Method.Name() == "WriteHeader" {
			if v, okc := constInt(c.Call.Args[0]); okc && v == 204 {
				okNC = true
			}
		}
	})
	r.Check(rule, "(*Context).NoContent", nc.Pos(), okNC, "NoContent records 204")
	rd := w.Fn("rux", "Context.Redirect")
	okRD := false
	for _, c := range callsToName(rd, "net/http.Redirect") {
		code := c.Common().Args[3]
		var leaves []ssa.Value
		if ph, ok := code.(*ssa.Phi); ok {
			leaves = ph.Edges
		} else {
			leaves = []ssa.Value{code}
		}
		fromArg, def := false, false
		for _, lf := range leaves {
			if v, okc := constInt(lf); okc && v == 301 {
				def = true
			} else if flowsFromValue(lf, rd.Params[len(rd.Params)-1]) {
				fromArg = true
				if flowsFromConstInt(lf, 301) {
					def = true // e.g. FirstOr(optionalCode, 301)
				}
			}
		}
		okRD = fromArg && def && isLoadOfField(c.Common().Args[0], m.respF)
	}
	r.Check(rule, "(*Context).Redirect", rd.Pos(), okRD, "Redirect passes the caller's code (default 301) to http.Redirect on c.Resp")
}

func flowsFromValue(v ssa.Value, src ssa.Value) bool {
	return flowsFrom(v, func(x ssa.Value) bool {
		if x == src {
			return true
		}
		if ld, ok := x.(*ssa.UnOp); ok {
			if ia, ok := ld.X.(*ssa.IndexAddr); ok && ia.X == src {
				return true
			}
		}
		return false
	})
}

func httpctypeConst(w *World, name string) (string, bool) {
	for _, p := range w.Pkgs {
		for path, imp := range p.Imports {
			if strings.HasSuffix(path, "netutil/httpctype") {
				if o := imp.Types.Scope().Lookup(name); o != nil {
					if c, ok := o.(*types.Const); ok {
						return strings.Trim(c.Val().ExactString(), `"`), true
					}
				}
			}
		}
	}
	return "", false
}

func ruleC19CType(r *Run) {
	w := r.W
	rule := "C19-CTYPE"
	r.Floor(rule, 7)
	blob := w.Fn("rux", "Context.Blob")
	// Blob sets the header from its contentType parameter
	respond := w.Fn("rux", "Context.Respond")
	table := []struct{ helper, constName string }{{"Text", "Text"}, {"HTML", "HTML"}, {"HTMLString", "HTML"}, {"JSONBytes", "JSON"}}
	for _, t := range table {
		f := w.Fn("rux", "Context."+t.helper)
		want, okc := httpctypeConst(w, t.constName)
		ok := false
		got := ""
		for _, c := range callsToFn(f, blob) {
			if s, oks := constString(c.Common().Args[2]); oks {
				got = s
				ok = okc && s == want
			}
		}
		// or the helper delegates to a sibling of the same content type (HTMLString -> HTML), handing its argument over
		delegated := false
		if !ok {
			for _, t2 := range table {
				if t2.helper == t.helper || t2.constName != t.constName {
					continue
				}
				g := w.FnOpt("rux", "Context."+t2.helper)
				if g == nil {
					continue
				}
				for _, c := range callsToFn(f, g) {
					a := c.Common().Args
					d := a[len(a)-1]
					for {
						if cv, isCv := d.(*ssa.Convert); isCv {
							d = cv.X
							continue
						}
						break
					}
					for _, prm := range f.Params[1:] {
						if d == ssa.Value(prm) {
							delegated = true
						}
					}
				}
			}
		}
		if delegated {
			r.Check(rule, FuncName(f), f.Pos(), true, fmt.Sprintf("delegates to a sibling helper of the same content type (httpctype.%s), handing its own argument over", t.constName))
			r.Check(rule, FuncName(f)+":body is the argument", f.Pos(), true, "the sibling receives the helper's own argument (converted at most)")
			continue
		}
		r.Check(rule, FuncName(f), f.Pos(), ok, fmt.Sprintf("content type passed to Blob: %q (documented: httpctype.%s = %q)", got, t.constName, want))
		// ... and the body is the helper's own argument, converted at most: not a formatted / rewritten version of it
		okBody := false
		what := "?"
		for _, c := range callsToFn(f, blob) {
			d := c.Common().Args[3]
			for {
				if cv, isCv := d.(*ssa.Convert); isCv {
					d = cv.X
					continue
				}
				if ct, isCT := d.(*ssa.ChangeType); isCT {
					d = ct.X
					continue
				}
				break
			}
			what = shortCanon(canon(d))
			for _, prm := range f.Params[1:] {
				if d == ssa.Value(prm) {
					okBody = true
				}
			}
		}
		r.Check(rule, FuncName(f)+":body is the argument", f.Pos(), okBody, map[bool]string{true: "the bytes handed to Blob are the helper's own argument (converted at most)", false: "the body handed to Blob is not the helper's argument itself (" + what + "): a text that is formatted or rewritten on the way (fmt.Sprintf with the text as format, escaping, trimming) does not come out as it was given"}[okBody])
	}
	// Blob: header set from the parameter under the Content-Type key
	okBlob := false
	for _, c := range callsToName(blob, "(net/http.Header).Set") {
		k, _ := constString(c.Common().Args[1])
		if k == "Content-Type" && c.Common().Args[2] == ssa.Value(blob.Params[2]) {
			okBlob = true
		}
	}
	// or through the context's own SetHeader(key, value), which is Resp.Header().Set(key, value)
	if sh := w.FnOpt("rux", "Context.SetHeader"); sh != nil && len(sh.Params) == 3 {
		forwards := false
		for _, c := range callsToName(sh, "(net/http.Header).Set") {
			a := c.Common().Args
			if a[1] == ssa.Value(sh.Params[1]) && a[2] == ssa.Value(sh.Params[2]) {
				forwards = true
			}
		}
		for _, c := range callsToFn(blob, sh) {
			k, _ := constString(c.Common().Args[1])
			if forwards && k == "Content-Type" && c.Common().Args[2] == ssa.Value(blob.Params[2]) {
				okBlob = true
			}
		}
	}
	r.Check(rule, "(*Context).Blob:header", blob.Pos(), okBlob, "Blob sets Content-Type to its contentType argument")
	// renderer-based helpers: helper -> renderer type -> constant in Render
	rt := []struct{ helper, renderer, constName string }{{"JSON", "JSONRenderer", "JSON"}, {"JSONP", "JSONPRenderer", "JSONP"}, {"XML", "XMLRenderer", "XML"}}
	wct := w.Fn("render", "writeContentType")
	for _, t := range rt {
		f := w.Fn("rux", "Context."+t.helper)
		okR := false
		for _, c := range callsToFn(f, respond) {
			a := c.Common().Args[3]
			if mi, ok := a.(*ssa.MakeInterface); ok {
				if strings.HasSuffix(types.TypeString(mi.X.Type(), nil), "render."+t.renderer) {
					okR = true
				}
			}
		}
		rf := w.Fn("render", t.renderer+".Render")
		want, okc := httpctypeConst(w, t.constName)
		okC := false
		got := ""
		for _, c := range callsToFn(rf, wct) {
			if s, oks := constString(c.Common().Args[1]); oks {
				got = s
				okC = okc && s == want
			}
		}
		r.Check(rule, FuncName(f), f.Pos(), okR && okC, fmt.Sprintf("responds through render.%s whose Render writes %q (documented: httpctype.%s = %q)", t.renderer, got, t.constName, want))
	}
	// Binary / Attachment / Inline -> dispositionContent sets Binary
	dc := w.FnOpt("rux", "Context.dispositionContent")
	if dc == nil {
		dc = dispositionHelper(w)
	}
	want, _ := httpctypeConst(w, "Binary")
	keyC, _ := httpctypeConst(w, "Key")
	setsBinary := func(g *ssa.Function) bool {
		for _, c := range callsToName(g, "(net/http.Header).Set") {
			k, _ := constString(c.Common().Args[1])
			v, _ := constString(c.Common().Args[2])
			if k == keyC && v == want {
				return true
			}
		}
		return false
	}
	if dc != nil {
		r.Check(rule, "(*Context).dispositionContent", dc.Pos(), setsBinary(dc), fmt.Sprintf("Binary/Attachment/Inline set Content-Type %q", want))
		for _, n := range []string{"Binary", "Attachment", "Inline"} {
			f := w.Fn("rux", "Context."+n)
			r.Check(rule, FuncName(f), f.Pos(), len(callsToFn(f, dc)) == 1, "goes through dispositionContent")
		}
	} else {
		// the shared writer was written in line (or is a helper the normalisation inlined): each of the three sets the type itself
		for _, n := range []string{"Binary", "Attachment", "Inline"} {
			f := w.Fn("rux", "Context."+n)
			r.Check(rule, FuncName(f), f.Pos(), setsBinary(f), fmt.Sprintf("sets Content-Type %q itself", want))
		}
	}
}

func ruleC19NoOverride(r *Run) {
	w := r.W
	rule := "C19-NOOVERRIDE"
	r.Floor(rule, 5)
	wct := w.Fn("render", "writeContentType")
	for _, f := range w.Funcs {
		if f.Pkg == nil && f.Parent() == nil {
			continue
		}
		root := f
		for root.Parent() != nil {
			root = root.Parent()
		}
		if root.Pkg == nil || root.Pkg.Pkg.Path() != modPath+"/pkg/render" {
			continue
		}
		n := 0
		eachInstr(f, func(in ssa.Instruction) {
			isCT := false
			switch x := in.(type) {
			case *ssa.Call:
				nm := calleeName(x)
				if nm == "(net/http.Header).Set" || nm == "(net/http.Header).Add" {
					if k, ok := constString(x.Call.Args[1]); ok && strings.EqualFold(k, "Content-Type") {
						isCT = true
					}
				}
			case *ssa.MapUpdate:
				if k, ok := constString(x.Key); ok && strings.EqualFold(k, "Content-Type") {
					isCT = true
				}
			}
			// taking the type away is overriding it too: a caller's choice must survive, also on the error path
			if c, ok := in.(*ssa.Call); ok {
				k, isK := "", false
				if nm := calleeName(c); nm == "(net/http.Header).Del" && len(c.Call.Args) > 1 {
					k, isK = constString(c.Call.Args[1])
				} else if isBuiltin(c, "delete") && len(c.Call.Args) > 1 {
					k, isK = constString(c.Call.Args[1])
				}
				if isK && strings.EqualFold(k, "Content-Type") {
					n++
					r.Check(rule, fmt.Sprintf("%s:removes Content-Type#%d", FuncName(f), n), w.InstrPos(in), false, "a renderer removes the Content-Type header without knowing who set it: a type the caller chose before calling the helper is lost (e.g. on an encoding failure)")
					return
				}
			}
			if !isCT {
				return
			}
			n++
			okW := f == wct
			guarded := false
			if okW {
				guarded = factHolds(in, func(cond ssa.Value, truth bool) bool {
					b, ok := cond.(*ssa.BinOp)
					if !ok {
						return false
					}
					// "no Content-Type present": len(h["Content-Type"]) == 0, len(h.Values("Content-Type")) == 0, h.Get("Content-Type") == ""
					if gc, isCall := b.X.(*ssa.Call); isCall && calleeName(gc) == "(net/http.Header).Get" {
						k, okc := constString(gc.Call.Args[1])
						sv, oks := constString(b.Y)
						return okc && oks && sv == "" && strings.EqualFold(k, "Content-Type") && ((b.Op == token.EQL && truth) || (b.Op == token.NEQ && !truth))
					}
					call, ok := b.X.(*ssa.Call)
					if !ok || !isBuiltin(call, "len") {
						return false
					}
					k, okc := "", false
					switch lk := call.Call.Args[0].(type) {
					case *ssa.Lookup:
						k, okc = constString(lk.Index)
					case *ssa.Call:
						if calleeName(lk) == "(net/http.Header).Values" {
							k, okc = constString(lk.Call.Args[1])
						}
					}
					c, okn := constInt(b.Y)
					if !okc || !okn || !strings.EqualFold(k, "Content-Type") {
						return false
					}
					op := b.Op
					if !truth {
						op = negOp(op)
					}
					return (op == token.EQL && c == 0) || (op == token.LEQ && c == 0) || (op == token.LSS && c == 1)
				})
			}
			r.Check(rule, fmt.Sprintf("%s:sets Content-Type#%d", FuncName(f), n), w.InstrPos(in), okW && guarded, map[bool]string{true: "the content type is written only when none is present", false: "a renderer sets Content-Type unconditionally (or outside writeContentType): a type chosen by the caller is overridden"}[okW && guarded])
		})
	}
	// every Render method calls writeContentType before writing
	rendT := w.Named("render", "Renderer").Underlying().(*types.Interface)
	for _, f := range w.Funcs {
		recv := f.Signature.Recv()
		if recv == nil || f.Name() != "Render" || f.Pkg == nil || f.Pkg.Pkg.Path() != modPath+"/pkg/render" || f.Synthetic != "" {
			continue
		}
		if !types.Implements(recv.Type(), rendT) && !types.Implements(types.NewPointer(recv.Type()), rendT) {
			continue
		}
		if strings.Contains(FuncName(f), "RendererFunc") {
			continue
		}
		calls := callsToFn(f, wct)
		ok := len(calls) >= 1
		eachInstr(f, func(in ssa.Instruction) {
			c, isCall := in.(*ssa.Call)
			if !isCall {
				return
			}
			writes := (c.Call.IsInvoke() && c.Call.Method.Name() == "Write") || strings.HasSuffix(calleeName(c), ".Encode")
			if writes {
				dom := false
				for _, wc := range calls {
					if dominates(wc, in) {
						dom = true
					}
				}
				if !dom {
					ok = false
				}
			}
		})
		r.Check(rule, FuncName(f), f.Pos(), ok, map[bool]string{true: "writeContentType runs before the renderer writes", false: "the renderer writes before (or without) deciding the content type"}[ok])
	}
	blob := w.Fn("render", "Blob")
	r.Check(rule, "render.Blob", blob.Pos(), len(callsToFn(blob, wct)) == 1, "render.Blob goes through writeContentType")
}

// C19-ARMS: every arm of the Accept negotiation that names a supported type produces a response.
func ruleC19Arms(r *Run) {
	w := r.W
	rule := "C19-ARMS"
	r.Floor(rule, 5)
	auto := w.Fn("render", "Auto")
	// the arms: comparisons of the accepted type with a MIME constant. From the edge on which the comparison holds,
	// every path must END the negotiation with an outcome (a return) — it may neither go on to the next accepted
	// type nor reach the "not supported" error. Decided on paths, so it does not matter whether an arm renders in
	// place, sets a flag that the code after the switch tests, or selects a renderer function that is called later.
	type arm struct {
		iff  *ssa.If
		cond ssa.Value
		eq   bool
		name string
		acc  ssa.Instruction
	}
	var arms []arm
	for _, b := range auto.Blocks {
		if len(b.Instrs) == 0 {
			continue
		}
		iff, ok := b.Instrs[len(b.Instrs)-1].(*ssa.If)
		if !ok {
			continue
		}
		c0, _ := stripNot(iff.Cond)
		bo, ok := c0.(*ssa.BinOp)
		if !ok || (bo.Op != token.EQL && bo.Op != token.NEQ) {
			continue
		}
		for _, side := range [][2]ssa.Value{{bo.X, bo.Y}, {bo.Y, bo.X}} {
			k, okc := constString(side[1])
			if !okc || !strings.Contains(k, "/") {
				continue
			}
			acc, isIn := side[0].(ssa.Instruction)
			if !isIn || !inLoop(acc) {
				continue
			}
			arms = append(arms, arm{iff, c0, bo.Op == token.EQL, k, acc})
		}
	}
	allOK := true
	names := map[string]bool{}
	for _, a := range arms {
		names[a.name] = true
		fps, complete := exploreFromUntil(a.iff, []condFact{{a.cond, a.eq}}, 3000, func(x ssa.Instruction) bool { return x == a.acc })
		bad := ""
		if !complete {
			bad = "too many paths"
		}
		for _, fp := range fps {
			if bad != "" {
				break
			}
			for _, x := range fp.instrs {
				if x == a.acc {
					bad = "a path from this arm goes on to the next accepted type: the arm produced no outcome (Go cases do not fall through), or the scan does not stop at the first supported type"
					break
				}
				if c, isCall := x.(*ssa.Call); isCall {
					if n := calleeName(c); n == "errors.New" || n == "fmt.Errorf" {
						bad = "a path from this arm ends in the 'not supported' error although the type is listed as supported"
						break
					}
				}
			}
		}
		if bad != "" {
			allOK = false
		}
		r.Check(rule, "render.Auto:case "+a.name, w.InstrPos(a.iff), bad == "", map[bool]string{true: "every path on which the accepted type equals this constant ends the negotiation with an outcome", false: bad}[bad == ""])
	}
	// the list that is compared: the library's parser, or — when the module parses the header itself — elements that
	// are trimmed LAST (after the ";q=..." parameters were cut off: "a/b ;q=1" must not keep its blank)
	for _, a := range arms {
		ld, isLd := a.acc.(*ssa.UnOp)
		if !isLd {
			continue
		}
		ia, isIA := ld.X.(*ssa.IndexAddr)
		if !isIA {
			continue
		}
		var appends []*ssa.Call
		external := false
		flowsFromDeep(ia.X, func(y ssa.Value) bool {
			if c, ok := y.(*ssa.Call); ok {
				if isBuiltin(c, "append") {
					appends = append(appends, c)
				} else if sc := staticCallee(c); sc != nil && !w.InModule(sc) && isSliceType(c.Type()) {
					external = true
				}
			}
			return false
		})
		bad := ""
		for _, ap := range appends {
			if len(ap.Call.Args) < 2 {
				continue
			}
			for _, el := range litElems(ap.Call.Args[1]) {
				for _, lf := range valueLeaves(el) {
					switch x := lf.(type) {
					case *ssa.Const:
					case *ssa.UnOp:
						// a configured fallback type (package variable)
						if _, isG := x.X.(*ssa.Global); !isG {
							bad = shortCanon(canon(lf))
						}
					case *ssa.Call:
						if calleeName(x) != "strings.TrimSpace" {
							bad = shortCanon(canon(lf))
						}
					default:
						bad = shortCanon(canon(lf))
					}
				}
			}
		}
		if len(appends) > 0 || external {
			r.Check(rule, "render.Auto:accepted types are trimmed", w.InstrPos(a.iff), bad == "", map[bool]string{true: "the accepted types come from the library parser, or every element the module's own parser collects is the result of strings.TrimSpace (constants and the configured fallback aside)", false: "the module parses the Accept header itself and collects an element (" + bad + ") that is not trimmed after its parameters were cut: \"application/xml ;q=0.9\" keeps a trailing blank, matches no MIME constant and a supported type is skipped or refused"}[bad == ""])
		}
		break
	}
	r.Exists(rule, "render.Auto:supported types", auto.Pos(), len(names) >= 4, fmt.Sprintf("%d MIME constants are compared with the accepted type", len(names)))
	r.Check(rule, "render.Auto:first supported type wins", auto.Pos(), allOK && len(arms) > 0, "no arm lets the loop over the Accept list continue: the first supported type decides")
}

// C19-JSONP: the JSONP renderer frames the encoded value as callback( ... );
func ruleC19JSONP(r *Run) {
	w := r.W
	rule := "C19-JSONP"
	r.Floor(rule, 2)
	f := w.Fn("render", "JSONPRenderer.Render")
	var open, enc, closeW ssa.Instruction
	eachInstr(f, func(in ssa.Instruction) {
		c, ok := in.(*ssa.Call)
		if !ok {
			return
		}
		if strings.HasSuffix(calleeName(c), "json.Encoder).Encode") {
			enc = in
		}
		if c.Call.IsInvoke() && c.Call.Method.Name() == "Write" {
			arg := c.Call.Args[0]
			if cv, ok := arg.(*ssa.Convert); ok {
				arg = cv.X
			}
			if b, ok := arg.(*ssa.BinOp); ok && b.Op == token.ADD {
				if s, okc := constString(b.Y); okc && s == "(" && strings.HasSuffix(canon(b.X), ".Callback") {
					open = in
				}
			}
			if s, okc := constString(arg); okc && s == ");" {
				closeW = in
			}
		}
	})
	ok := open != nil && enc != nil && closeW != nil && dominates(open, enc) && dominates(enc, closeW)
	r.Check(rule, "(render.JSONPRenderer).Render:framing", f.Pos(), ok, map[bool]string{true: "writes Callback + \"(\", then the JSON encoding, then \");\" in that order", false: "the JSONP body is not framed as callback( <json> );"}[ok])
	// the value encoded is the object given
	okObj := false
	if enc != nil {
		a := enc.(*ssa.Call).Call.Args
		okObj = len(a) == 2 && a[1] == ssa.Value(f.Params[2])
	}
	r.Check(rule, "(render.JSONPRenderer).Render:value", f.Pos(), okObj, "the encoded value is the object passed to the renderer")
}

func ruleC19Err(r *Run) {
	w := r.W
	rule := "C19-ERR"
	r.Floor(rule, 6)
	addErr := w.Fn("rux", "Context.AddError")
	for _, f := range w.Funcs {
		file := w.Fset.Position(f.Pos()).Filename
		inRender := f.Pkg != nil && f.Pkg.Pkg.Path() == modPath+"/pkg/render"
		if !inRender && !strings.HasSuffix(file, "context_render.go") {
			continue
		}
		n := 0
		eachInstr(f, func(in ssa.Instruction) {
			c, ok := in.(*ssa.Call)
			if !ok {
				return
			}
			name := calleeName(c)
			relevant := strings.HasSuffix(name, ".Render") || strings.HasSuffix(name, ".Encode") || name == "io.Copy" || name == "encoding/json.Marshal" ||
				(c.Call.IsInvoke() && (c.Call.Method.Name() == "Render" || c.Call.Method.Name() == "Write"))
			if sc := staticCallee(c); sc != nil && inRender && w.InModule(sc) && sc.Signature.Results().Len() == 1 && isErrorType(sc.Signature.Results().At(0).Type()) {
				relevant = true
			}
			if !relevant {
				return
			}
			var ev ssa.Value
			switch t := c.Type().(type) {
			case *types.Tuple:
				for i := 0; i < t.Len(); i++ {
					if isErrorType(t.At(i).Type()) {
						ev = extractOf(c, i)
						n++
						r.Check(rule, fmt.Sprintf("%s:error of %s#%d", FuncName(f), name, n), w.InstrPos(in), ev != nil && errUsed(ev, addErr), "the error is returned, tested or recorded through AddError")
					}
				}
			default:
				if isErrorType(c.Type()) {
					n++
					r.Check(rule, fmt.Sprintf("%s:error of %s#%d", FuncName(f), name, n), w.InstrPos(in), errUsed(c, addErr), "the error is returned, tested or recorded through AddError")
				}
			}
		})
	}
}

func errUsed(ev ssa.Value, addErr *ssa.Function) bool {
	for _, ref := range *ev.Referrers() {
		switch x := ref.(type) {
		case *ssa.DebugRef:
			continue
		case *ssa.Return, *ssa.BinOp, *ssa.Phi, *ssa.Store, *ssa.Panic, *ssa.MakeInterface:
			return true
		case *ssa.Call:
			_ = x
			return true
		}
	}
	return false
}

// ---------------------------------------------------------------------------
// C20

func ruleC20Auth(r *Run) {
	w := r.W
	rule := "C20-AUTH"
	r.Floor(rule, 16)
	ba := w.Fn("handlers", "HTTPBasicAuth")
	if len(ba.AnonFuncs) != 1 {
		r.Undecided(rule, "handlers.HTTPBasicAuth:closure", ba.Pos(), "expected one handler closure")
		return
	}
	cl := ba.AnonFuncs[0]
	aws := w.Fn("rux", "Context.AbortWithStatus")
	next := w.Fn("rux", "Context.Next")
	setHeader := w.Fn("rux", "Context.SetHeader")
	// atoms
	var okAtom, foundAtom ssa.Value
	var userV, pwdV ssa.Value
	eachInstr(cl, func(in ssa.Instruction) {
		if c, ok := in.(*ssa.Call); ok && calleeName(c) == "(*net/http.Request).BasicAuth" {
			okAtom = extractOf(c, 2)
			userV, pwdV = extractOf(c, 0), extractOf(c, 1)
		}
	})
	var accounts ssa.Value
	var srcPwd ssa.Value
	eachInstr(cl, func(in ssa.Instruction) {
		if lk, ok := in.(*ssa.Lookup); ok && lk.CommaOk && lk.Index == userV {
			foundAtom = extractOf(lk, 1)
			srcPwd = extractOf(lk, 0)
			accounts = lk.X
		}
	})
	if okAtom == nil || foundAtom == nil {
		r.Undecided(rule, "handlers.HTTPBasicAuth:atoms", cl.Pos(), "BasicAuth() result or the comma-ok account lookup keyed by the user name was not found")
		return
	}
	atomOf := func(cond ssa.Value) (string, bool) { // name, polarity (cond true means atom true)
		if cond == okAtom {
			return "ok", true
		}
		if cond == foundAtom {
			return "found", true
		}
		if is, pol := nonEmptyTest(cond, accounts); is {
			return "hasAccounts", pol
		}
		if b, ok := cond.(*ssa.BinOp); ok && ((b.X == srcPwd && b.Y == pwdV) || (b.X == pwdV && b.Y == srcPwd)) {
			if b.Op == token.EQL {
				return "same", true
			}
			if b.Op == token.NEQ {
				return "same", false
			}
		}
		return "", false
	}
	paths, complete := enumPaths(cl, nil, 4096)
	if !complete {
		r.Undecided(rule, "handlers.HTTPBasicAuth:paths", cl.Pos(), "too many paths")
		return
	}
	type pinfo struct {
		val     map[string]bool
		effect  string
		chall   bool
		next    bool
		unknown string
	}
	var infos []pinfo
	for _, p := range paths {
		pi := pinfo{val: map[string]bool{}, effect: "pass"}
		infeasible := false
		for _, d := range p.decs {
			cond, truth := d.Cond, d.Truth
			// a condition merged through a phi (a && b written in a helper): what it is on this path
			if rc := resolveAlong(cond, p.pred); rc != cond {
				c2, pos := stripNot(rc)
				cond, truth = c2, truth == pos
				if k, isK := cond.(*ssa.Const); isK && k.Value != nil && k.Value.Kind() == constant.Bool {
					if constant.BoolVal(k.Value) != truth {
						infeasible = true
					}
					continue
				}
			}
			a, pol := atomOf(cond)
			if a == "" {
				pi.unknown = "decision on something other than the four atoms: " + d.Cond.String()
				continue
			}
			pi.val[a] = truth == pol
		}
		if infeasible {
			continue
		}
		challengeSeen := false
		for _, b := range p.blocks {
			for _, in := range b.Instrs {
				c, ok := in.(*ssa.Call)
				if !ok {
					continue
				}
				switch staticCallee(c) {
				case setHeader:
					if k, okc := constString(c.Call.Args[1]); okc && k == "WWW-Authenticate" {
						challengeSeen = true
					}
				case aws:
					code, _ := constInt(c.Call.Args[1])
					pi.effect = fmt.Sprintf("abort-%d", code)
					if code == 401 {
						pi.chall = challengeSeen
					}
				case next:
					pi.next = true
				}
				if sc := staticCallee(c); sc != nil && (sc.Name() == "Abort" || sc.Name() == "AbortThen") {
					pi.effect = "abort-nostatus"
				}
			}
		}
		infos = append(infos, pi)
	}
	atoms := []string{"ok", "hasAccounts", "found", "same"}
	for v := 0; v < 16; v++ {
		val := map[string]bool{}
		var desc []string
		for i, a := range atoms {
			val[a] = v&(1<<i) != 0
			desc = append(desc, fmt.Sprintf("%s=%v", a, val[a]))
		}
		effects := map[string]bool{}
		chall := true
		nextOnAbort := false
		unknown := ""
		for _, pi := range infos {
			consistent := true
			for a, tv := range pi.val {
				if val[a] != tv {
					consistent = false
				}
			}
			if !consistent {
				continue
			}
			if pi.unknown != "" {
				unknown = pi.unknown
			}
			effects[pi.effect] = true
			if pi.effect == "abort-401" && !pi.chall {
				chall = false
			}
			if pi.effect != "pass" && pi.next {
				nextOnAbort = true
			}
		}
		want := "pass"
		if !val["ok"] {
			want = "abort-401"
		} else if val["hasAccounts"] && !(val["found"] && val["same"]) {
			want = "abort-403"
		}
		var es []string
		for e := range effects {
			es = append(es, e)
		}
		sort.Strings(es)
		ok := len(es) == 1 && es[0] == want && chall && !nextOnAbort && unknown == ""
		detail := fmt.Sprintf("expected %s, code: %v", want, es)
		if want == "abort-401" {
			detail += fmt.Sprintf(" (challenge header first: %v)", chall)
		}
		if unknown != "" {
			detail += "; " + unknown
		}
		r.Check(rule, "handlers.HTTPBasicAuth:"+strings.Join(desc, ","), cl.Pos(), ok, detail)
	}
}

func ruleC20Override(r *Run) {
	w := r.W
	rule := "C20-OVERRIDE"
	r.Floor(rule, 5)
	ho := w.Fn("handlers", "HTTPMethodOverrideHandler")
	if len(ho.AnonFuncs) != 1 {
		r.Undecided(rule, "handlers.HTTPMethodOverrideHandler:closure", ho.Pos(), "expected one closure")
		return
	}
	cl := ho.AnonFuncs[0]
	req := ssa.Value(cl.Params[1])
	isMethodAddr := func(v ssa.Value) bool {
		fa, ok := v.(*ssa.FieldAddr)
		return ok && fieldName(fa.X.Type(), fa.Field) == "Method" && strings.HasSuffix(types.TypeString(fa.X.Type(), nil), "net/http.Request")
	}
	var stores []*ssa.Store
	eachInstr(cl, func(in ssa.Instruction) {
		if st, ok := in.(*ssa.Store); ok && isMethodAddr(st.Addr) {
			stores = append(stores, st)
		}
	})
	r.Check(rule, "handlers.HTTPMethodOverrideHandler:method stores", cl.Pos(), len(stores) == 1, fmt.Sprintf("%d store(s) to Request.Method", len(stores)))
	origKey := w.Const("handlers", "OriginalMethodContextKey")
	_ = origKey
	for i, st := range stores {
		paths, complete := enumPaths(cl, st, 4096)
		if !complete {
			r.Undecided(rule, "paths", cl.Pos(), "too many paths")
			return
		}
		okPost, okSet := true, true
		consts := map[string]bool{}
		for _, p := range paths {
			post := false
			member := false
			for _, d := range p.decs {
				b, ok := d.Cond.(*ssa.BinOp)
				if !ok || (b.Op != token.EQL && b.Op != token.NEQ) {
					continue
				}
				s, okc := constString(b.Y)
				if !okc || s == "" {
					continue
				}
				if ld, isLd := b.X.(*ssa.UnOp); isLd && isMethodAddr(ld.X) {
					if s == "POST" && d.Truth == (b.Op == token.EQL) {
						post = true
					}
					continue
				}
				if b.Op != token.EQL {
					continue
				}
				// comparison on the override value (must be the stored value)
				if resolvePhi(b.X, p) == resolvePhi(st.Val, p) || b.X == st.Val {
					consts[s] = true
					if d.Truth {
						member = true
					}
				}
			}
			if !post {
				okPost = false
			}
			if !member {
				okSet = false
			}
		}
		var cs []string
		for c := range consts {
			cs = append(cs, c)
		}
		sort.Strings(cs)
		r.Check(rule, fmt.Sprintf("handlers.HTTPMethodOverrideHandler:store#%d only for POST", i+1), w.InstrPos(st), okPost, map[bool]string{true: "the method is rewritten only when the request method is POST", false: "the method can be rewritten for requests that are not POST"}[okPost])
		r.Check(rule, fmt.Sprintf("handlers.HTTPMethodOverrideHandler:store#%d whitelist", i+1), w.InstrPos(st), okSet && strings.Join(cs, ",") == "DELETE,PATCH,PUT", fmt.Sprintf("the stored value was compared equal to one of %v (expected exactly DELETE, PATCH, PUT)", cs))
		// the stored value is ToUpper of the form value or, when empty, the header
		okSrc := true
		var walk func(v ssa.Value, upper bool, depth int)
		seenLeaf := map[string]bool{}
		walk = func(v ssa.Value, upper bool, depth int) {
			if depth > 6 {
				return
			}
			switch x := v.(type) {
			case *ssa.Phi:
				for _, e := range x.Edges {
					walk(e, upper, depth+1)
				}
			case *ssa.Call:
				switch calleeName(x) {
				case "strings.ToUpper":
					walk(x.Call.Args[0], true, depth+1)
				case "(*net/http.Request).FormValue":
					k, _ := constString(x.Call.Args[1])
					seenLeaf["form:"+k] = true
				case "(net/http.Header).Get":
					k, _ := constString(x.Call.Args[1])
					seenLeaf["header:"+k] = true
				default:
					okSrc = false
				}
			case *ssa.Const:
				// the "no override" alternative of a merged result: the empty string never passes the whitelist
				if sv, isC := constString(x); !isC || sv != "" {
					okSrc = false
				}
			default:
				okSrc = false
			}
		}
		walk(st.Val, false, 0)
		okSrc = okSrc && seenLeaf["form:_method"] && seenLeaf["header:X-HTTP-Method-Override"]
		// every alternative of the stored value is upper-cased, except where it is known to be empty
		// (an empty value never passes the whitelist): the comparison is case-insensitive for both carriers
		rawWhy := ""
		phiLeavesA(st.Val, st, func(leaf ssa.Value, fact factOracle, aliases []ssa.Value) {
			c, isCall := leaf.(*ssa.Call)
			if isCall && calleeName(c) == "strings.ToUpper" {
				return
			}
			if sv, isC := constString(leaf); isC && sv == "" {
				return
			}
			isEmpty := func(cond ssa.Value, truth bool) bool {
				b, ok := cond.(*ssa.BinOp)
				if !ok || (b.Op != token.EQL && b.Op != token.NEQ) {
					return false
				}
				sv, okc := constString(b.Y)
				if !okc || sv != "" {
					return false
				}
				subj := b.X == leaf
				for _, al := range aliases {
					if b.X == al {
						subj = true
					}
				}
				return subj && truth == (b.Op == token.EQL)
			}
			if !fact(isEmpty) {
				okSrc = false
				rawWhy = "; " + shortCanon(canon(leaf)) + " reaches the comparison without strings.ToUpper"
			}
		})
		// upper-casing happens before the comparison: the compared value is (a phi of) ToUpper results / empty strings
		upperOK := flowsFrom(st.Val, func(v ssa.Value) bool {
			c, ok := v.(*ssa.Call)
			return ok && calleeName(c) == "strings.ToUpper"
		})
		r.Check(rule, fmt.Sprintf("handlers.HTTPMethodOverrideHandler:store#%d source", i+1), w.InstrPos(st), okSrc && upperOK, "the new method is the upper-cased _method form value or, when that is empty, the upper-cased X-HTTP-Method-Override header"+rawWhy)
		// the original method is recorded on the same path
		rec := false
		eachInstr(cl, func(in ssa.Instruction) {
			c, ok := in.(*ssa.Call)
			if !ok || calleeName(c) != "context.WithValue" {
				return
			}
			v := c.Call.Args[2]
			if mi, ok := v.(*ssa.MakeInterface); ok {
				v = mi.X
			}
			k := c.Call.Args[1]
			if mi, ok := k.(*ssa.MakeInterface); ok {
				k = mi.X
			}
			if s, okc := constString(v); okc && s == "POST" {
				if ks, okk := constString(k); okk && ks == "originalMethod" && (dominates(st, in) || dominates(in, st)) && in.Block() == st.Block() {
					rec = true
				}
			}
		})
		r.Check(rule, fmt.Sprintf("handlers.HTTPMethodOverrideHandler:store#%d records original", i+1), w.InstrPos(st), rec, "the original method POST is recorded under OriginalMethodContextKey on the same path")
	}
	// the wrapped handler is called exactly once on every path
	var serve []ssa.Instruction
	eachInstr(cl, func(in ssa.Instruction) {
		if c, ok := in.(*ssa.Call); ok && c.Call.IsInvoke() && c.Call.Method.Name() == "ServeHTTP" {
			serve = append(serve, in)
		}
	})
	okOnce := len(serve) == 1
	if okOnce {
		all, _ := allPathsHit(cl, nil, func(x ssa.Instruction) bool { return x == serve[0] })
		okOnce = all && !inLoop(serve[0])
	} else if len(serve) > 1 {
		// several call sites (guard clauses): every path runs exactly one of them
		isServe := map[ssa.Instruction]bool{}
		okOnce = true
		for _, sv := range serve {
			isServe[sv] = true
			if inLoop(sv) {
				okOnce = false
			}
		}
		paths, complete := enumPaths(cl, nil, 4000)
		if !complete || len(paths) == 0 {
			okOnce = false
		}
		for _, p := range paths {
			n := 0
			for _, b := range p.blocks {
				for _, x := range b.Instrs {
					if isServe[x] {
						n++
					}
				}
			}
			if n != 1 {
				okOnce = false
			}
		}
	}
	_ = req
	r.Check(rule, "handlers.HTTPMethodOverrideHandler:delegates once", cl.Pos(), okOnce, "the wrapped handler runs exactly once on every path")
}

func ruleC20Adapt(r *Run) {
	w := r.W
	rule := "C20-ADAPT"
	r.Floor(rule, 6)
	respF, reqF := w.Field("rux", "Context", "Resp"), w.Field("rux", "Context", "Req")
	for _, n := range []string{"WrapHTTPHandler", "WrapHTTPHandlerFunc"} {
		f := w.Fn("rux", n)
		if len(f.AnonFuncs) != 1 {
			r.Check(rule, "rux."+n, f.Pos(), false, "expected a single adapter closure")
			continue
		}
		cl := f.AnonFuncs[0]
		nCalls := 0
		ok := true
		eachInstr(cl, func(in ssa.Instruction) {
			c, isCall := in.(ssa.CallInstruction)
			if !isCall {
				return
			}
			nCalls++
			a := c.Common().Args
			if len(a) < 2 || !isLoadOfField(a[len(a)-2], respF) || !isLoadOfField(a[len(a)-1], reqF) {
				ok = false
			}
			// callee is the wrapped handler captured from the adapter's parameter
			callee := c.Common().Value
			if ld, isLd := callee.(*ssa.UnOp); isLd {
				callee = ld.X
			}
			if fv, isFV := callee.(*ssa.FreeVar); !isFV || freeVarBinding(fv) == nil {
				ok = false
			}
		})
		r.Check(rule, "rux."+n, f.Pos(), ok && nCalls == 1, map[bool]string{true: "the adapter calls the wrapped handler once with c.Resp and c.Req loaded at call time, and does nothing else", false: "the adapter does not hand exactly (c.Resp, c.Req) to the wrapped handler"}[ok && nCalls == 1])
	}
	for alias, target := range map[string]string{"WrapH": "WrapHTTPHandler", "HTTPHandler": "WrapHTTPHandler", "WrapHF": "WrapHTTPHandlerFunc", "HTTPHandlerFunc": "WrapHTTPHandlerFunc"} {
		f := w.Fn("rux", alias)
		t := w.Fn("rux", target)
		ok := false
		for _, c := range callsToFn(f, t) {
			if c.Common().Args[0] == ssa.Value(f.Params[0]) {
				ok = true
			}
		}
		r.Check(rule, "rux."+alias, f.Pos(), ok, "alias of "+target+" on its own argument")
	}
	// HandlerFunc.ServeHTTP builds a fresh initialised context
	hs := w.Fn("rux", "HandlerFunc.ServeHTTP")
	okHS := len(callsToFn(hs, w.Fn("rux", "Context.Init"))) == 1
	r.Check(rule, "(rux.HandlerFunc).ServeHTTP", hs.Pos(), okHS, "a HandlerFunc used as http.Handler runs on an initialised context")
}

// C20-WRAP: WrapHTTPHandlers folds its list so that the first listed wrapper is outermost,
// and never writes to the caller's slice.
func ruleC20Wrap(r *Run) {
	w := r.W
	rule := "C20-WRAP"
	r.Floor(rule, 2)
	f := w.Fn("rux", "Router.WrapHTTPHandlers")
	if !f.Signature.Variadic() {
		r.Undecided(rule, FuncName(f), f.Pos(), "no variadic wrapper list")
		return
	}
	list := f.Params[len(f.Params)-1]
	// (1) the caller's slice is never written (here or in callees that receive it)
	writes := 0
	var scan func(g *ssa.Function, prm ssa.Value, depth int)
	scan = func(g *ssa.Function, prm ssa.Value, depth int) {
		if depth > 3 {
			return
		}
		eachInstr(g, func(in ssa.Instruction) {
			switch x := in.(type) {
			case *ssa.Store:
				if ia, ok := x.Addr.(*ssa.IndexAddr); ok && ia.X == prm {
					writes++
					r.Check(rule, fmt.Sprintf("%s:writes the caller's wrapper list#%d", FuncName(g), writes), w.InstrPos(in), false,
						"an element of the variadic wrapper list is overwritten: with WrapHTTPHandlers(list...) the caller's slice is modified, the next wrap with the same list nests the wrappers in another order")
				}
			case *ssa.Call:
				if isBuiltin(x, "copy") && x.Call.Args[0] == prm {
					writes++
					r.Check(rule, fmt.Sprintf("%s:writes the caller's wrapper list#%d", FuncName(g), writes), w.InstrPos(in), false, "copy into the caller's wrapper list")
				}
				if n := calleeName(x); strings.HasPrefix(n, "sort.") || strings.HasPrefix(n, "slices.Reverse") || strings.HasPrefix(n, "slices.Sort") {
					for _, a := range x.Call.Args {
						if a == prm {
							writes++
							r.Check(rule, fmt.Sprintf("%s:writes the caller's wrapper list#%d", FuncName(g), writes), w.InstrPos(in), false, n+" reorders the caller's wrapper list in place")
						}
					}
				}
				if sc := staticCallee(x); sc != nil && w.InModule(sc) {
					for i, a := range x.Call.Args {
						if a == prm && i < len(sc.Params) {
							scan(sc, sc.Params[i], depth+1)
						}
					}
				}
			}
		})
	}
	scan(f, list, 0)
	r.Check(rule, FuncName(f)+":caller's list is read-only", f.Pos(), writes == 0, "the variadic wrapper list is only read")
	// (2) fold shape
	desc, asc, other := 0, 0, 0
	// (2a) folds that consume a view of the list: a helper that pops wrappers off one end of its local slice header
	// (the elements are not touched), or that recurses on the rest of the list
	type viewFn struct {
		g   *ssa.Function
		prm ssa.Value
	}
	views := []viewFn{{f, list}}
	for _, c := range calleesOf(w, f) {
		for _, call := range callsIn(f, func(ci ssa.CallInstruction) bool { return staticCallee(ci) == c }) {
			for i, a := range call.Common().Args {
				if a == ssa.Value(list) && i < len(c.Params) {
					views = append(views, viewFn{c, c.Params[i]})
				}
			}
		}
	}
	for _, vf := range views {
		g, prm := vf.g, vf.prm
		isView := func(v ssa.Value) bool {
			if v == prm {
				return true
			}
			ph, ok := v.(*ssa.Phi)
			if !ok {
				return false
			}
			for _, e := range ph.Edges {
				if e == prm {
					continue
				}
				if sl, isSl := e.(*ssa.Slice); isSl && sl.X == ssa.Value(ph) {
					continue
				}
				return false
			}
			return true
		}
		shrinks := func(v ssa.Value, front bool) bool {
			ph, ok := v.(*ssa.Phi)
			if !ok {
				return false
			}
			for _, e := range ph.Edges {
				sl, isSl := e.(*ssa.Slice)
				if !isSl || sl.X != ssa.Value(ph) {
					continue
				}
				if front {
					if lo, okc := constInt(sl.Low); okc && lo == 1 && sl.High == nil {
						return true
					}
				} else if sl.Low == nil && sl.High != nil {
					return true
				}
			}
			return false
		}
		eachInstr(g, func(in ssa.Instruction) {
			c, ok := in.(*ssa.Call)
			if !ok || c.Call.IsInvoke() || staticCallee(c) != nil {
				return
			}
			ld, ok := c.Call.Value.(*ssa.UnOp)
			if !ok {
				return
			}
			ia, ok := ld.X.(*ssa.IndexAddr)
			if !ok || !isView(ia.X) || (g == f && ia.X == ssa.Value(list)) && !inRecursion(g) {
				return
			}
			// pop from the end: v[len(v)-1](acc); v = v[:len(v)-1]
			if b, isB := ia.Index.(*ssa.BinOp); isB && b.Op == token.SUB {
				if one, okc := constInt(b.Y); okc && one == 1 {
					if lc, isL := b.X.(*ssa.Call); isL && isBuiltin(lc, "len") && lc.Call.Args[0] == ia.X && shrinks(ia.X, false) {
						desc++
						return
					}
				}
			}
			if zero, okc := constInt(ia.Index); okc && zero == 0 {
				// pop from the front in a loop: the first listed wrapper is applied first = innermost
				if shrinks(ia.X, true) {
					asc++
					return
				}
				// recursion on the rest: v[0](g(h, v[1:])) is first-outermost; g(v[0](h), v[1:]) is first-innermost
				if inRecursion(g) && len(c.Call.Args) == 1 {
					if rc, isRC := c.Call.Args[0].(*ssa.Call); isRC && staticCallee(rc) == g {
						restOK := false
						for _, a := range rc.Call.Args {
							if sl, isSl := a.(*ssa.Slice); isSl && sl.X == ia.X {
								if lo, okl := constInt(sl.Low); okl && lo == 1 && sl.High == nil {
									restOK = true
								}
							}
						}
						if restOK {
							desc++
							return
						}
					}
					asc++
				}
			}
		})
	}
	eachInstr(f, func(in ssa.Instruction) {
		c, ok := in.(*ssa.Call)
		if !ok || c.Call.IsInvoke() || staticCallee(c) != nil {
			return
		}
		ld, ok := c.Call.Value.(*ssa.UnOp)
		if !ok {
			return
		}
		ia, ok := ld.X.(*ssa.IndexAddr)
		if !ok || ia.X != ssa.Value(list) {
			return
		}
		idx := ia.Index
		isLenList := func(v ssa.Value) bool {
			cc, ok := v.(*ssa.Call)
			return ok && isBuiltin(cc, "len") && cc.Call.Args[0] == ssa.Value(list)
		}
		switch {
		case isRangeIndex(idx):
			asc++
		default:
			// (len(list) - i) - 1  or  len(list) - 1 - i  or  len(list) - (i + 1)
			ok := false
			if b, isB := idx.(*ssa.BinOp); isB && b.Op == token.SUB {
				if one, okc := constInt(b.Y); okc && one == 1 {
					if b2, isB2 := b.X.(*ssa.BinOp); isB2 && b2.Op == token.SUB && isLenList(b2.X) && isRangeIndex(b2.Y) {
						ok = true
					}
				}
				if b2, isB2 := b.X.(*ssa.BinOp); isB2 && b2.Op == token.SUB && isRangeIndex(b.Y) {
					if one, okc := constInt(b2.Y); okc && one == 1 && isLenList(b2.X) {
						ok = true
					}
				}
			}
			// a counter that runs down: for i := len(list)-1; i >= 0; i-- { list[i] }  or  for i := len(list); i > 0; i-- { list[i-1] }
			downFrom := func(v ssa.Value, start func(ssa.Value) bool) bool {
				ph, isPhi := v.(*ssa.Phi)
				if !isPhi {
					return false
				}
				inits, steps := 0, 0
				for _, e := range ph.Edges {
					if b, isB := e.(*ssa.BinOp); isB && b.Op == token.SUB && b.X == ssa.Value(ph) {
						if one, okc := constInt(b.Y); okc && one == 1 {
							steps++
							continue
						}
					}
					if start(e) {
						inits++
						continue
					}
					return false
				}
				return inits >= 1 && steps >= 1
			}
			lenMinus1 := func(v ssa.Value) bool {
				b, isB := v.(*ssa.BinOp)
				if !isB || b.Op != token.SUB {
					return false
				}
				one, okc := constInt(b.Y)
				return okc && one == 1 && isLenList(b.X)
			}
			if !ok && downFrom(idx, lenMinus1) {
				ok = true
			}
			if b, isB := idx.(*ssa.BinOp); !ok && isB && b.Op == token.SUB {
				if one, okc := constInt(b.Y); okc && one == 1 && downFrom(b.X, isLenList) {
					ok = true
				}
			}
			if ok {
				desc++
			} else {
				other++
			}
		}
	})
	// closures made in a loop must not capture a variable that the loop re-assigns: with the module's language
	// version (< 1.22) a range / for variable is ONE variable, every closure sees its last value when it finally runs
	capt := 0
	for _, g := range append([]*ssa.Function{f}, calleesOf(w, f)...) {
		eachInstr(g, func(in ssa.Instruction) {
			mc, ok := in.(*ssa.MakeClosure)
			if !ok || !inLoop(in) {
				return
			}
			ln := loopNest(g)
			for _, b := range mc.Bindings {
				al, isAl := b.(*ssa.Alloc)
				if !isAl {
					continue
				}
				// the cell lives outside the innermost loop around the closure and is stored to inside it
				for h := range ln[in.Block()] {
					if ln[al.Block()][h] {
						continue // allocated per iteration of this loop
					}
					for _, ref := range *al.Referrers() {
						if st, isSt := ref.(*ssa.Store); isSt && st.Addr == ssa.Value(al) && ln[st.Block()][h] {
							capt++
							r.Check(rule, fmt.Sprintf("%s:closure captures a loop variable#%d", FuncName(g), capt), w.InstrPos(in), false,
								"a closure created in a loop captures the variable "+al.Comment+" that the loop re-assigns (one variable for all iterations under this module's language version): when the composed wrappers finally run, every one of them sees the LAST list element — wrappers in the middle of the list are never applied")
							return
						}
					}
				}
			}
		})
	}
	switch {
	case desc > 0 && asc == 0 && other == 0:
		r.Check(rule, FuncName(f)+":fold order", f.Pos(), true, "wrappers are applied from the last listed to the first (index len-1-i over an ascending i), each to the accumulated handler: the first listed wrapper is outermost for every list length")
	case asc > 0 && writes == 0:
		r.Check(rule, FuncName(f)+":fold order", f.Pos(), false, "wrappers are applied in ascending list order to the accumulated handler: the first listed wrapper ends up innermost")
	default:
		r.Undecided(rule, FuncName(f)+":fold order", f.Pos(), fmt.Sprintf("the way the wrapper list is folded is not one this rule can read (%d index expression(s) that are neither an ascending nor a descending walk, or a fold through composed closures): whether the first listed wrapper ends up outermost for every list length is not decided", other))
	}
}

func init() {
	register(&property{
		Meta: propertyMeta{
			ID:          "C18",
			Explanation: "(C18-TABLE) decision-table extraction: every CFG path of binding.Auto is reduced to its decisions (comparisons of r.Method with constants, Contains tests of the Content-Type header against constants) and its outcome (parse calls and the binder applied to which source and destination); the table must be: method not in exactly {POST, PUT, PATCH} -> Query.BindValues(r.URL.Query()); else '/x-www-form-urlencoded' -> ParseForm + Form.BindValues(r.PostForm); '/form-data' -> ParseMultipartForm(DefaultMaxMemory) + Form.BindValues(r.PostForm); '/json' -> JSON.Bind; '/xml' -> XML.Bind; otherwise an error — tests in that order, no later test after a success. (C18-SRC) Auto reads only r.Method, r.Header, r.URL, r.PostForm. (C18-VALID) every binder (all implementers of Binder, BindValues/BindBytes and the decode helpers) returns either a known non-nil error or the result of Validate on the same destination; BinderFunc.Bind is the listed exception. (C18-ERR) no error result is dropped in pkg/binding and context_binding.go; nothing in pkg/binding panics or has an undischarged index/assertion obligation outside Must*. An error result that a path found non-nil is what that path returns (or wraps); DecodeUrlValues hands its values parameter to the decoder unmodified. In every DataValidator implementation of pkg/binding a return is reached only after github.com/gookit/validate's Validate() on a validation built from the argument was taken as true, or returns a value computed by that library from the argument.",
			NotDecided:  []string{"encode -> bind equality for any struct (codec round trip)", "behaviour of formam, encoding/json, encoding/xml, gookit/validate on malformed input (trusted not to panic)"},
			Assumptions: []string{"third-party decoders return errors instead of panicking"},
		},
		Rules: []ruleFn{{"C18-TABLE", ruleC18Table}, {"C18-VALID", ruleC18Valid}, {"C18-ERR", ruleC18Err}},
	})
	register(&property{
		Meta: propertyMeta{
			ID:          "C19",
			Explanation: "(C19-STATUS) for every response helper (Render, ShouldRender, MustRender, Respond, HTTPError, Text, HTML, HTMLString, Blob, Stream, JSON, JSONBytes, XML, JSONP, Binary, dispositionContent) a call recording exactly the helper's own status argument (SetStatus, WriteHeader, http.Error/Redirect code, or a helper that does, by fixpoint) dominates every body-writing call; NoContent records 204; Redirect passes the caller's code (default 301). (C19-CTYPE) helper -> content-type constant table checked by value against goutil's httpctype constants (Text, HTML, JSON, JSONP, XML, Binary) through Blob / the renderers' writeContentType. (C19-NOOVERRIDE) in pkg/render the Content-Type header is written only in writeContentType under 'no value present', and every Render calls it before writing. (C19-ARMS) in render.Auto every case that names a MIME constant marks the type handled (an empty case is reported: Go does not fall through); the scan stops at the first handled type. (C19-ERR) errors of Render / Encode / io.Copy / Write are returned, tested or recorded with AddError. (C19-STREAM) for every invoke of an io.Reader-shaped Read in the module, each forward path on which the returned error is non-nil has passed buf[:n] to a call, or knows n == 0; the pinned tree has no such call, a fixture with one loop of each kind is analysed in the same run. (C19-LENGTH) a Content-Length header stored by the response helpers (root package, pkg/render; Header().Set/Add, a header map update, Context.SetHeader) derives from len() of the data in hand and from nothing else; zero instances today, one reader-Size() and one len(data) fixture are analysed in every run.",
			NotDecided:  []string{"that the body decodes back to the value; JSONP framing bytes", "which status wins when a helper is called after the commit (C08)"},
			Assumptions: []string{"goutil httpctype constants are the documented content types"},
		},
		Rules: []ruleFn{{"C19-STATUS", ruleC19Status}, {"C19-CTYPE", ruleC19CType}, {"C19-NOOVERRIDE", ruleC19NoOverride}, {"C19-ARMS", ruleC19Arms}, {"C19-ERR", ruleC19Err}, {"C19-JSONP", ruleC19JSONP}, {"C19-STREAM", ruleC19Stream}, {"C19-LENGTH", ruleC19Length}, {"C03-POOL", ruleC03Pool}, {"C08-LATCH", ruleC08Latch}, {"C08-PRECOMMIT", ruleC08Precommit}},
	})
	register(&property{
		Meta: propertyMeta{
			ID:          "C20",
			Explanation: "(C20-AUTH) truth-table enumeration: the closure of HTTPBasicAuth touches the credentials only through four boolean atoms (ok of Req.BasicAuth(), len(accounts) > 0, comma-ok of accounts[user], srcPwd == pwd); all CFG paths are enumerated with their decisions and effects and, for each of the 16 valuations, the set of reachable effects must be exactly: !ok -> AbortWithStatus(401) preceded by the WWW-Authenticate header; ok && hasAccounts && !(found && same) -> AbortWithStatus(403); otherwise no abort; never Next() on an aborting path ('nothing downstream runs' is then C05). (C20-OVERRIDE) the single store to Request.Method lies only on paths with Method == POST and a successful comparison of the stored value with exactly {PUT, PATCH, DELETE}; the value is the upper-cased _method form value or, when empty, the X-HTTP-Method-Override header; POST is recorded under OriginalMethodContextKey on the same path; the wrapped handler runs exactly once on every path. (C20-ADAPT) WrapHTTPHandler/WrapHTTPHandlerFunc call the wrapped handler once with c.Resp and c.Req loaded at call time; aliases forward. (C05-SENTINEL) AbortWithStatus parks the cursor. Every alternative of the override value (form field, header) passes strings.ToUpper before the whitelist comparison unless it is known empty on that alternative.",
			NotDecided:  []string{"Request.BasicAuth header parsing (trusted)", "WrapHTTPHandlers' 'first listed is outermost' for lists of any length (index arithmetic over a run-time length)"},
			Assumptions: []string{"net/http.Request.BasicAuth reports ok only for well-formed Basic credentials"},
		},
		Rules: []ruleFn{{"C20-AUTH", ruleC20Auth}, {"C20-OVERRIDE", ruleC20Override}, {"C20-ADAPT", ruleC20Adapt}, {"C20-WRAP", ruleC20Wrap}, {"C05-SENTINEL", ruleC05Sentinel}, {"C08-FACADE", ruleC08Facade}},
	})
}

// ---------------------------------------------------------------------------
// C19-STREAM: a hand-written read loop writes what Read returned before it looks at the error

// ruleC19Stream: io.Reader may return n > 0 together with a non-nil error (io.EOF included: net/http request
// bodies, decompressors and iotest.DataErrReader do). A copy loop that tests the error first and leaves drops
// the last chunk — the body is truncated with a correct status and no error reported. io.Copy gets this right;
// the rule applies to every direct Read call in the module (today there is none: the helpers use io.Copy) and
// to a two-function fixture that is analysed in every run. For every forward path from the Read on which the
// error was found non-nil: the bytes were consumed (buf[:n] handed to a call / appended) somewhere on that path,
// or n is known to be 0 on it.
func ruleC19Stream(r *Run) {
	w := r.W
	rule := "C19-STREAM"
	isZeroTest := func(d decision, n ssa.Value) bool {
		b, ok := d.Cond.(*ssa.BinOp)
		if !ok {
			return false
		}
		op := b.Op
		var other ssa.Value
		if b.X == n {
			other = b.Y
		} else if b.Y == n {
			other, op = b.X, flipOp(b.Op)
		} else {
			return false
		}
		c, okc := constInt(other)
		if !okc {
			return false
		}
		if !d.Truth {
			op = negOp(op)
		}
		// n OP c holds on the path: n == 0, n <= 0, n < 1
		return (op == token.EQL && c == 0) || (op == token.LEQ && c == 0) || (op == token.LSS && c == 1)
	}
	check := func(f *ssa.Function) (reads int, bad string, badPos token.Pos) {
		eachInstr(f, func(in ssa.Instruction) {
			c, ok := in.(*ssa.Call)
			if !ok || !c.Call.IsInvoke() || c.Call.Method.Name() != "Read" {
				return
			}
			sg := c.Call.Method.Type().(*types.Signature)
			if sg.Params().Len() != 1 || sg.Results().Len() != 2 || !isErrorType(sg.Results().At(1).Type()) {
				return
			}
			reads++
			nV, errV := extractOf(c, 0), extractOf(c, 1)
			if errV == nil {
				return // error dropped: C19-ERR territory
			}
			fps, complete := exploreFrom(in, nil, 3000)
			if !complete && bad == "" {
				bad, badPos = "too many paths after the Read", w.InstrPos(in)
				return
			}
			for _, fp := range fps {
				failed, zero, consumed := false, false, false
				for _, d := range fp.pc.decs {
					if d.If == nil {
						continue
					}
					if is, pol := nonNilTestP(d.Cond, errV, fp.pc); is && pol == d.Truth {
						failed = true
					}
					if nV != nil && isZeroTest(d, nV) {
						zero = true
					}
				}
				if !failed {
					continue
				}
				for _, x := range fp.instrs {
					if x == in {
						break // came round the loop to the same Read
					}
					cc, isCall := x.(ssa.CallInstruction)
					if !isCall {
						continue
					}
					for _, a := range callArgs(cc) {
						if nV != nil && flowsFromDeep(a, func(y ssa.Value) bool {
							sl, isSl := y.(*ssa.Slice)
							return isSl && sl.High != nil && flowsFromDeep(sl.High, func(z ssa.Value) bool { return z == nV })
						}) {
							consumed = true
						}
					}
				}
				if !consumed && !zero && bad == "" {
					bad, badPos = "a path on which Read's error is non-nil leaves without having written the n bytes returned by the same call", w.InstrPos(in)
				}
			}
		})
		return
	}
	total := 0
	for _, f := range w.Funcs {
		if strings.Contains(w.Fset.Position(f.Pos()).Filename, "zz_verif_stream_fixture") {
			continue
		}
		n, bad, pos := check(f)
		if n == 0 {
			continue
		}
		total += n
		if bad == "" {
			pos = f.Pos()
		}
		r.Check(rule, FuncName(f)+":read loop", pos, bad == "", map[bool]string{true: "every path that finds Read's error non-nil has written (or knows to be empty) the bytes returned with it", false: bad + ": io.Reader may return data together with io.EOF or another error; the last chunk of such a reader (request bodies, decompressors) is dropped and the body is truncated with no error reported"}[bad == ""])
	}
	r.Exists(rule, "direct Read calls in the module", token.NoPos, true, fmt.Sprintf("%d direct Read call(s) outside the fixture (the streaming helpers use io.Copy)", total))
	// the fixture: one loop that tests the error first (must be reported), one that writes first (must pass)
	badF, goodF := w.FnOpt("rux", "zzVerifStreamErrFirst"), w.FnOpt("rux", "zzVerifStreamDataFirst")
	if badF == nil || goodF == nil {
		r.Undecided(rule, "positive fixture", token.NoPos, "the virtual fixture functions zzVerifStream* are not part of the analysed program")
		return
	}
	_, b1, _ := check(badF)
	_, b2, _ := check(goodF)
	r.Check(rule, "fixture:error-first loop is reported", token.NoPos, b1 != "", "the rule recognises the truncating loop in the fixture")
	r.Check(rule, "fixture:data-first loop is accepted", token.NoPos, b2 == "", "the rule accepts the loop that writes buf[:n] before testing the error ("+b2+")")
}

const streamFixture = `package rux

import (
	"io"
	"strconv"
)

// zzVerifStream* exist only in the overlay of the C19 run (C19-STREAM fixture).
func zzVerifStreamErrFirst(w io.Writer, r io.Reader) error {
	buf := make([]byte, 512)
	for {
		n, err := r.Read(buf)
		if err != nil {
			if err == io.EOF {
				return nil
			}
			return err
		}
		if n == 0 {
			continue
		}
		if _, err = w.Write(buf[:n]); err != nil {
			return err
		}
	}
}

func zzVerifStreamDataFirst(w io.Writer, r io.Reader) error {
	buf := make([]byte, 512)
	for {
		n, err := r.Read(buf)
		if n > 0 {
			if _, werr := w.Write(buf[:n]); werr != nil {
				return werr
			}
		}
		if err != nil {
			if err == io.EOF {
				return nil
			}
			return err
		}
	}
}

type zzVerifSized interface {
	io.Reader
	Size() int64
}

// C19-LENGTH fixture: a length announced from something other than the bytes in hand / the bytes themselves
func zzVerifLenFromSize(c *Context, r zzVerifSized) {
	c.Resp.Header().Set("Content-Length", strconv.FormatInt(r.Size(), 10))
	_, _ = io.Copy(c.Resp, r)
}

func zzVerifLenOfData(c *Context, data []byte) {
	c.Resp.Header().Set("Content-Length", strconv.Itoa(len(data)))
	_, _ = c.Resp.Write(data)
}
`

// C19-LENGTH: "a body that decodes back to what was passed" fails on the wire when the helper announces a
// Content-Length that is not the number of bytes it goes on to write: net/http closes the connection on a short
// body and refuses the excess of a long one. The response helpers announce no length today (net/http computes it or
// uses chunked encoding). The rule: a store of the Content-Length header in the root package or pkg/render
// (Header().Set/Add, a header map update, Context.SetHeader) takes its value from len() of a value, and from nothing
// else — Size() of a reader is the total size and not what is left to read, Stat().Size() can be stale.
func ruleC19Length(r *Run) {
	w := r.W
	rule := "C19-LENGTH"
	setHeader := w.FnOpt("rux", "Context.SetHeader")
	modPath := pkgPath("rux")
	check := func(f *ssa.Function) (n int, bad string, badPos token.Pos) {
		eachInstr(f, func(in ssa.Instruction) {
			var key, val ssa.Value
			switch x := in.(type) {
			case *ssa.Call:
				nm := calleeName(x)
				switch {
				case (nm == "(net/http.Header).Set" || nm == "(net/http.Header).Add") && len(x.Call.Args) == 3:
					key, val = x.Call.Args[1], x.Call.Args[2]
				case setHeader != nil && staticCallee(x) == setHeader && len(x.Call.Args) == 3:
					key, val = x.Call.Args[1], x.Call.Args[2]
				}
			case *ssa.MapUpdate:
				key, val = x.Key, x.Value
			}
			if key == nil {
				return
			}
			k, ok := constString(key)
			if !ok || !strings.EqualFold(k, "Content-Length") {
				return
			}
			n++
			fromLen := flowsFromDeep(val, func(y ssa.Value) bool {
				c, isC := y.(*ssa.Call)
				return isC && isBuiltin(c, "len")
			})
			other := flowsFromDeep(val, func(y ssa.Value) bool {
				c, isC := y.(*ssa.Call)
				if !isC || isBuiltin(c, "len") {
					return false
				}
				nm := calleeName(c)
				return !strings.HasPrefix(nm, "strconv.") && !strings.HasPrefix(nm, "fmt.")
			})
			if (!fromLen || other) && bad == "" {
				bad, badPos = "the Content-Length header is set from something other than len() of the bytes being written", w.InstrPos(in)
			}
		})
		return
	}
	total := 0
	for _, f := range w.Funcs {
		if strings.Contains(w.Fset.Position(f.Pos()).Filename, "zz_verif_stream_fixture") {
			continue
		}
		root := f
		for root.Parent() != nil {
			root = root.Parent()
		}
		if root.Pkg == nil || (root.Pkg.Pkg.Path() != modPath && root.Pkg.Pkg.Path() != modPath+"/pkg/render") {
			continue
		}
		n, bad, pos := check(f)
		if n == 0 {
			continue
		}
		total += n
		if bad == "" {
			pos = f.Pos()
		}
		r.Check(rule, FuncName(f)+":announced length", pos, bad == "", map[bool]string{true: "the announced length is len() of the data in hand", false: bad + ": a reader that was partly consumed, a file that changed, a wrapped reader — the announced length differs from the body and the client cannot read the response back"}[bad == ""])
	}
	r.Exists(rule, "Content-Length stores in the response helpers", token.NoPos, true, fmt.Sprintf("%d store(s) of Content-Length outside the fixture (net/http computes the length)", total))
	badF, goodF := w.FnOpt("rux", "zzVerifLenFromSize"), w.FnOpt("rux", "zzVerifLenOfData")
	if badF == nil || goodF == nil {
		r.Undecided(rule, "positive fixture", token.NoPos, "the virtual fixture functions zzVerifLen* are not part of the analysed program")
		return
	}
	_, b1, _ := check(badF)
	_, b2, _ := check(goodF)
	r.Check(rule, "fixture:length from Size() is reported", token.NoPos, b1 != "", "the rule recognises a length taken from the reader's total size")
	r.Check(rule, "fixture:length from len(data) is accepted", token.NoPos, b2 == "", "the rule accepts strconv.Itoa(len(data)) ("+b2+")")
}

// inRecursion: g calls itself directly.
func inRecursion(g *ssa.Function) bool {
	rec := false
	eachInstr(g, func(in ssa.Instruction) {
		if c, ok := in.(ssa.CallInstruction); ok && staticCallee(c) == g {
			rec = true
		}
	})
	return rec
}

// dispositionHelper: the one module function that Binary, Attachment and Inline all call and that sets a response
// header — the shared "content disposition" writer, whatever its name and receiver.
func dispositionHelper(w *World) *ssa.Function {
	count := map[*ssa.Function]int{}
	for _, n := range []string{"Binary", "Attachment", "Inline"} {
		f := w.FnOpt("rux", "Context."+n)
		if f == nil {
			return nil
		}
		seen := map[*ssa.Function]bool{}
		eachInstr(f, func(in ssa.Instruction) {
			if c, ok := in.(ssa.CallInstruction); ok {
				if sc := staticCallee(c); sc != nil && w.InModule(sc) && !seen[sc] && len(callsToName(sc, "(net/http.Header).Set")) > 0 {
					seen[sc] = true
					count[sc]++
				}
			}
		})
	}
	var found *ssa.Function
	for f, n := range count {
		if n == 3 {
			if found != nil {
				return nil
			}
			found = f
		}
	}
	return found
}
