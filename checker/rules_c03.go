package main

// rules_c03.go — C03: concurrent requests are independent and race-free.
// C03-EFF, C03-APPEND, C03-LOCK, C03-POOL, PHASE.

import (
	"fmt"
	"go/token"
	"go/types"
	"sort"
	"strings"

	"golang.org/x/tools/go/ssa"
)

// external callees that mutate their receiver / an argument (index given,
// receiver = 0), one line of reason each.
var extMutators = map[string][]int{
	"(*container/list.List).PushFront":     {0},
	"(*container/list.List).PushBack":      {0},
	"(*container/list.List).MoveToFront":   {0, 1},
	"(*container/list.List).MoveToBack":    {0, 1},
	"(*container/list.List).MoveBefore":    {0, 1},
	"(*container/list.List).MoveAfter":     {0, 1},
	"(*container/list.List).Remove":        {0, 1},
	"(*container/list.List).Init":          {0},
	"(*container/list.List).InsertBefore":  {0},
	"(*container/list.List).InsertAfter":   {0},
	"(*container/list.List).PushBackList":  {0},
	"(*container/list.List).PushFrontList": {0},
	"sort.Strings":                         {0},
	"sort.Slice":                           {0},
	"sort.Sort":                            {0},
	"sort.Stable":                          {0},
	"sort.SliceStable":                     {0},
	"sort.Ints":                            {0},
	"(net/http.Header).Set":                {0},
	"(net/http.Header).Add":                {0},
	"(net/http.Header).Del":                {0},
	"(net/url.Values).Set":                 {0},
	"(net/url.Values).Add":                 {0},
	"(net/url.Values).Del":                 {0},
	"(*bytes.Buffer).Write":                {0},
	"(*bytes.Buffer).WriteString":          {0},
	"(*bytes.Buffer).Reset":                {0},
	"(*strings.Builder).WriteString":       {0},
	"(*sync.Map).Store":                    {0},
	"(*sync.Map).Delete":                   {0},
	"(*sync.Map).LoadOrStore":              {0},
	"sync/atomic.AddInt32":                 {0},
	"sync/atomic.AddInt64":                 {0},
	"sync/atomic.StoreInt32":               {0},
	"sync/atomic.StoreInt64":               {0},
}

// external callees known not to write through a shared argument.
var extReadOnly = map[string]string{
	"(*regexp.Regexp).FindAllStringSubmatch": "regexp matching is documented safe for concurrent use",
	"(*regexp.Regexp).FindStringSubmatch":    "regexp matching is documented safe for concurrent use",
	"(*regexp.Regexp).FindAllString":         "regexp matching is documented safe for concurrent use",
	"(*regexp.Regexp).MatchString":           "regexp matching is documented safe for concurrent use",
	"(*regexp.Regexp).NumSubexp":             "read-only",
	"(*regexp.Regexp).String":                "read-only",
	"(*container/list.List).Len":             "read-only",
	"(*container/list.List).Back":            "read-only",
	"(*container/list.List).Front":           "read-only",
	"(*container/list.Element).Next":         "read-only",
	"(*container/list.Element).Prev":         "read-only",
	"(*sync.RWMutex).Lock":                   "synchronisation primitive",
	"(*sync.RWMutex).Unlock":                 "synchronisation primitive",
	"(*sync.RWMutex).RLock":                  "synchronisation primitive",
	"(*sync.RWMutex).RUnlock":                "synchronisation primitive",
	"(*sync.Mutex).Lock":                     "synchronisation primitive",
	"(*sync.Mutex).Unlock":                   "synchronisation primitive",
	"(*sync.Pool).Get":                       "safe for concurrent use",
	"(*sync.Pool).Put":                       "safe for concurrent use",
	"strings.Join":                           "read-only",
	"fmt.Sprintf":                            "read-only formatting",
	"fmt.Fprintf":                            "formats arguments read-only",
	"fmt.Fprint":                             "formats arguments read-only",
	"github.com/gookit/goutil.FuncName":      "reflection read",
	"github.com/gookit/goutil.Panicf":        "formats and panics",
	"github.com/gookit/color.Printf":         "read-only formatting",
	"reflect.ValueOf":                        "read-only",
}

type writeSite struct {
	fn    *ssa.Function
	in    ssa.Instruction
	kind  string
	dest  ssa.Value
	descr string
}

// writesIn enumerates memory-writing instructions of f.
func writesIn(f *ssa.Function) []writeSite {
	var out []writeSite
	ord := map[string]int{}
	key := func(kind, d string) string {
		k := kind + " " + d
		ord[k]++
		if ord[k] > 1 {
			return fmt.Sprintf("%s#%d", k, ord[k])
		}
		return k
	}
	eachInstr(f, func(in ssa.Instruction) {
		switch x := in.(type) {
		case *ssa.Store:
			// stores initialising a fresh local cell are not interesting but harmless
			out = append(out, writeSite{f, in, "store", x.Addr, key("store", unwrapAddr(x.Addr).String())})
		case *ssa.MapUpdate:
			out = append(out, writeSite{f, in, "mapupdate", x.Map, key("mapupdate", unwrapAddr(x.Map).String())})
		case ssa.CallInstruction:
			cc := x.Common()
			if isBuiltin(x, "delete") {
				out = append(out, writeSite{f, in, "delete", cc.Args[0], key("delete", unwrapAddr(cc.Args[0]).String())})
			} else if isBuiltin(x, "copy") {
				out = append(out, writeSite{f, in, "copy", cc.Args[0], key("copy", unwrapAddr(cc.Args[0]).String())})
			} else if isBuiltin(x, "clear") {
				out = append(out, writeSite{f, in, "clear", cc.Args[0], key("clear", unwrapAddr(cc.Args[0]).String())})
			} else if idxs, ok := extMutators[calleeName(x)]; ok {
				args := callArgs(x)
				for _, i := range idxs {
					if i < len(args) {
						out = append(out, writeSite{f, in, "call " + calleeName(x), args[i], key("call "+calleeName(x), fmt.Sprintf("arg%d %s", i, unwrapAddr(args[i]).String()))})
					}
				}
			}
		}
	})
	return out
}

func sortFns(m map[*ssa.Function]bool) []*ssa.Function { return sortedFuncs(m) }

func isCachedRoutesMethod(w *World, f *ssa.Function) bool {
	root := f
	for root.Parent() != nil {
		root = root.Parent()
	}
	recv := root.Signature.Recv()
	return recv != nil && isNamedPtr(recv.Type(), w.Named("rux", "cachedRoutes"))
}

// C03-EFF + C03-APPEND
func ruleC03Eff(r *Run) {
	w := r.W
	cg := w.BuildCG()
	ph := w.Phases(cg)
	e := newEff(w, cg)
	r.Floor("C03-EFF", 25)
	r.Floor("C03-APPEND", 2)
	reqList := sortFns(ph.Req)
	names := []string{}
	for _, f := range reqList {
		names = append(names, FuncName(f))
	}
	r.Analysed["request_phase_functions"] = len(reqList)
	r.Analysed["request_phase_roots"] = len(ph.ReqRoots)
	r.Analysed["context_fields_that_may_alias_shared_memory"] = func() []string {
		var s []string
		for fv, why := range e.ctxAlias {
			s = append(s, fv.Name()+": "+why)
		}
		sort.Strings(s)
		return s
	}()
	for _, f := range reqList {
		inCache := isCachedRoutesMethod(w, f)
		for _, ws := range writesIn(f) {
			// a store into a fresh local cell (initialisation) is trivially local
			c, why := e.classify(ws.dest)
			construct := FuncName(f) + ":" + ws.descr
			pos := w.InstrPos(ws.in)
			switch {
			case c == cLocal:
				_, isAlloc := unwrapAddr(ws.dest).Base.(*ssa.Alloc)
				if isAlloc && len(unwrapAddr(ws.dest).Fields) == 0 {
					r.Exists("C03-EFF", construct, pos, true, "write to a local variable")
				} else {
					r.Check("C03-EFF", construct, pos, true, "request-local: "+why)
				}
			case c == cShared && inCache:
				// decided by C03-LOCK: must be under the exclusive lock
				ok, detail := underExclusiveLock(w, ws.in)
				r.Check("C03-EFF", construct, pos, ok, "cache-internal write: "+detail)
			case c == cShared:
				r.Check("C03-EFF", construct, pos, false,
					fmt.Sprintf("request-phase write (%s) to memory shared between requests: %s [reached via %s]", ws.kind, why, cg.PathTo(ph.ReqRoots, rootOf(f))))
			default:
				r.Undecided("C03-EFF", construct, pos, "cannot classify destination: "+why)
			}
		}
		// appends
		n := 0
		eachInstr(f, func(in ssa.Instruction) {
			call, ok := in.(*ssa.Call)
			if !ok || !isBuiltin(call, "append") {
				return
			}
			n++
			base := call.Call.Args[0]
			c, why := e.classify(base)
			construct := fmt.Sprintf("%s:append(%s)", FuncName(f), describeVal(base))
			if c == cShared && !fullSliceCapped(base) {
				r.Check("C03-APPEND", construct, w.InstrPos(in), false,
					"append onto a slice shared between requests writes into its backing array whenever cap > len: "+why)
			} else if c == cUnknown {
				r.Undecided("C03-APPEND", construct, w.InstrPos(in), why)
			} else {
				r.Check("C03-APPEND", construct, w.InstrPos(in), true, "base is "+c.String()+": "+why)
			}
		})
		// external calls that receive shared references and are not summarised
		eachInstr(f, func(in ssa.Instruction) {
			call, ok := in.(ssa.CallInstruction)
			if !ok {
				return
			}
			name := calleeName(call)
			if name == "" || strings.HasPrefix(name, "builtin ") || strings.HasPrefix(name, "invoke ") {
				return
			}
			if sc := staticCallee(call); sc != nil && w.InModule(sc) {
				return
			}
			if _, ok := extMutators[name]; ok {
				return
			}
			if _, ok := extReadOnly[name]; ok {
				return
			}
			for i, a := range callArgs(call) {
				if !isRefType(a.Type()) {
					continue
				}
				if _, isStr := a.Type().Underlying().(*types.Basic); isStr {
					continue
				}
				if isErrorType(a.Type()) {
					continue // error values are immutable by contract: a callee can only read them (assumption listed in the evidence)
				}
				if c, why := e.classify(a); c == cShared {
					if _, isFn := a.Type().Underlying().(*types.Signature); isFn {
						continue
					}
					r.Undecided("C03-EFF", fmt.Sprintf("%s:extcall %s arg%d", FuncName(f), name, i), w.InstrPos(in),
						"external callee without a write summary receives shared memory: "+why)
				}
			}
		})
	}
	r.Analysed["request_phase_function_names"] = names
}

func rootOf(f *ssa.Function) *ssa.Function { return f }

func describeVal(v ssa.Value) string {
	a := unwrapAddr(v)
	s := a.String()
	if s == "" {
		s = v.Name()
	}
	// make it independent of SSA register numbering
	if a.Base != nil {
		switch b := a.Base.(type) {
		case *ssa.Parameter:
			_ = b
		case *ssa.Global:
		default:
			if len(a.Fields) > 0 {
				s = ""
				for _, f := range a.Fields {
					if f != nil {
						s += "." + f.Name()
					}
				}
			} else {
				s = fmt.Sprintf("%T", a.Base)
				s = strings.TrimPrefix(s, "*ssa.")
			}
		}
	}
	return s
}

// fullSliceCapped: base is x[:n:n] (3-index slice with max == high): append must reallocate.
func fullSliceCapped(v ssa.Value) bool {
	if s, ok := v.(*ssa.Slice); ok && s.Max != nil && s.High != nil {
		return canon(s.Max) == canon(s.High)
	}
	return false
}

// ---------------------------------------------------------------------------
// E-LOCK

type lockCall struct {
	in   ssa.Instruction
	kind string // Lock RLock Unlock RUnlock
	def  bool   // deferred
}

func lockCallsOn(f *ssa.Function, lockField *types.Var) []lockCall {
	var out []lockCall
	eachInstr(f, func(in ssa.Instruction) {
		c, ok := in.(ssa.CallInstruction)
		if !ok {
			return
		}
		name := calleeName(c)
		kind := ""
		switch name {
		case "(*sync.RWMutex).Lock", "(*sync.Mutex).Lock":
			kind = "Lock"
		case "(*sync.RWMutex).RLock":
			kind = "RLock"
		case "(*sync.RWMutex).Unlock", "(*sync.Mutex).Unlock":
			kind = "Unlock"
		case "(*sync.RWMutex).RUnlock":
			kind = "RUnlock"
		default:
			return
		}
		args := callArgs(c)
		if len(args) == 0 || !unwrapAddr(args[0]).hasField(lockField) {
			return
		}
		_, def := in.(*ssa.Defer)
		out = append(out, lockCall{in, kind, def})
	})
	return out
}

// lockHeldAt computes the lock mode held at instruction in: "", "R", "W".
func lockHeldAt(w *World, in ssa.Instruction) (mode string, detail string) {
	f := in.Parent()
	lf := w.Field("rux", "cachedRoutes", "lock")
	calls := lockCallsOn(f, lf)
	best := ""
	for _, lc := range calls {
		if lc.def || (lc.kind != "Lock" && lc.kind != "RLock") {
			continue
		}
		if !dominates(lc.in, in) {
			continue
		}
		// no non-deferred unlock between the acquisition and the access
		released := false
		for _, u := range calls {
			if u.def || (u.kind != "Unlock" && u.kind != "RUnlock") {
				continue
			}
			if canReach(lc.in, u.in) && canReach(u.in, in) {
				released = true
			}
		}
		if released {
			continue
		}
		m := "R"
		if lc.kind == "Lock" {
			m = "W"
		}
		if m == "W" || best == "" {
			best = m
		}
	}
	switch best {
	case "W":
		return "W", "exclusive Lock held"
	case "R":
		return "R", "only the shared RLock is held"
	}
	return "", "no lock held"
}

func underExclusiveLock(w *World, in ssa.Instruction) (bool, string) {
	m, d := lockHeldAt(w, in)
	return m == "W", d
}

// C03-LOCK (also C14-LOCK)
func ruleCacheLock(rule string) func(r *Run) {
	return func(r *Run) {
		w := r.W
		r.Floor(rule, 8)
		crT := w.Named("rux", "cachedRoutes")
		listF := w.Field("rux", "cachedRoutes", "list")
		mapF := w.Field("rux", "cachedRoutes", "hashMap")
		lockF := w.Field("rux", "cachedRoutes", "lock")
		sizeF := w.Field("rux", "cachedRoutes", "size")
		nodeT := w.Named("rux", "cacheNode")
		var methods []*ssa.Function
		for _, f := range w.Funcs {
			if f.Parent() == nil && f.Signature.Recv() != nil && isNamedPtr(f.Signature.Recv().Type(), crT) {
				methods = append(methods, f)
			}
		}
		r.Exists(rule, "cachedRoutes methods", token.NoPos, len(methods) >= 4, fmt.Sprintf("%d methods of *cachedRoutes analysed", len(methods)))
		for _, m := range methods {
			for _, f := range withAnon(m) {
				calls := lockCallsOn(f, lockF)
				// pairing: each acquisition has a matching release on every exit
				for i, lc := range calls {
					if lc.def || (lc.kind != "Lock" && lc.kind != "RLock") {
						continue
					}
					want := "Unlock"
					if lc.kind == "RLock" {
						want = "RUnlock"
					}
					construct := fmt.Sprintf("%s:%s#%d release", FuncName(f), lc.kind, i)
					okDefer := false
					mismatch := false
					// explicitly released on every path?
					if okExp, _ := allPathsHit(f, lc.in, func(in ssa.Instruction) bool {
						for _, u := range calls {
							if u.in == in && u.kind == want && !u.def {
								return true
							}
						}
						return false
					}); okExp {
						r.Check(rule, construct, w.InstrPos(lc.in), true, "released explicitly on every path")
						continue
					}
					for _, u := range calls {
						if u.def && dominates(lc.in, u.in) {
							// the deferred unlock belongs to the closest acquisition before it
							closest := true
							for _, other := range calls {
								if other.in != lc.in && !other.def && (other.kind == "Lock" || other.kind == "RLock") && dominates(lc.in, other.in) && dominates(other.in, u.in) {
									closest = false
								}
							}
							if !closest {
								continue
							}
							if u.kind == want {
								okDefer = true
							} else if u.kind == "Unlock" || u.kind == "RUnlock" {
								mismatch = true
							}
						}
					}
					if mismatch && !okDefer {
						r.Check(rule, construct, w.InstrPos(lc.in), false, lc.kind+" is paired with the wrong kind of deferred unlock")
						continue
					}
					if okDefer {
						// the deferred call must be registered before anything can panic/return: directly dominated
						r.Check(rule, construct, w.InstrPos(lc.in), true, "matching "+want+" deferred")
						continue
					}
					ok, bad := allPathsHit(f, lc.in, func(in ssa.Instruction) bool {
						for _, u := range calls {
							if u.in == in && u.kind == want && !u.def {
								return true
							}
						}
						return false
					})
					d := "released on every exit"
					if !ok {
						d = "a path reaches return at " + w.Pos(w.InstrPos(bad)) + " without " + want
					}
					r.Check(rule, construct, w.InstrPos(lc.in), ok, d)
				}
				// accesses
				ord := map[string]int{}
				eachInstr(f, func(in ssa.Instruction) {
					var kind, what string
					need := ""
					switch x := in.(type) {
					case *ssa.UnOp:
						if x.Op == token.MUL {
							if fa, ok := x.X.(*ssa.FieldAddr); ok {
								fv := fieldVar(fa.X.Type(), fa.Field)
								if fv == listF || fv == mapF {
									// a load of the field itself is just reading the pointer (immutable after construction);
									// the protected state is what it points to — handled at the uses below.
									return
								}
							}
						}
						return
					case *ssa.Lookup:
						if unwrapAddr(x.X).hasField(mapF) {
							kind, what, need = "read", "hashMap lookup", "R"
						}
					case *ssa.MapUpdate:
						if unwrapAddr(x.Map).hasField(mapF) {
							kind, what, need = "write", "hashMap update", "W"
						}
					case *ssa.Range:
						if unwrapAddr(x.X).hasField(mapF) {
							kind, what, need = "read", "hashMap range", "R"
						}
					case *ssa.Store:
						acc := unwrapAddr(x.Addr)
						if fa, ok := x.Addr.(*ssa.FieldAddr); ok && isNamedPtr(fa.X.Type(), nodeT) {
							kind, what, need = "write", "cacheNode."+fieldName(fa.X.Type(), fa.Field)+" store", "W"
						} else if acc.hasField(listF) || acc.hasField(mapF) || acc.hasField(sizeF) || acc.hasField(lockF) {
							if _, isParam := acc.Base.(*ssa.Parameter); isParam {
								kind, what, need = "write", "cachedRoutes."+acc.lastField().Name()+" store", "W"
							}
						}
					case ssa.CallInstruction:
						name := calleeName(x)
						args := callArgs(x)
						if isBuiltin(x, "delete") && len(args) > 0 && unwrapAddr(args[0]).hasField(mapF) {
							kind, what, need = "write", "hashMap delete", "W"
						} else if isBuiltin(x, "len") && len(args) > 0 && unwrapAddr(args[0]).hasField(mapF) {
							kind, what, need = "read", "len(hashMap)", "R"
						} else if strings.HasPrefix(name, "(*container/list.List).") && len(args) > 0 && unwrapAddr(args[0]).hasField(listF) {
							if _, mut := extMutators[name]; mut {
								kind, what, need = "write", "list."+strings.TrimPrefix(name, "(*container/list.List)."), "W"
							} else {
								kind, what, need = "read", "list."+strings.TrimPrefix(name, "(*container/list.List)."), "R"
							}
						}
					}
					if need == "" {
						return
					}
					ord[what]++
					construct := fmt.Sprintf("%s:%s#%d", FuncName(f), what, ord[what])
					mode, detail := lockHeldAt(w, in)
					ok := mode == "W" || (need == "R" && mode == "R")
					msg := kind + " of cache state: " + detail
					if !ok && need == "W" {
						msg = "mutation of cache state requires the exclusive lock: " + detail
					}
					r.Check(rule, construct, w.InstrPos(in), ok, msg)
				})
			}
		}
		// atomicity: an element looked up in the index must be used inside the same critical section
		for _, mth := range methods {
			calls := lockCallsOn(mth, lockF)
			n := 0
			eachInstr(mth, func(in ssa.Instruction) {
				lk, ok := in.(*ssa.Lookup)
				if !ok || !unwrapAddr(lk.X).hasField(mapF) {
					return
				}
				var elem ssa.Value = lk
				if lk.CommaOk {
					elem = extractOf(lk, 0)
				}
				if elem == nil {
					return
				}
				for _, use := range *elem.Referrers() {
					ui, isInstr := use.(ssa.Instruction)
					if !isInstr {
						continue
					}
					switch use.(type) {
					case *ssa.DebugRef, *ssa.Phi:
						continue
					}
					n++
					released := false
					for _, u := range calls {
						if u.def || (u.kind != "Unlock" && u.kind != "RUnlock") {
							continue
						}
						if canReach(in, u.in) && canReach(u.in, ui) {
							released = true
						}
					}
					r.Check(rule, fmt.Sprintf("%s:element used in the critical section of its lookup#%d", FuncName(mth), n), w.InstrPos(ui), !released,
						map[bool]string{true: "lookup and use of the list element happen under one lock acquisition", false: "the element is looked up under one lock acquisition and used after the lock was released and re-acquired: another goroutine can evict/delete it in between (MoveToFront on a removed element is a silent no-op, the hit is reported for a key that is no longer cached)"}[!released])
				}
			})
		}
		// who-may-access: cachedRoutes / cacheNode fields only inside the methods and the constructor
		for _, f := range w.Funcs {
			if isCachedRoutesMethod(w, f) || FuncName(f) == "rux.NewCachedRoutes" {
				continue
			}
			eachInstr(f, func(in ssa.Instruction) {
				var xt types.Type
				var fi int
				switch x := in.(type) {
				case *ssa.FieldAddr:
					xt, fi = x.X.Type(), x.Field
				case *ssa.Field:
					xt, fi = x.X.Type(), x.Field
				default:
					return
				}
				if isNamedPtr(xt, crT) || isNamedPtr(xt, nodeT) {
					r.Check(rule, fmt.Sprintf("%s:access %s", FuncName(f), fieldName(xt, fi)), w.InstrPos(in), false,
						"cache internals accessed outside the methods of cachedRoutes (bypasses its lock)")
				}
			})
		}
	}
}

// C03-POOL
func ruleC03Pool(r *Run) {
	w := r.W
	rule := "C03-POOL"
	r.Floor(rule, 4)
	poolF := w.Field("rux", "Router", "ctxPool")
	initFn := w.Fn("rux", "Context.Init")
	nGet, nPut := 0, 0
	for _, f := range w.Funcs {
		var gets, puts []ssa.CallInstruction
		eachInstr(f, func(in ssa.Instruction) {
			c, ok := in.(ssa.CallInstruction)
			if !ok {
				return
			}
			name := calleeName(c)
			if name != "(*sync.Pool).Get" && name != "(*sync.Pool).Put" {
				return
			}
			args := callArgs(c)
			if len(args) == 0 || !unwrapAddr(args[0]).hasField(poolF) {
				return
			}
			if name == "(*sync.Pool).Get" {
				gets = append(gets, c)
			} else {
				puts = append(puts, c)
			}
		})
		nGet += len(gets)
		nPut += len(puts)
		// values obtained from Get (through the type assertion)
		got := map[ssa.Value]bool{}
		for _, g := range gets {
			gv := g.Value()
			if gv == nil {
				r.Check(rule, FuncName(f)+":Get result", w.InstrPos(g), false, "result of ctxPool.Get is discarded or deferred")
				continue
			}
			got[gv] = true
			var ctxVals []ssa.Value
			for _, ref := range *gv.Referrers() {
				if ta, ok := ref.(*ssa.TypeAssert); ok {
					got[ta] = true
					ctxVals = append(ctxVals, ta)
					if ta.CommaOk {
						for _, r2 := range *ta.Referrers() {
							if ex, ok := r2.(*ssa.Extract); ok && ex.Index == 0 {
								got[ex] = true
								ctxVals = append(ctxVals, ex)
							}
						}
					}
				}
			}
			// Init before any other use
			var initCall ssa.Instruction
			for _, cv := range ctxVals {
				for _, ref := range *cv.Referrers() {
					if c, ok := ref.(ssa.CallInstruction); ok && staticCallee(c) == initFn && len(c.Common().Args) > 0 && c.Common().Args[0] == cv {
						if _, isDefer := ref.(*ssa.Defer); !isDefer {
							initCall = ref
						}
					}
				}
			}
			if initCall == nil {
				// Init written out: every field of the pooled context is assigned before it is handed to the dispatcher
				okPre, missing := false, ""
				for _, cv := range ctxVals {
					set, hand := preDispatchAssign(w, f, cv, 0)
					if set == nil || hand == nil {
						continue
					}
					okPre = true
					for _, pth := range contextFieldPaths(w) {
						if !set[pth] {
							okPre = false
							missing += " " + pth
						}
					}
				}
				r.Check(rule, FuncName(f)+":Get->Init", w.InstrPos(g), okPre, map[bool]string{true: "every field of the pooled context is assigned (in line, by the writer's reset and by Reset) on every path before the dispatcher sees it", false: "pooled context is used without Init (stale state of the previous request; not assigned before dispatch:" + missing + ")"}[okPre])
				continue
			}
			okAll := true
			var badUse ssa.Instruction
			for _, cv := range ctxVals {
				for _, ref := range *cv.Referrers() {
					if ref == initCall {
						continue
					}
					if ex, ok := ref.(*ssa.Extract); ok && got[ex] {
						continue
					}
					if _, ok := ref.(*ssa.DebugRef); ok {
						continue
					}
					if st, ok := ref.(*ssa.Store); ok {
						// spilled into a cell: uses are loads of the cell; check them
						if cell, ok := st.Addr.(*ssa.Alloc); ok && st.Val == cv {
							for _, cr := range *cell.Referrers() {
								if ld, ok := cr.(*ssa.UnOp); ok {
									for _, lu := range *ld.Referrers() {
										if lu != initCall && !dominates(initCall, lu) {
											okAll, badUse = false, lu
										}
									}
								}
							}
							continue
						}
					}
					if !dominates(initCall, ref) {
						okAll, badUse = false, ref
					}
				}
			}
			d := "Init dominates every other use of the pooled context"
			if !okAll {
				d = "use at " + w.Pos(w.InstrPos(badUse)) + " is not preceded by Init on every path"
			}
			r.Check(rule, FuncName(f)+":Get->Init", w.InstrPos(g), okAll, d)
		}
		for i, p := range puts {
			construct := fmt.Sprintf("%s:Put#%d", FuncName(f), i+1)
			if _, isDefer := p.(*ssa.Defer); isDefer {
				r.Check(rule, construct, w.InstrPos(p), false, "ctxPool.Put is deferred: a context whose dispatch panicked would be recycled while the panic hook may still use it")
				continue
			}
			args := callArgs(p)
			var put ssa.Value
			if len(args) > 1 {
				put = args[1]
			}
			for {
				if mi, ok := put.(*ssa.MakeInterface); ok {
					put = mi.X
					continue
				}
				break
			}
			// through a cell
			if ld, ok := put.(*ssa.UnOp); ok && ld.Op == token.MUL {
				if a, ok := ld.X.(*ssa.Alloc); ok {
					if s := singleStore(a); s != nil {
						put = s
					}
				}
			}
			if !got[put] {
				r.Check(rule, construct, w.InstrPos(p), false,
					"ctxPool.Put releases a context this function did not take from the pool (caller-owned: it can be put twice and handed to two concurrent requests)")
				continue
			}
			// last use: no use of the value reachable after Put
			okLast := true
			var later ssa.Instruction
			for _, ref := range *put.Referrers() {
				if ref == p.(ssa.Instruction) {
					continue
				}
				if _, ok := ref.(*ssa.DebugRef); ok {
					continue
				}
				if canReach(p, ref) {
					okLast, later = false, ref
				}
			}
			d := "Put is the last use of the pooled context on every path"
			if !okLast {
				d = "context used at " + w.Pos(w.InstrPos(later)) + " after it was returned to the pool"
			}
			r.Check(rule, construct, w.InstrPos(p), okLast, d)
		}
	}
	r.Exists(rule, "pool sites", token.NoPos, nGet >= 1 && nPut >= 1, fmt.Sprintf("%d Get, %d Put sites on Router.ctxPool", nGet, nPut))
	// the pool's New returns *Context with the router set
	newFn := w.Fn("rux", "New")
	okNew := false
	ctors := poolCtorFns(w)
	for _, a := range ctors {
		okThis := false
		for _, b := range a.Blocks {
			if len(b.Instrs) > 0 {
				if ret, ok := b.Instrs[len(b.Instrs)-1].(*ssa.Return); ok && len(ret.Results) == 1 {
					if mi, ok := ret.Results[0].(*ssa.MakeInterface); ok && isNamedPtr(mi.X.Type(), w.Named("rux", "Context")) {
						if _, isAlloc := mi.X.(*ssa.Alloc); isAlloc {
							okThis = true
						}
					}
				}
			}
		}
		okNew = okThis
		if !okThis {
			break
		}
	}
	r.Check(rule, "rux.New:ctxPool.New", newFn.Pos(), okNew, "the pool constructor returns a freshly allocated *Context")
	// ... and every reference-typed field of the new context is its own: a constructor that fills the object by copying
	// a prototype value shares the prototype's slices and maps (their headers are copied, not their backing arrays)
	// between all contexts of the pool
	for _, a := range ctors {
		eachInstr(a, func(in ssa.Instruction) {
			st, ok := in.(*ssa.Store)
			if !ok {
				return
			}
			al, isAl := st.Addr.(*ssa.Alloc)
			if !isAl || !types.Identical(al.Type().(*types.Pointer).Elem(), w.Named("rux", "Context")) {
				return
			}
			ld, isLd := st.Val.(*ssa.UnOp)
			if !isLd || ld.Op != token.MUL {
				return
			}
			// the prototype: a captured / package-level Context value; which of its fields hold allocated memory?
			var proto ssa.Value = ld.X
			if fv, isFV := proto.(*ssa.FreeVar); isFV {
				if b := freeVarBinding(fv); b != nil {
					proto = b
				}
			}
			shared := ""
			if pa, isPA := proto.(*ssa.Alloc); isPA {
				for _, ref := range *pa.Referrers() {
					fa, isFA := ref.(*ssa.FieldAddr)
					if !isFA {
						continue
					}
					for _, r2 := range *fa.Referrers() {
						s2, isSt := r2.(*ssa.Store)
						if !isSt || s2.Addr != ssa.Value(fa) {
							continue
						}
						switch s2.Val.(type) {
						case *ssa.MakeSlice, *ssa.MakeMap, *ssa.MakeChan, *ssa.Slice:
							shared = fieldName(fa.X.Type(), fa.Field)
						}
					}
				}
			} else {
				shared = "(prototype " + shortCanon(canon(proto)) + ")"
			}
			r.Check(rule, FuncName(a)+":prototype copy", w.InstrPos(in), shared == "", map[bool]string{true: "the copied prototype holds no allocated slice / map: nothing is shared between the pooled contexts", false: "the pool constructor copies a prototype Context whose field " + shared + " holds allocated memory: the copy shares its backing array with every other context of the pool (Reset only re-slices it), so what one request appends — a recorded error — overwrites what a concurrent request recorded"}[shared == ""])
		})
	}
	// every other sync.Pool of the module: a pooled object must be re-initialised before it is used again
	genericPools(r, rule, poolF)
	poolOwnership(r, rule, poolF)
	// who-may-construct responseWriter: only as the writer field of a Context
	rwT := w.Named("rux", "responseWriter")
	for _, f := range w.Funcs {
		eachInstr(f, func(in ssa.Instruction) {
			if a, ok := in.(*ssa.Alloc); ok {
				if p, ok := a.Type().(*types.Pointer); ok && types.Identical(p.Elem(), rwT) {
					if rwValueTemp(w, a) {
						r.Check(rule, FuncName(f)+":responseWriter value", w.InstrPos(in), true, "a responseWriter value that is only filled in and then copied into a Context's writer field (no pointer to it escapes)")
						return
					}
					r.Check(rule, FuncName(f)+":new responseWriter", w.InstrPos(in), false, "a responseWriter outside a Context breaks the per-request ownership argument")
				}
			}
		})
	}
}

// genericPools: for every (*sync.Pool).Get outside the context pool, the value obtained must be
// reset (a method named Reset/Init/reset/Truncate on it) before any other use, or reset before
// every Put on all paths. A pooled object that keeps bytes/state of the previous user leaks them
// into the next request.
func genericPools(r *Run, rule string, ctxPoolF *types.Var) {
	w := r.W
	isReset := func(c ssa.CallInstruction, v ssa.Value) bool {
		args := callArgs(c)
		if len(args) == 0 {
			return false
		}
		if args[0] != v {
			// the reset of a buffer that is a field of the pooled object (je.buf.Reset())
			fa, isFA := args[0].(*ssa.FieldAddr)
			if !isFA || fa.X != v {
				return false
			}
		}
		n := calleeName(c)
		i := strings.LastIndexByte(n, '.')
		switch n[i+1:] {
		case "Reset", "Init", "reset", "init":
			return true
		case "Truncate":
			if len(args) == 2 {
				if z, ok := constInt(args[1]); ok && z == 0 {
					return true
				}
			}
		}
		return false
	}
	for _, f := range w.Funcs {
		n := 0
		for _, g := range callsIn(f, func(c ssa.CallInstruction) bool {
			return calleeName(c) == "(*sync.Pool).Get" && !unwrapAddr(callArgs(c)[0]).hasField(ctxPoolF)
		}) {
			n++
			construct := fmt.Sprintf("%s:pooled object#%d", FuncName(f), n)
			gv := g.Value()
			if gv == nil {
				continue
			}
			vals := []ssa.Value{gv}
			for _, ref := range *gv.Referrers() {
				if ta, ok := ref.(*ssa.TypeAssert); ok {
					vals = append(vals, ta)
					for _, r2 := range *ta.Referrers() {
						if ex, ok := r2.(*ssa.Extract); ok && ex.Index == 0 {
							vals = append(vals, ex)
						}
					}
				}
			}
			okReset := false
			for _, v := range vals {
				// a reset that dominates every other use of v
				var resets []ssa.Instruction
				// the uses of v, with the uses of its field addresses in place of the address computations
				var uses []ssa.Instruction
				for _, ref := range *v.Referrers() {
					if fa, isFA := ref.(*ssa.FieldAddr); isFA && fa.X == v {
						for _, r2 := range *fa.Referrers() {
							uses = append(uses, r2)
							if c, ok := r2.(*ssa.Call); ok && isReset(c, v) {
								resets = append(resets, r2)
							}
						}
						continue
					}
					uses = append(uses, ref)
					if c, ok := ref.(*ssa.Call); ok && isReset(c, v) {
						resets = append(resets, ref)
					}
				}
				for _, rs := range resets {
					all := true
					for _, ref := range uses {
						if ref == rs {
							continue
						}
						switch ref.(type) {
						case *ssa.DebugRef, *ssa.TypeAssert, *ssa.Extract:
							continue
						case *ssa.Defer:
							continue // deferred Put runs at exit
						}
						if !dominates(rs, ref) {
							all = false
						}
					}
					if all {
						okReset = true
					}
				}
				// or: reset inside the deferred closure / before every Put
				for _, ref := range *v.Referrers() {
					if mc, ok := ref.(*ssa.MakeClosure); ok {
						cl := mc.Fn.(*ssa.Function)
						for i, b := range mc.Bindings {
							if b == v && i < len(cl.FreeVars) {
								for _, c := range callsIn(cl, func(c ssa.CallInstruction) bool { return isReset(c, cl.FreeVars[i]) }) {
									_ = c
									okReset = true
								}
							}
						}
					}
				}
			}
			// or: every Put into this pool is preceded, in the same function, by emptying / resetting what is put
			if !okReset {
				poolKey := canon(callArgs(g)[0])
				puts, cleared := 0, 0
				for _, pf := range w.Funcs {
					for _, pc := range callsIn(pf, func(c ssa.CallInstruction) bool {
						return calleeName(c) == "(*sync.Pool).Put" && canon(callArgs(c)[0]) == poolKey
					}) {
						puts++
						pv := callArgs(pc)[1]
						if mi, ok := pv.(*ssa.MakeInterface); ok {
							pv = mi.X
						}
						okC := false
						for _, ref := range *pv.Referrers() {
							switch x := ref.(type) {
							case *ssa.Range:
								for _, r2 := range *pv.Referrers() {
									if c, ok := r2.(*ssa.Call); ok && isBuiltin(c, "delete") && c.Call.Args[0] == pv && inLoop(c) && canReach(x, pc.(ssa.Instruction)) {
										okC = true
									}
								}
							case *ssa.Call:
								if (isBuiltin(x, "clear") && x.Call.Args[0] == pv || isReset(x, pv)) && dominates(x, pc.(ssa.Instruction)) {
									okC = true
								}
							}
						}
						if okC {
							cleared++
						}
					}
				}
				if puts > 0 && puts == cleared {
					okReset = true
				}
			}
			// a pooled map emptied by "for k := range m { delete(m, k) }" or clear(m) before anything else uses it
			for _, v := range vals {
				var clearAt ssa.Instruction
				for _, ref := range *v.Referrers() {
					switch x := ref.(type) {
					case *ssa.Range:
						// a delete(v, key) inside the loop over v
						for _, r2 := range *v.Referrers() {
							if c, ok := r2.(*ssa.Call); ok && isBuiltin(c, "delete") && c.Call.Args[0] == v && inLoop(c) {
								clearAt = x
							}
						}
					case *ssa.Call:
						if isBuiltin(x, "clear") && x.Call.Args[0] == v {
							clearAt = x
						}
					}
				}
				if clearAt == nil {
					continue
				}
				all := true
				for _, ref := range *v.Referrers() {
					switch y := ref.(type) {
					case *ssa.DebugRef, *ssa.TypeAssert, *ssa.Extract, *ssa.Range:
						continue
					case *ssa.Call:
						if isBuiltin(y, "delete") || isBuiltin(y, "clear") {
							continue
						}
					}
					if ref != clearAt && !dominates(clearAt, ref) {
						all = false
					}
				}
				if all {
					okReset = true
				}
			}
			r.Check(rule, construct, w.InstrPos(g), okReset, map[bool]string{true: "the pooled object is reset before it is used (or before it is returned to the pool)", false: "an object taken from a sync.Pool is used without being reset: whatever an earlier user left in it (e.g. bytes buffered before an error return) leaks into this request's output"}[okReset])
		}
	}
}

// poolOwnership: an object that circulates through a sync.Pool (other than the context pool) has exactly one owner
// at a time. (1) Nothing that comes out of the pool is stored into a field of a long-lived object (a route, the
// cache, the router) — the next Get hands the same object to another request while that field still points at it.
// (2) Nothing that is put back derives from such a field — the pool would recycle an object that a shared structure
// (a cached route's parameter map) still uses. Provenance is followed backwards through results of module
// functions, parameters (all call sites), phis, assertions and — field-based, object-insensitive — through loads
// of struct fields to every store into the same field.
func poolOwnership(r *Run, rule string, ctxPoolF *types.Var) {
	w := r.W
	ctxT := w.Named("rux", "Context")
	callers := map[*ssa.Function][]ssa.CallInstruction{}
	stores := map[*types.Var][]*ssa.Store{}
	for _, f := range w.Funcs {
		eachInstr(f, func(in ssa.Instruction) {
			if c, ok := in.(ssa.CallInstruction); ok {
				if sc := staticCallee(c); sc != nil && w.InModule(sc) {
					callers[sc] = append(callers[sc], c)
				}
			}
			if st, ok := in.(*ssa.Store); ok {
				if fa, ok := st.Addr.(*ssa.FieldAddr); ok {
					if fv := fieldVar(fa.X.Type(), fa.Field); fv != nil {
						stores[fv] = append(stores[fv], st)
					}
				}
			}
		})
	}
	isPoolGet := func(v ssa.Value) bool {
		c, ok := v.(*ssa.Call)
		return ok && calleeName(c) == "(*sync.Pool).Get" && !unwrapAddr(callArgs(c)[0]).hasField(ctxPoolF)
	}
	sharedField := func(fv *types.Var) bool {
		// a field of a module struct other than Context (request-local by C10/C03-POOL)
		for _, p := range w.Pkgs {
			sc := p.Types.Scope()
			for _, n := range sc.Names() {
				tn, ok := sc.Lookup(n).(*types.TypeName)
				if !ok {
					continue
				}
				st, ok := tn.Type().Underlying().(*types.Struct)
				if !ok {
					continue
				}
				for i := 0; i < st.NumFields(); i++ {
					if st.Field(i) == fv {
						return !types.Identical(tn.Type(), ctxT)
					}
				}
			}
		}
		return false
	}
	// derives: does v (backwards) come from a value satisfying src? throughFields: follow field loads to stores
	var derives func(v ssa.Value, src func(ssa.Value) bool, seen map[ssa.Value]bool, d int) (bool, string)
	derives = func(v ssa.Value, src func(ssa.Value) bool, seen map[ssa.Value]bool, d int) (bool, string) {
		if v == nil || seen[v] || d > 40 {
			return false, ""
		}
		seen[v] = true
		if src(v) {
			return true, shortCanon(canon(v))
		}
		switch x := v.(type) {
		case *ssa.Phi:
			for _, e := range x.Edges {
				if ok, what := derives(e, src, seen, d+1); ok {
					return true, what
				}
			}
		case *ssa.TypeAssert:
			return derives(x.X, src, seen, d+1)
		case *ssa.ChangeType:
			return derives(x.X, src, seen, d+1)
		case *ssa.MakeInterface:
			return derives(x.X, src, seen, d+1)
		case *ssa.Extract:
			if c, ok := x.Tuple.(*ssa.Call); ok {
				if sc := staticCallee(c); sc != nil && w.InModule(sc) && sc.Blocks != nil {
					found, what := false, ""
					eachInstr(sc, func(in ssa.Instruction) {
						if ret, ok := in.(*ssa.Return); ok && x.Index < len(ret.Results) && !found {
							found, what = derives(ret.Results[x.Index], src, seen, d+1)
						}
					})
					return found, what
				}
			}
			return derives(x.Tuple, src, seen, d+1)
		case *ssa.Call:
			if sc := staticCallee(x); sc != nil && w.InModule(sc) && sc.Blocks != nil {
				found, what := false, ""
				eachInstr(sc, func(in ssa.Instruction) {
					if ret, ok := in.(*ssa.Return); ok && len(ret.Results) == 1 && !found {
						found, what = derives(ret.Results[0], src, seen, d+1)
					}
				})
				return found, what
			}
		case *ssa.Parameter:
			f := x.Parent()
			idx := -1
			for i, prm := range f.Params {
				if prm == x {
					idx = i
				}
			}
			for _, c := range callers[f] {
				args := callArgs(c)
				if idx >= 0 && idx < len(args) {
					if ok, what := derives(args[idx], src, seen, d+1); ok {
						return true, what
					}
				}
			}
		case *ssa.UnOp:
			if x.Op != token.MUL {
				return false, ""
			}
			switch a := x.X.(type) {
			case *ssa.Alloc:
				for _, ref := range *a.Referrers() {
					if st, ok := ref.(*ssa.Store); ok && st.Addr == ssa.Value(a) {
						if ok2, what := derives(st.Val, src, seen, d+1); ok2 {
							return true, what
						}
					}
				}
			case *ssa.FieldAddr:
				if fv := fieldVar(a.X.Type(), a.Field); fv != nil {
					for _, st := range stores[fv] {
						if ok2, what := derives(st.Val, src, seen, d+1); ok2 {
							return true, what
						}
					}
				}
			}
		}
		return false, ""
	}
	n := 0
	// (1) stores into shared fields
	var fvs []*types.Var
	for fv := range stores {
		fvs = append(fvs, fv)
	}
	sort.Slice(fvs, func(i, j int) bool { return fvs[i].Pos() < fvs[j].Pos() })
	anyPool := false
	for _, f := range w.Funcs {
		eachInstr(f, func(in ssa.Instruction) {
			if c, ok := in.(*ssa.Call); ok && isPoolGet(c) {
				anyPool = true
			}
		})
	}
	if !anyPool {
		return
	}
	for _, fv := range fvs {
		if !sharedField(fv) {
			continue
		}
		for _, st := range stores[fv] {
			if ok, what := derives(st.Val, isPoolGet, map[ssa.Value]bool{}, 0); ok {
				n++
				r.Check(rule, fmt.Sprintf("%s:pooled object kept in %s#%d", FuncName(st.Parent()), fv.Name(), n), w.InstrPos(st), false,
					"an object that comes out of a sync.Pool ("+what+") is stored into the field "+fv.Name()+" of a long-lived object: when its request puts it back, the pool hands the same object to another request while this field still points at it (a cached route's parameters are then overwritten by an unrelated request)")
			}
		}
	}
	// (2) Put of something that derives from a shared field
	for _, f := range w.Funcs {
		eachInstr(f, func(in ssa.Instruction) {
			c, ok := in.(ssa.CallInstruction)
			if !ok || calleeName(c) != "(*sync.Pool).Put" || unwrapAddr(callArgs(c)[0]).hasField(ctxPoolF) {
				return
			}
			fromShared := func(v ssa.Value) bool {
				ld, ok := v.(*ssa.UnOp)
				if !ok || ld.Op != token.MUL {
					return false
				}
				fa, ok := ld.X.(*ssa.FieldAddr)
				return ok && sharedField(fieldVar(fa.X.Type(), fa.Field))
			}
			if ok2, what := derives(callArgs(c)[1], fromShared, map[ssa.Value]bool{}, 0); ok2 {
				n++
				r.Check(rule, fmt.Sprintf("%s:Put of a shared object#%d", FuncName(f), n), w.InstrPos(in), false,
					"what is put back into the pool can be an object that a long-lived structure still holds ("+what+"): the pool recycles it for another request while e.g. the cache entry keeps pointing at it")
			}
		})
	}
	r.Check(rule, "pooled objects have one owner", token.NoPos, n == 0, "no pooled object is kept in a long-lived field, and nothing taken from such a field is put into a pool")
}

// PHASE: request-phase code never compiles patterns nor calls registration roots.
func rulePhase(rule string) func(r *Run) {
	return func(r *Run) {
		w := r.W
		cg := w.BuildCG()
		ph := w.Phases(cg)
		r.Floor(rule, 10)
		regRoot := map[*ssa.Function]bool{}
		for _, f := range ph.RegRoots {
			regRoot[f] = true
		}
		// the four router entry points only (Context methods like Router() hand the router to user code)
		core := cg.Reach(w.Fn("rux", "Router.ServeHTTP"), w.Fn("rux", "Router.HandleContext"), w.Fn("rux", "Router.Match"), w.Fn("rux", "Router.QuickMatch"))
		for _, f := range sortFns(core) {
			bad := ""
			var at ssa.Instruction
			eachInstr(f, func(in ssa.Instruction) {
				c, ok := in.(ssa.CallInstruction)
				if !ok {
					return
				}
				switch calleeName(c) {
				case "regexp.Compile", "regexp.MustCompile", "regexp.CompilePOSIX", "regexp.MustCompilePOSIX":
					bad, at = "compiles a pattern at request time (errors would surface at lookup, not registration)", in
				}
				if sc := staticCallee(c); sc != nil && regRoot[sc] {
					bad, at = "calls registration entry point "+FuncName(sc), in
				}
			})
			pos := f.Pos()
			if at != nil {
				pos = w.InstrPos(at)
			}
			r.Check(rule, FuncName(f), pos, bad == "", "request-phase function "+map[bool]string{true: "stays out of registration code", false: bad}[bad == ""])
		}
	}
}

func init() {
	register(&property{
		Meta: propertyMeta{
			ID:          "C03",
			Explanation: "Structural half of race-freedom, decided for all schedules at once: (C03-EFF) every memory-writing instruction (store, map update/delete, copy, receiver-mutating library call) in every function reachable from the request-phase roots is classified by the root of its destination; a write to router-shared memory is accepted only inside cachedRoutes methods under the exclusive lock. (C03-APPEND) no append onto a shared slice in the request phase. (C03-LOCK) lock-set analysis of every cachedRoutes method: reads of list/hashMap need R or W, mutations need W, every acquisition has the matching release on every exit, cache internals are not touched outside the methods. (C03-POOL) typestate of the pooled context: Get -> Init before any use, Put only of a value obtained from Get in the same function, Put is the last use and never deferred. (PHASE) the router's request path never calls registration code or compiles patterns. Pool ownership: see C02; a pooled map emptied by a range/delete loop or clear() counts as reset, on the Get side or before every Put.",
			NotDecided: []string{
				"anything user handlers do (dynamic calls through HandlerFunc values are the stated boundary)",
				"internals of net/http, regexp, sync.Pool, container/list (trusted; summaries listed in the checker)",
				"'produces exactly the response it would produce alone' beyond the absence of shared writes",
			},
			Assumptions: []string{
				"registration is finished before the first request (the property's own premise)",
				"regexp.Regexp matching methods are safe for concurrent use (documented by the standard library)",
				"external callee summaries in extMutators / extReadOnly (rules_c03.go) are correct",
			},
		},
		Rules: []ruleFn{
			{"C03-EFF", ruleC03Eff},
			{"C03-LOCK", ruleCacheLock("C03-LOCK")},
			{"C03-POOL", ruleC03Pool},
			{"C10-RESET", ruleC10Reset},
			{"C10-FRESH", ruleC10Fresh},
			{"PHASE", rulePhase("PHASE")},
		},
	})
}

// poolCtorFns: the functions installed as Router.ctxPool.New — a function literal, or a method
// installed as a method value (then the method itself, behind go/ssa's bound-method wrapper).
func poolCtorFns(w *World) []*ssa.Function {
	poolF := w.Field("rux", "Router", "ctxPool")
	var out []*ssa.Function
	for _, f := range w.Funcs {
		eachInstr(f, func(in ssa.Instruction) {
			st, ok := in.(*ssa.Store)
			if !ok {
				return
			}
			fa, isFA := st.Addr.(*ssa.FieldAddr)
			if !isFA || fieldName(fa.X.Type(), fa.Field) != "New" || !unwrapAddr(fa.X).hasField(poolF) {
				return
			}
			v := st.Val
			if ct, ok := v.(*ssa.ChangeType); ok {
				v = ct.X
			}
			var fn *ssa.Function
			switch x := v.(type) {
			case *ssa.MakeClosure:
				fn, _ = x.Fn.(*ssa.Function)
			case *ssa.Function:
				fn = x
			}
			if fn == nil {
				return
			}
			if fn.Synthetic != "" {
				// bound-method wrapper: the method it forwards to
				var target *ssa.Function
				for _, b := range fn.Blocks {
					for _, x := range b.Instrs {
						if c, ok := x.(*ssa.Call); ok {
							if sc := staticCallee(c); sc != nil && w.InModule(sc) {
								target = sc
							}
						}
					}
				}
				if target != nil {
					fn = target
				}
			}
			out = append(out, fn)
		})
	}
	return out
}

// rwValueTemp: the local responseWriter cell is a pure value temporary — its fields are stored, and the whole
// value is loaded only to be stored into the writer field of a Context; its address goes nowhere else.
func rwValueTemp(w *World, a *ssa.Alloc) bool {
	if a.Heap {
		return false
	}
	writerF := w.Field("rux", "Context", "writer")
	for _, ref := range *a.Referrers() {
		switch x := ref.(type) {
		case *ssa.DebugRef:
		case *ssa.FieldAddr:
			for _, r2 := range *x.Referrers() {
				if st, ok := r2.(*ssa.Store); !ok || st.Addr != ssa.Value(x) {
					if _, isDbg := r2.(*ssa.DebugRef); !isDbg {
						return false
					}
				}
			}
		case *ssa.Store:
			if x.Addr != ssa.Value(a) {
				return false
			}
			// initialised from another value (a zero value or a literal): fine
		case *ssa.UnOp:
			if x.Op != token.MUL {
				return false
			}
			for _, r2 := range *x.Referrers() {
				st, ok := r2.(*ssa.Store)
				if !ok {
					if _, isDbg := r2.(*ssa.DebugRef); isDbg {
						continue
					}
					if st2, isSt := r2.(*ssa.Store); isSt {
						_ = st2
					}
					// stored into another value temp of the same kind
					return false
				}
				if fa, isFA := st.Addr.(*ssa.FieldAddr); isFA && fieldVar(fa.X.Type(), fa.Field) == writerF {
					continue
				}
				if a2, isAl := st.Addr.(*ssa.Alloc); isAl && a2 != a && rwValueTemp(w, a2) {
					continue
				}
				return false
			}
		default:
			return false
		}
	}
	return true
}
