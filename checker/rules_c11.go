package main

// rules_c11.go — C11 (normalisation) and C13 (registration gates, panic-free lookup).

import (
	"fmt"
	"go/constant"
	"go/token"
	"go/types"
	"strings"

	"golang.org/x/tools/go/ssa"
)

// isFormatted: v is the result of (*Router).formatPath on receiver recv (or a
// phi of such, or a parameter of an unexported function all of whose call
// sites pass such values).
func isFormatted(w *World, v ssa.Value, depth int) (bool, string) {
	fp := w.Fn("rux", "Router.formatPath")
	if depth > 5 {
		return false, "too deep"
	}
	switch x := v.(type) {
	case *ssa.Call:
		if staticCallee(x) == fp {
			recv := x.Call.Args[0]
			if prm, ok := recv.(*ssa.Parameter); ok && prm == prm.Parent().Params[0] {
				return true, "formatPath on the router itself"
			}
			if canon(recv) == "param:r" {
				return true, "formatPath on the router itself"
			}
			return false, "formatPath called on a different router value"
		}
		return false, "result of " + calleeName(x)
	case *ssa.Phi:
		for _, e := range x.Edges {
			if ok, why := isFormatted(w, e, depth+1); !ok {
				return false, why
			}
		}
		return true, "all incoming values formatted"
	case *ssa.Parameter:
		fn := x.Parent()
		if fn.Object() != nil && fn.Object().Exported() {
			return false, "parameter " + x.Name() + " of exported " + FuncName(fn) + " (arbitrary caller string)"
		}
		idx := -1
		for i, q := range fn.Params {
			if q == x {
				idx = i
			}
		}
		n := 0
		for _, g := range w.Funcs {
			for _, c := range callsToFn(g, fn) {
				n++
				if ok, why := isFormatted(w, c.Common().Args[idx], depth+1); !ok {
					return false, "call in " + FuncName(g) + ": " + why
				}
			}
		}
		if n == 0 {
			return false, "no call sites"
		}
		return true, "every call site passes a formatted path"
	}
	return false, "not a formatPath result: " + shortCanon(canon(v))
}

func ruleC11Same(r *Run) {
	w := r.W
	rule := "C11-SAME"
	r.Floor(rule, 5)
	tm := newTierModel(w)
	// reader side: every path argument of the matcher
	n := 0
	for _, g := range w.Funcs {
		for _, c := range callsToFn(g, tm.matchFn) {
			n++
			ok, why := isFormatted(w, c.Common().Args[2], 0)
			r.Check(rule, fmt.Sprintf("%s:match path arg#%d", FuncName(g), n), w.InstrPos(c), ok,
				map[bool]string{true: "lookup path normalised by formatPath (" + why + ")", false: "the matcher receives a path that did not pass through the normaliser: " + why}[ok])
		}
	}
	// writer side: route.path after the registration step that applies the group (appendGroupInfo, or
	// appendRoute itself when that step is written in line)
	agi, gates := pathStep(w, tm)
	// the values that become route.path: stored by the step itself, or returned by it and stored by appendRoute
	type finalPath struct {
		val ssa.Value
		in  ssa.Instruction
		all bool
	}
	var finals []finalPath
	for _, st := range storesToField(agi, tm.path) {
		all, _ := allPathsHit(agi, nil, func(in ssa.Instruction) bool { return in == ssa.Instruction(st) })
		if c, isCall := st.Val.(*ssa.Call); isCall && agi == tm.appendRoute {
			if sc := staticCallee(c); sc != nil && w.InModule(sc) && sc != w.Fn("rux", "Router.formatPath") && sc.Signature.Results().Len() == 1 {
				// route.path = r.step(...): what the step returns
				eachInstr(sc, func(in ssa.Instruction) {
					if ret, ok := in.(*ssa.Return); ok && len(ret.Results) == 1 {
						finals = append(finals, finalPath{ret.Results[0], in, all})
					}
				})
				continue
			}
		}
		finals = append(finals, finalPath{st.Val, st, all})
	}
	r.Check(rule, "(*Router).appendGroupInfo:stores path", agi.Pos(), len(finals) >= 1, fmt.Sprintf("%d value(s) become route.path in %s", len(finals), FuncName(agi)))
	for i, fpv := range finals {
		ok, why := isFormatted(w, fpv.val, 0)
		r.Check(rule, fmt.Sprintf("(*Router).appendGroupInfo:route.path#%d", i+1), w.InstrPos(fpv.in), ok && (fpv.all || len(finals) > 1),
			map[bool]string{true: "registered path normalised by the same formatPath on the same router", false: "registered path not normalised by formatPath: " + why}[ok])
	}
	// the group prefix is applied before the final normalisation
	prefF := w.Field("rux", "Router", "currentGroupPrefix")
	okPref := false
	for _, fpv := range finals {
		for _, lf := range valueLeaves(fpv.val) {
			if c, isCall := lf.(*ssa.Call); isCall && len(c.Call.Args) == 2 {
				if b, isB := c.Call.Args[1].(*ssa.BinOp); isB && b.Op == token.ADD && isLoadOfField(b.X, prefF) {
					okPref = true
				}
			}
		}
	}
	r.Check(rule, "(*Router).appendGroupInfo:prefix then normalise", agi.Pos(), okPref, map[bool]string{true: "formatPath(prefix + path): the concatenation is normalised as a whole", false: "the group prefix is not concatenated before the final normalisation"}[okPref])
	// appendGroupInfo runs before the route becomes visible in any table
	ar := tm.appendRoute
	for _, tu := range tm.tierUpdates() {
		if tu.f != ar {
			continue
		}
		ok := false
		for _, c := range gates {
			if dominates(c, tu.mu) {
				ok = true
			}
		}
		r.Check(rule, fmt.Sprintf("(*Router).appendRoute:normalise before %s insert#%d", tm.tierName(tu.fv), tu.ord), w.InstrPos(tu.mu), ok, "the path is normalised before the route is inserted")
	}
	ruleC11Prenorm(r, tm)
	ruleC11Trail(r)
	// formatPath itself trims first: its three kinds of input (route paths, group prefixes, request paths) reach it
	// from different callers, and only what it does itself is done for all of them
	if fp := w.Fn("rux", "Router.formatPath"); len(fp.Params) >= 2 {
		prm := fp.Params[1]
		bad := ""
		var badPos token.Pos
		eachInstr(fp, func(in ssa.Instruction) {
			ret, ok := in.(*ssa.Return)
			if !ok || bad != "" {
				return
			}
			for _, lf := range valueLeaves(ret.Results[0]) {
				if _, isC := lf.(*ssa.Const); isC {
					continue
				}
				isTrim := func(y ssa.Value) bool {
					c, ok := y.(*ssa.Call)
					if !ok {
						return false
					}
					switch calleeName(c) {
					case "strings.TrimSpace", "strings.TrimFunc", "strings.Trim":
						return flowsFromDeep(c.Call.Args[0], func(z ssa.Value) bool { return z == ssa.Value(prm) })
					}
					return false
				}
				trimmed := flowsFromDeep(lf, isTrim)
				raw := flowsFromDeepExcept(lf, func(y ssa.Value) bool { return y == ssa.Value(prm) }, isTrim)
				if !trimmed || raw {
					bad, badPos = shortCanon(canon(lf)), w.InstrPos(in)
				}
			}
		})
		pos := fp.Pos()
		if bad != "" {
			pos = badPos
		}
		r.Check("C11-PRENORM", "(*Router).formatPath:trims first", pos, bad == "", map[bool]string{true: "every non-constant result of formatPath derives from the white-space-trimmed parameter", false: "formatPath returns text (" + bad + ") that is not derived from the trimmed parameter: callers that do not trim themselves — Group passes its prefix as given — register \"/ /api /users\" for a prefix \" /api \", which no request path normalises to"}[bad == ""])
	}
	// with a group prefix in force the stored path is ALWAYS the normalised concatenation: a shortcut that keeps the
	// path as it is when it "already starts with the prefix" registers /api/api-docs as /api-docs
	for i, fpv := range finals {
		okAll := true
		why := ""
		phiLeavesA(fpv.val, fpv.in, func(leaf ssa.Value, fact factOracle, aliases []ssa.Value) {
			if c, isCall := leaf.(*ssa.Call); isCall && len(c.Call.Args) == 2 {
				if b, isB := c.Call.Args[1].(*ssa.BinOp); isB && b.Op == token.ADD && isLoadOfField(b.X, prefF) {
					return
				}
			}
			// without the prefix: only where the prefix is known to be empty
			empty := fact(func(cond ssa.Value, truth bool) bool {
				b, ok := cond.(*ssa.BinOp)
				if !ok || (b.Op != token.EQL && b.Op != token.NEQ) {
					return false
				}
				var other ssa.Value
				if isLoadOfField(b.X, prefF) {
					other = b.Y
				} else if isLoadOfField(b.Y, prefF) {
					other = b.X
				} else {
					return false
				}
				sv, okc := constString(other)
				return okc && sv == "" && truth == (b.Op == token.EQL)
			})
			if !empty {
				okAll, why = false, shortCanon(canon(leaf))
			}
		})
		r.Check(rule, fmt.Sprintf("(*Router).appendGroupInfo:route.path#%d prefixed on every path", i+1), w.InstrPos(fpv.in), okAll, map[bool]string{true: "every alternative of the stored path is formatPath(prefix + path), except where the prefix is known to be empty", false: "an alternative of the stored path (" + why + ") lacks the group prefix although a prefix can be in force: the route is registered outside its group"}[okAll])
	}
}

// C11-TRAIL: registration normalises a grouped route twice (group prefix, then prefix + path) and a request once,
// so the two sides agree only if formatPath is idempotent; for the last-slash rule that means ALL trailing slashes
// go, not one ("/a//" -> "/a/" -> "/a" otherwise). Checked: formatPath removes trailing slashes with
// strings.TrimRight / TrimFunc over a cut set that contains '/', or in a loop; a single re-slice or TrimSuffix
// outside a loop removes one slash only.
func ruleC11Trail(r *Run) {
	w := r.W
	rule := "C11-TRAIL"
	fp := w.Fn("rux", "Router.formatPath")
	if len(fp.Params) < 2 {
		return
	}
	prm := fp.Params[1]
	fromParam := func(v ssa.Value) bool {
		return flowsFromDeep(v, func(y ssa.Value) bool { return y == ssa.Value(prm) })
	}
	all, one := false, false
	var onePos token.Pos
	fns := append([]*ssa.Function{fp}, calleesOf(w, fp)...)
	for _, f := range fns {
		if f != fp && (f.Signature.Params().Len() != 1 || f.Signature.Results().Len() != 1) {
			continue
		}
		eachInstr(f, func(in ssa.Instruction) {
			switch x := in.(type) {
			case *ssa.Call:
				switch calleeName(x) {
				case "strings.TrimRight", "strings.Trim":
					if cs, ok := constString(x.Call.Args[1]); ok && strings.Contains(cs, "/") && (f != fp || fromParam(x.Call.Args[0])) {
						all = true
					}
				case "strings.TrimRightFunc", "strings.TrimFunc":
					all = true
				case "strings.TrimSuffix":
					if cs, ok := constString(x.Call.Args[1]); ok && cs == "/" {
						if inLoop(in) {
							all = true
						} else {
							one, onePos = true, w.InstrPos(in)
						}
					}
				}
			case *ssa.Slice:
				// s[:len(s)-1]
				if x.High != nil && x.Low == nil {
					if b, ok := x.High.(*ssa.BinOp); ok && b.Op == token.SUB {
						if c, okc := constInt(b.Y); okc && c == 1 {
							if inLoop(in) {
								all = true
							} else {
								one, onePos = true, w.InstrPos(in)
							}
						}
					}
				}
			}
		})
	}
	pos := fp.Pos()
	if !all && one {
		pos = onePos
	}
	r.Check(rule, "(*Router).formatPath:all trailing slashes", pos, all, map[bool]string{true: "without StrictLastSlash every trailing slash is removed (TrimRight over a cut set with '/', or a loop): normalising twice equals normalising once", false: "formatPath does not remove ALL trailing slashes (one re-slice / TrimSuffix at most): it is no longer idempotent, and registration — which normalises a grouped path twice — stores \"/api/items\" for a definition that a request for the same text normalises to \"/api/items/\""}[all])
}

// C11-PRENORM: the route constructors run a pre-normaliser (simpleFmtPath) that the lookup side does not have.
// Registration and lookup still agree for every string only if formatPath absorbs it — and formatPath trims
// white space FIRST, so a pre-normaliser that inspects or prepends to the raw text before trimming puts leading
// white space inside the path where formatPath's trim can no longer reach it (" /users" -> "/ /users"). The
// structural condition checked: in every string->string function of the root package that lies between a
// constructor's path parameter and the store into Route.path, every returned value is a constant or derives
// from a white-space trim of the parameter.
func ruleC11Prenorm(r *Run, tm *tierModel) {
	w := r.W
	rule := "C11-PRENORM"
	fp := w.Fn("rux", "Router.formatPath")
	isStrFn := func(g *ssa.Function) bool {
		sg := g.Signature
		return sg.Recv() == nil && sg.Params().Len() == 1 && sg.Results().Len() == 1 &&
			types.Identical(sg.Params().At(0).Type(), types.Typ[types.String]) && types.Identical(sg.Results().At(0).Type(), types.Typ[types.String])
	}
	isTrim := func(v ssa.Value, prm *ssa.Parameter) bool {
		c, ok := v.(*ssa.Call)
		if !ok {
			return false
		}
		switch calleeName(c) {
		case "strings.TrimSpace", "strings.TrimFunc", "strings.Trim":
			return flowsFromDeep(c.Call.Args[0], func(y ssa.Value) bool { return y == ssa.Value(prm) })
		}
		return false
	}
	seen := map[*ssa.Function]bool{}
	n := 0
	for _, f := range w.Funcs {
		if f.Pkg == nil || f.Pkg.Pkg.Path() != modPath || f.Parent() != nil {
			continue
		}
		for _, st := range storesToField(f, tm.path) {
			// only stores fed from a string parameter of f through a module function other than formatPath
			var cands []*ssa.Function
			flowsFromDeep(st.Val, func(y ssa.Value) bool {
				if c, ok := y.(*ssa.Call); ok {
					if g := staticCallee(c); g != nil && g != fp && w.InModule(g) && g.Blocks != nil && isStrFn(g) {
						fromParam := false
						for _, prm := range f.Params {
							if flowsFromDeep(c.Call.Args[0], func(z ssa.Value) bool { return z == ssa.Value(prm) }) {
								fromParam = true
							}
						}
						if fromParam {
							cands = append(cands, g)
						}
					}
				}
				return false
			})
			for _, g := range cands {
				if seen[g] {
					continue
				}
				seen[g] = true
				n++
				prm := g.Params[0]
				bad := ""
				var badPos token.Pos
				eachInstr(g, func(in ssa.Instruction) {
					ret, ok := in.(*ssa.Return)
					if !ok || bad != "" {
						return
					}
					for _, lf := range valueLeaves(ret.Results[0]) {
						if _, isC := lf.(*ssa.Const); isC {
							continue
						}
						trimmed := flowsFromDeep(lf, func(y ssa.Value) bool { return isTrim(y, prm) })
						// the raw parameter must not reach the result around the trim
						raw := flowsFromDeepExcept(lf, func(y ssa.Value) bool { return y == ssa.Value(prm) }, func(y ssa.Value) bool { return isTrim(y, prm) })
						if !trimmed || raw {
							bad, badPos = "a returned value ("+shortCanon(canon(lf))+") is built from the raw parameter, not from its white-space-trimmed form", w.InstrPos(in)
						}
					}
				})
				pos := g.Pos()
				if bad != "" {
					pos = badPos
				}
				r.Check(rule, FuncName(g)+":trims first", pos, bad == "", map[bool]string{true: "every result of the registration-only pre-normaliser is a constant or derives from the trimmed parameter, so formatPath (which trims first) absorbs it", false: bad + ": leading white space ends up inside the registered path (\" /users\" -> \"/ /users\") where the lookup side, which only runs formatPath, never produces it — a route that no request for the same string reaches"}[bad == ""])
			}
		}
	}
	_ = n
}

// flowsFromDeepExcept: like flowsFromDeep, but does not look through values satisfying stop.
func flowsFromDeepExcept(v ssa.Value, src, stop func(ssa.Value) bool) bool {
	seen := map[ssa.Value]bool{}
	var walk func(v ssa.Value, d int) bool
	walk = func(v ssa.Value, d int) bool {
		if v == nil || seen[v] || d > 80 {
			return false
		}
		seen[v] = true
		if stop(v) {
			return false
		}
		if src(v) {
			return true
		}
		if al, ok := v.(*ssa.Alloc); ok {
			for _, ref := range *al.Referrers() {
				if st, ok := ref.(*ssa.Store); ok && st.Addr == ssa.Value(al) && walk(st.Val, d+1) {
					return true
				}
			}
			return false
		}
		if in, ok := v.(ssa.Instruction); ok {
			for _, op := range in.Operands(nil) {
				if op != nil && *op != nil && walk(*op, d+1) {
					return true
				}
			}
		}
		return false
	}
	return walk(v, 0)
}

func ruleC11Enc(r *Run) {
	w := r.W
	rule := "C11-ENC"
	r.Floor(rule, 2)
	tm := newTierModel(w)
	disp := w.Dispatcher()
	encF := w.Field("rux", "Router", "useEncodedPath")
	for _, q := range callsToFn(disp, tm.quick) {
		paths, complete := enumPaths(disp, q.(ssa.Instruction), 4096)
		if !complete {
			r.Undecided(rule, "(*Router).handleHTTPRequest:paths", disp.Pos(), "too many paths")
			return
		}
		okDec, okEnc := true, true
		nDec, nEnc := 0, 0
		for _, p := range paths {
			v := resolvePhi(q.Common().Args[2], p)
			enc, have := false, false
			for _, d := range p.decs {
				if isLoadOfField(d.Cond, encF) {
					enc, have = d.Truth, true
				}
			}
			cv := canon(v)
			if have && enc {
				nEnc++
				c, isCall := v.(*ssa.Call)
				isURL := func(x ssa.Value) bool {
					if strings.HasSuffix(canon(x), ".Req.URL") {
						return true
					}
					fs, isReq := w.reqAccess(x)
					return isReq && len(fs) == 1 && fs[0] == "URL"
				}
				if !isCall || calleeName(c) != "(*net/url.URL).EscapedPath" || !isURL(c.Call.Args[0]) {
					okEnc = false
				}
			} else {
				nDec++
				fs, isReq := w.reqAccess(v)
				if !strings.HasSuffix(cv, ".Req.URL.Path") && !(isReq && len(fs) == 2 && fs[0] == "URL" && fs[1] == "Path") {
					okDec = false
				}
			}
		}
		r.Check(rule, "(*Router).handleHTTPRequest:decoded path", w.InstrPos(q), okDec && nDec > 0, map[bool]string{true: "without UseEncodedPath the matcher receives Req.URL.Path", false: "without UseEncodedPath the matcher does not receive the decoded URL path"}[okDec && nDec > 0])
		r.Check(rule, "(*Router).handleHTTPRequest:escaped path", w.InstrPos(q), okEnc && nEnc > 0, map[bool]string{true: "with UseEncodedPath the matcher receives Req.URL.EscapedPath()", false: "with UseEncodedPath the matcher does not receive the escaped path"}[okEnc && nEnc > 0])
		// the matcher normalises exactly what it was given: QuickMatch hands its path parameter (or the configured
		// intercept path) to formatPath as it is — cutting it (at a '?', a '#', a suffix) cuts request paths that
		// legitimately contain that byte after decoding
		if qm := w.FnOpt("rux", "Router.QuickMatch"); qm != nil && len(qm.Params) >= 3 {
			fpF := w.Fn("rux", "Router.formatPath")
			icF := w.Field("rux", "Router", "interceptAll")
			for ci, c := range callsToFn(qm, fpF) {
				okRaw := true
				what := ""
				for _, lf := range valueLeaves(c.Common().Args[1]) {
					if lf == ssa.Value(qm.Params[2]) || isLoadOfField(lf, icF) {
						continue
					}
					if cc, isC := lf.(*ssa.Call); isC && calleeName(cc) == "strings.TrimSpace" {
						continue
					}
					okRaw, what = false, shortCanon(canon(lf))
				}
				r.Check(rule, fmt.Sprintf("(*Router).QuickMatch:formatPath input#%d", ci+1), w.InstrPos(c.(ssa.Instruction)), okRaw, map[bool]string{true: "formatPath receives the request path (or the intercept path) as given", false: "the request path is rewritten (" + what + ") before it is normalised and matched: a decoded path that contains the cut-off byte (a built URL for a value with '?') is truncated and dispatched to another route, or none"}[okRaw])
			}
		}
	}
}

// runIdx runs E-IDX on a set of functions and reports under rule.
func runIdx(r *Run, rule string, fns []*ssa.Function, floor int) {
	w := r.W
	r.Floor(rule, floor)
	p := newIdxProver(w)
	seen := map[*ssa.Function]bool{}
	var list []*ssa.Function
	for _, f := range fns {
		for _, g := range withAnon(f) {
			if !seen[g] {
				seen[g] = true
				list = append(list, g)
			}
		}
	}
	// infer pre-conditions for parameters of unexported functions
	for iter := 0; iter < 3; iter++ {
		changed := false
		for _, f := range list {
			if f.Object() != nil && f.Object().Exported() {
				continue
			}
			for _, ob := range p.collect(f) {
				if ob.ok || (ob.kind != "index" && ob.kind != "slice") {
					continue
				}
				var x ssa.Value
				switch in := ob.in.(type) {
				case *ssa.Slice:
					x = in.X
				case *ssa.Lookup:
					x = in.X
				case *ssa.IndexAddr:
					x = in.X
				}
				if prm, ok := x.(*ssa.Parameter); ok && prm.Parent() == f {
					need := p.pre[prm] + 1
					if need <= 2 {
						p.pre[prm] = need
						changed = true
					}
				}
			}
		}
		if !changed {
			break
		}
	}
	// drop pre-conditions that did not help
	for prm := range p.pre {
		f := prm.Parent()
		still := false
		for _, ob := range p.collect(f) {
			if !ob.ok {
				switch in := ob.in.(type) {
				case *ssa.Slice:
					still = still || in.X == ssa.Value(prm)
				case *ssa.Lookup:
					still = still || in.X == ssa.Value(prm)
				}
			}
		}
		if still {
			delete(p.pre, prm)
		}
	}
	nTrusted := 0
	for _, f := range list {
		for _, ob := range p.collect(f) {
			if ob.trusted != "" {
				nTrusted++
			}
			r.Check(rule, ob.construct, w.InstrPos(ob.in), ob.ok, ob.kind+": "+ob.detail)
			if r.IdxSites == nil {
				r.IdxSites = map[string]bool{}
			}
			ps := w.Fset.Position(w.InstrPos(ob.in))
			r.IdxSites[fmt.Sprintf("%s:%d", ps.Filename, ps.Line)] = true
		}
		if r.IdxSites == nil {
			r.IdxSites = map[string]bool{}
		}
		// remember which functions were covered (for the compiler cross-reference)
		r.IdxSites["fn:"+FuncName(f)] = true
	}
	p.checkPre(func(construct string, in ssa.Instruction, ok bool, detail string) {
		pos := token.NoPos
		if in != nil {
			pos = w.InstrPos(in)
		}
		r.Check(rule, construct, pos, ok, "pre-condition: "+detail)
	})
	var pres []string
	for prm, n := range p.pre {
		pres = append(pres, fmt.Sprintf("%s: len(%s) >= %d", FuncName(prm.Parent()), prm.Name(), n))
	}
	r.Analysed[rule+"_preconditions"] = pres
	r.Analysed[rule+"_trusted_discharges"] = nTrusted
	var posts []string
	for f, po := range p.post {
		if po.proved && po.minLen > 0 {
			posts = append(posts, fmt.Sprintf("%s: len(result) >= %d, first byte %q", FuncName(f), po.minLen, rune(po.first)))
		}
	}
	r.Analysed[rule+"_postconditions"] = posts
}

func ruleC11Total(r *Run) {
	w := r.W
	fns := []*ssa.Function{w.Fn("rux", "Router.formatPath"), w.Fn("rux", "simpleFmtPath"), w.Fn("rux", "Router.match"), w.Fn("rux", "Router.QuickMatch"), w.Fn("rux", "Router.findAllowedMethods")}
	runIdx(r, "C11-TOTAL", fns, 5)
	// the post-condition that match relies on
	p := newIdxProver(w)
	po := p.postOf(w.Fn("rux", "Router.formatPath"))
	r.Check("C11-TOTAL", "(*Router).formatPath:postcondition", w.Fn("rux", "Router.formatPath").Pos(), po.proved && po.minLen >= 1 && po.first == '/',
		fmt.Sprintf("every return of formatPath is non-empty and starts with '/' (proved min length %d, first byte %q)", po.minLen, rune(po.first)))
}

// ---------------------------------------------------------------------------
// C13

func requestCore(w *World) []*ssa.Function {
	cg := w.BuildCG()
	core := cg.Reach(w.Fn("rux", "Router.ServeHTTP"), w.Fn("rux", "Router.HandleContext"), w.Fn("rux", "Router.Match"), w.Fn("rux", "Router.QuickMatch"))
	// the default fallback handlers run inside the chain
	init := w.SSA[modPath].Func("init")
	for _, a := range init.AnonFuncs {
		if isHandlerShaped(a) {
			for f := range cg.Reach(a) {
				core[f] = true
			}
		}
	}
	for f := range cg.Reach(w.Fn("rux", "Context.Next")) {
		core[f] = true
	}
	// helpers that only format/debug-print are not part of matching
	var out []*ssa.Function
	for _, f := range sortFns(core) {
		if f.Parent() != nil {
			continue // closures are visited through withAnon of their parent
		}
		out = append(out, f)
	}
	return out
}

func ruleC13Total(r *Run) {
	w := r.W
	core := requestCore(w)
	var names []string
	for _, f := range core {
		names = append(names, FuncName(f))
	}
	r.Analysed["lookup_core_functions"] = names
	// functions reached only through Context helper methods used by the default handlers (http.Error etc.) are included
	runIdx(r, "C13-TOTAL", core, 14)
	// who-may-push: only *cacheNode values enter the recency list
	cm := newCacheModel(w)
	for _, f := range w.Funcs {
		for i, c := range callsIn(f, func(c ssa.CallInstruction) bool {
			op := listOp(c)
			return op == "PushFront" || op == "PushBack" || op == "InsertBefore" || op == "InsertAfter"
		}) {
			arg := c.Common().Args[1]
			ok := false
			if mi, isMI := arg.(*ssa.MakeInterface); isMI && isNamedPtr(mi.X.Type(), cm.nodeT) {
				if _, isPtr := mi.X.Type().(*types.Pointer); isPtr {
					ok = true
				}
			}
			r.Check("C13-TOTAL", fmt.Sprintf("%s:list insert#%d value type", FuncName(f), i+1), w.InstrPos(c), ok, "only *cacheNode values are pushed on the recency list (discharges the unchecked assertions)")
		}
	}
	// only *Context values are Put into the pool
	poolF := w.Field("rux", "Router", "ctxPool")
	for _, f := range w.Funcs {
		for i, c := range callsIn(f, func(c ssa.CallInstruction) bool {
			return calleeName(c) == "(*sync.Pool).Put" && unwrapAddr(callArgs(c)[0]).hasField(poolF)
		}) {
			arg := callArgs(c)[1]
			ok := false
			if mi, isMI := arg.(*ssa.MakeInterface); isMI && isNamedPtr(mi.X.Type(), w.Named("rux", "Context")) {
				ok = true
			}
			r.Check("C13-TOTAL", fmt.Sprintf("%s:pool Put#%d value type", FuncName(f), i+1), w.InstrPos(c), ok, "only *Context values are put into the context pool")
		}
	}
}

func ruleC13Gate(r *Run) {
	w := r.W
	rule := "C13-GATE"
	r.Floor(rule, 10)
	tm := newTierModel(w)
	ar := tm.appendRoute
	goodInfo := w.Fn("rux", "Route.goodInfo")
	_, agiGates := pathStep(w, tm)
	namedF := w.Field("rux", "Router", "namedRoutes")
	counterF := w.Field("rux", "Router", "counter")
	// (1) validation dominates visibility
	var visible []ssa.Instruction
	tables := map[*types.Var]bool{}
	eachInstr(ar, func(in ssa.Instruction) {
		if mu, ok := in.(*ssa.MapUpdate); ok {
			hit := false
			// the table may be selected through a local (table := r.irregularRoutes / r.regularRoutes)
			for _, lf := range valueLeaves(mu.Map) {
				fv := unwrapAddr(lf).lastField()
				if fv == tm.stable || fv == tm.regular || fv == tm.irreg || fv == namedF {
					tables[fv] = true
					hit = true
				}
			}
			if hit {
				visible = append(visible, in)
			}
		}
	})
	r.Exists(rule, "(*Router).appendRoute:table inserts", ar.Pos(), len(tables) >= 4, fmt.Sprintf("%d insert site(s) covering %d of the 4 tables (3 tiers + name index)", len(visible), len(tables)))
	for i, v := range visible {
		for gi, gname := range []string{"goodInfo", "appendGroupInfo"} {
			ok := false
			var gs []ssa.Instruction
			if gi == 0 {
				for _, c := range callsToFn(ar, goodInfo) {
					if len(c.Common().Args) > 0 {
						gs = append(gs, c)
					}
				}
			} else {
				gs = agiGates
			}
			for _, c := range gs {
				if dominates(c, v) {
					ok = true
				}
			}
			r.Check(rule, fmt.Sprintf("(*Router).appendRoute:%s before insert#%d", gname, i+1), w.InstrPos(v), ok,
				map[bool]string{true: gname + " runs before the route becomes visible", false: "the route is inserted into a table before " + gname + " validated it"}[ok])
		}
		// dynamic tiers: the pattern is parsed/compiled first
		dyn := false
		for _, lf := range valueLeaves(v.(*ssa.MapUpdate).Map) {
			if fv := unwrapAddr(lf).lastField(); fv == tm.regular || fv == tm.irreg {
				dyn = true
			}
		}
		if dyn {
			ok := false
			for _, c := range callsToFn(ar, tm.parse) {
				if dominates(c, v) {
					ok = true
				}
			}
			r.Check(rule, fmt.Sprintf("(*Router).appendRoute:pattern compiled before insert#%d", i+1), w.InstrPos(v), ok, "dynamic routes are parsed and compiled at registration, before they are visible")
		}
	}
	// static tier only for fixed paths
	isFixed := w.FnOpt("rux", "isFixedPath")
	// the same test written in line: no '{' and no '[' in the route's path
	isRoutePath := func(v ssa.Value) bool { return isLoadOfField(v, tm.path) }
	noByteOf := noByteCond
	noByte := func(ch byte) func(cond ssa.Value, truth bool) bool { return noByteOf(ch, isRoutePath) }
	if isFixed != nil && len(isFixed.Params) == 1 {
		// the predicate itself: it answers true only for strings without '{' and without '['
		isArg := func(v ssa.Value) bool { return v == ssa.Value(isFixed.Params[0]) }
		okDef := true
		nRet := 0
		eachInstr(isFixed, func(in ssa.Instruction) {
			ret, isRet := in.(*ssa.Return)
			if !isRet || len(ret.Results) != 1 {
				return
			}
			nRet++
			phiLeaves(ret.Results[0], in, func(leaf ssa.Value, fact factOracle) {
				if k, isC := leaf.(*ssa.Const); isC && k.Value != nil && k.Value.Kind() == constant.Bool && !constant.BoolVal(k.Value) {
					return // answers false
				}
				for _, ch := range []byte{'{', '['} {
					holds := fact(noByteOf(ch, isArg))
					if !holds {
						if _, isC := leaf.(*ssa.Const); !isC {
							c0, pos := stripNot(leaf)
							holds = noByteOf(ch, isArg)(c0, pos)
						}
					}
					if !holds {
						okDef = false
					}
				}
			})
		})
		r.Check(rule, "rux.isFixedPath:definition", isFixed.Pos(), okDef && nRet > 0, map[bool]string{true: "isFixedPath answers true only for a string with neither '{' nor '['", false: "isFixedPath can answer true for a pattern with a variable or an optional part: such a route enters the static table and is matched literally"}[okDef && nRet > 0])
	}
	for _, tu := range tm.tierUpdates() {
		if tu.f != ar || tu.fv != tm.stable {
			continue
		}
		ok := isFixed != nil && factHolds(tu.mu, func(cond ssa.Value, truth bool) bool {
			c, isCall := cond.(*ssa.Call)
			return isCall && staticCallee(c) == isFixed && truth
		})
		if !ok {
			ok = factHolds(tu.mu, noByte('{')) && factHolds(tu.mu, noByte('['))
		}
		r.Check(rule, "(*Router).appendRoute:static tier only for fixed paths", w.InstrPos(tu.mu), ok, "only patterns without variables/optional parts enter the static table")
	}
	// (2) goodInfo: nil handler, empty methods -> panic
	handlerF := w.Field("rux", "Route", "handler")
	nilH, emptyM := false, false
	for _, b := range goodInfo.Blocks {
		iff, ok := b.Instrs[len(b.Instrs)-1].(*ssa.If)
		if !ok {
			continue
		}
		c0, pos := stripNot(iff.Cond)
		bo, ok := c0.(*ssa.BinOp)
		if !ok {
			continue
		}
		edgePanics := func(truth bool) bool {
			idx := 0
			if truth != pos {
				idx = 1
			}
			t := b.Succs[idx]
			return len(t.Instrs) > 0 && !pathExists(goodInfo, t.Instrs[0], isReturnInstr, nil, nil) && !isReturnInstr(t.Instrs[0])
		}
		if isLoadOfField(bo.X, handlerF) && isNilConst(bo.Y) && bo.Op == token.EQL && edgePanics(true) {
			nilH = true
		}
		if call, isCall := bo.X.(*ssa.Call); isCall && isBuiltin(call, "len") && isLoadOfField(call.Call.Args[0], tm.methods) {
			if c, okc := constInt(bo.Y); okc && c == 0 && bo.Op == token.EQL && edgePanics(true) {
				emptyM = true
			}
		}
	}
	r.Check(rule, "(*Route).goodInfo:nil handler", goodInfo.Pos(), nilH, "a nil handler panics at registration")
	r.Check(rule, "(*Route).goodInfo:empty methods", goodInfo.Pos(), emptyM, "an empty method list panics at registration")
	// (3) patterns: every variable regex checked (C02-ALIGN), optional parts checked, compiled with MustCompile
	cpo := w.Fn("rux", "checkAndParseOptional")
	pf := tm.parse
	for i, c := range callsIn(pf, func(c ssa.CallInstruction) bool {
		n := calleeName(c)
		return n == "regexp.MustCompile" || n == "regexp.Compile"
	}) {
		must := calleeName(c) == "regexp.MustCompile"
		r.Check(rule, fmt.Sprintf("(*Router).parseParamRoute:compile#%d panics on error", i+1), w.InstrPos(c), must, map[bool]string{true: "MustCompile: an uncompilable pattern panics at registration", false: "compile error is not turned into a registration panic"}[must])
		// the compiled text passed through checkAndParseOptional whenever it contains '['
		derived := flowsFrom(c.Common().Args[0], func(v ssa.Value) bool {
			call, ok := v.(*ssa.Call)
			return ok && staticCallee(call) == cpo
		})
		r.Check(rule, fmt.Sprintf("(*Router).parseParamRoute:compile#%d optional check", i+1), w.InstrPos(c), derived, map[bool]string{true: "patterns with '[' pass checkAndParseOptional (optional part must be at the end) before compiling", false: "a pattern with optional parts is compiled without checkAndParseOptional"}[derived])
	}
	// checkAndParseOptional really panics on misplaced optionals
	pan := false
	eachInstr(cpo, func(in ssa.Instruction) {
		if panicsAt(in) {
			pan = true
		}
	})
	r.Check(rule, "rux.checkAndParseOptional:panics", cpo.Pos(), pan, "misplaced optional segments panic")
	// (4) options frozen once a route exists
	wo := w.Fn("rux", "Router.WithOptions")
	var optCalls []ssa.Instruction
	eachInstr(wo, func(in ssa.Instruction) {
		if c, ok := in.(*ssa.Call); ok && !c.Call.IsInvoke() && staticCallee(c) == nil && calleeName(c) == "" {
			optCalls = append(optCalls, in)
		}
	})
	counterPos := func(cond ssa.Value, truth bool) bool {
		b, ok := cond.(*ssa.BinOp)
		if !ok || !isLoadOfField(b.X, counterF) {
			return false
		}
		c, okc := constInt(b.Y)
		if !okc {
			return false
		}
		// fact "counter <= 0"
		return (b.Op == token.GTR && c == 0 && !truth) || (b.Op == token.LEQ && c == 0 && truth) || (b.Op == token.EQL && c == 0 && truth) || (b.Op == token.NEQ && c == 0 && !truth) || (b.Op == token.GEQ && c == 1 && !truth) || (b.Op == token.LSS && c == 1 && truth)
	}
	r.Exists(rule, "(*Router).WithOptions:option calls", wo.Pos(), len(optCalls) >= 1, fmt.Sprintf("%d option application site(s)", len(optCalls)))
	for i, oc := range optCalls {
		ok := factHolds(oc, counterPos)
		// and the other edge panics
		okPanic := false
		for _, ft := range factsAt(oc) {
			c0, pos := stripNot(ft.Cond)
			truth := ft.True == pos
			if counterPos(c0, truth) {
				b := ft.If.Block()
				other := b.Succs[0]
				if ft.True {
					other = b.Succs[1]
				}
				if len(other.Instrs) > 0 && !isReturnInstr(other.Instrs[0]) && !pathExists(wo, other.Instrs[0], isReturnInstr, nil, nil) {
					okPanic = true
				}
			}
		}
		r.Check(rule, fmt.Sprintf("(*Router).WithOptions:frozen#%d", i+1), w.InstrPos(oc), ok && okPanic, map[bool]string{true: "options are applied only while no route is registered; otherwise WithOptions panics", false: "options can still be applied after routes exist (or the guard does not panic)"}[ok && okPanic])
	}
	// every tier insert counts the route: an increment runs before the insert in the same loop iteration
	for _, tu := range tm.tierUpdates() {
		ok := false
		eachInstr(tu.f, func(in ssa.Instruction) {
			if st, isSt := in.(*ssa.Store); isSt {
				if fa, isFA := st.Addr.(*ssa.FieldAddr); isFA && fieldVar(fa.X.Type(), fa.Field) == counterF {
					if b, isB := st.Val.(*ssa.BinOp); isB && b.Op == token.ADD && isLoadOfField(b.X, counterF) {
						if c, okc := constInt(b.Y); okc && c >= 1 && (pairedPerExecution(in, tu.mu) || in.Block() == tu.mu.Block()) {
							ok = true
						}
					}
				}
			}
		})
		r.Check(rule, fmt.Sprintf("%s:%s insert#%d counted", FuncName(tu.f), tm.tierName(tu.fv), tu.ord), w.InstrPos(tu.mu), ok, map[bool]string{true: "the insert increments the route counter that freezes the options", false: "a route is inserted without incrementing the counter: options stay changeable although routes exist"}[ok])
	}
}

// flowsFrom: does v derive (through phi, concatenation, Replace, slices) from a value satisfying src?
// flowsFromDeep is flowsFrom that also looks through loads, element/field addresses, tuple
// extraction, interface wrapping and assertions, and the stores into local cells.
func flowsFromDeep(v ssa.Value, src func(ssa.Value) bool) bool {
	seen := map[ssa.Value]bool{}
	var walk func(v ssa.Value, d int) bool
	walk = func(v ssa.Value, d int) bool {
		if v == nil || seen[v] || d > 80 {
			return false
		}
		seen[v] = true
		if src(v) {
			return true
		}
		if al, ok := v.(*ssa.Alloc); ok {
			for _, ref := range *al.Referrers() {
				switch x := ref.(type) {
				case *ssa.Store:
					if x.Addr == ssa.Value(al) && walk(x.Val, d+1) {
						return true
					}
				case *ssa.IndexAddr:
					for _, r2 := range *x.Referrers() {
						if st, ok := r2.(*ssa.Store); ok && st.Addr == ssa.Value(x) && walk(st.Val, d+1) {
							return true
						}
					}
				}
			}
			return false
		}
		if in, ok := v.(ssa.Instruction); ok {
			for _, op := range in.Operands(nil) {
				if op != nil && *op != nil && walk(*op, d+1) {
					return true
				}
			}
		}
		return false
	}
	return walk(v, 0)
}

func flowsFrom(v ssa.Value, src func(ssa.Value) bool) bool {
	seen := map[ssa.Value]bool{}
	var walk func(v ssa.Value) bool
	walk = func(v ssa.Value) bool {
		if v == nil || seen[v] {
			return false
		}
		seen[v] = true
		if src(v) {
			return true
		}
		switch x := v.(type) {
		case *ssa.Phi:
			for _, e := range x.Edges {
				if walk(e) {
					return true
				}
			}
		case *ssa.BinOp:
			return walk(x.X) || walk(x.Y)
		case *ssa.Slice:
			return walk(x.X)
		case *ssa.Call:
			for _, a := range callArgs(x) {
				if walk(a) {
					return true
				}
			}
		case *ssa.ChangeType:
			return walk(x.X)
		case *ssa.Convert:
			return walk(x.X)
		}
		return false
	}
	return walk(v)
}

// C13-MEMBER: method names are validated by exact comparison.
func ruleC13Member(r *Run) {
	w := r.W
	rule := "C13-MEMBER"
	r.Floor(rule, 2)
	tm := newTierModel(w)
	gi := w.Fn("rux", "Route.goodInfo")
	anyM := w.Global("rux", "anyMethods")
	// the method being validated: element of a range over r.methods
	var elems []ssa.Value
	eachInstr(gi, func(in ssa.Instruction) {
		if ld, ok := in.(*ssa.UnOp); ok {
			if sl, isElem := rangeElemOf(ld); isElem && isLoadOfField(sl, tm.methods) {
				elems = append(elems, ld)
			}
		}
	})
	r.Check(rule, "(*Route).goodInfo:iterates methods", gi.Pos(), len(elems) >= 1, "every method of the route is validated (range over route.methods)")
	if len(elems) == 0 {
		return
	}
	// (a) deviant idiom: substring search decides
	sub := false
	var subAt ssa.Instruction
	for _, f := range append([]*ssa.Function{gi}, calleesOf(w, gi)...) {
		eachInstr(f, func(in ssa.Instruction) {
			c, ok := in.(*ssa.Call)
			if !ok {
				return
			}
			switch calleeName(c) {
			case "strings.Index", "strings.Contains", "strings.HasPrefix", "strings.HasSuffix", "strings.LastIndex", "strings.Count":
				// needle derived from the method element, haystack from the method set
				needle := c.Call.Args[1]
				hay := c.Call.Args[0]
				fromElem := flowsFrom(needle, func(v ssa.Value) bool {
					for _, e := range elems {
						if v == e {
							return true
						}
					}
					_, isParam := v.(*ssa.Parameter)
					return isParam && f != gi
				})
				fromSet := flowsFrom(hay, func(v ssa.Value) bool {
					if call, ok := v.(*ssa.Call); ok {
						n := calleeName(call)
						return n == "strings.Join" || strings.HasSuffix(n, "rux.MethodsString")
					}
					if ld, ok := v.(*ssa.UnOp); ok && ld.X == ssa.Value(anyM) {
						return true
					}
					return false
				})
				if fromElem && fromSet {
					sub, subAt = true, in
				}
			}
		})
	}
	pos := gi.Pos()
	if subAt != nil {
		pos = w.InstrPos(subAt)
	}
	r.Check(rule, "(*Route).goodInfo:no substring membership", pos, !sub, map[bool]string{true: "membership is not decided by a substring search in the joined method list", false: "a method name is accepted when it is a *prefix/substring* of an entry of the joined method list (e.g. \"DEL\", \"GE\", \"P\"): lookup compares whole strings, so such a route is accepted and can never match"}[!sub])
	// (b) exact comparison exists and guards the panic
	exact := false
	for _, f := range append([]*ssa.Function{gi}, calleesOf(w, gi)...) {
		eachInstr(f, func(in ssa.Instruction) {
			switch x := in.(type) {
			case *ssa.BinOp:
				if x.Op != token.EQL && x.Op != token.NEQ {
					return
				}
				for _, side := range [][2]ssa.Value{{x.X, x.Y}, {x.Y, x.X}} {
					if sl, isElem := rangeElemOf(side[0]); isElem {
						if ld, ok := sl.(*ssa.UnOp); ok && ld.X == ssa.Value(anyM) {
							// compared with the candidate (element of r.methods or the helper's parameter)
							for _, e := range elems {
								if side[1] == e {
									exact = true
								}
							}
							if _, isParam := side[1].(*ssa.Parameter); isParam && f != gi {
								exact = true
							}
						}
					}
				}
			case *ssa.Call:
				// a library membership test over the supported-method list: element-wise equality by contract
				switch n := calleeName(x); {
				case strings.HasSuffix(n, "arrutil.StringsHas") || strings.HasSuffix(n, "arrutil.InStrings") || n == "slices.Contains" || strings.HasPrefix(n, "slices.Contains["):
					if len(x.Call.Args) == 2 {
						if ld, ok := x.Call.Args[0].(*ssa.UnOp); ok && ld.X == ssa.Value(anyM) {
							for _, e := range elems {
								if x.Call.Args[1] == e {
									exact = true
								}
							}
							if _, isParam := x.Call.Args[1].(*ssa.Parameter); isParam && f != gi {
								exact = true
							}
						}
					}
				}
			case *ssa.Lookup:
				// map keyed by the candidate
				if _, isMap := x.X.Type().Underlying().(*types.Map); isMap {
					for _, e := range elems {
						if x.Index == e {
							exact = true
						}
					}
					if _, isParam := x.Index.(*ssa.Parameter); isParam && f != gi {
						exact = true
					}
				}
			}
		})
	}
	r.Check(rule, "(*Route).goodInfo:exact membership", gi.Pos(), exact, map[bool]string{true: "each method is compared for equality with the elements of anyMethods (or looked up in a set)", false: "no exact comparison of the candidate method with the supported methods was found"}[exact])
	// (c) a panic is reachable inside the loop
	pan := false
	eachInstr(gi, func(in ssa.Instruction) {
		if panicsAt(in) {
			for _, e := range elems {
				if canReach(e.(ssa.Instruction), in) {
					pan = true
				}
			}
		}
	})
	r.Check(rule, "(*Route).goodInfo:unknown method panics", gi.Pos(), pan, "an unsupported method name panics at registration")
	// formatMethods upper-cases and trims the names before validation (so validation sees what lookup compares)
	fm := w.Fn("rux", "formatMethods")
	up := len(callsToName(fm, "strings.ToUpper")) > 0
	r.Check(rule, "rux.formatMethods:upper-case", fm.Pos(), up, "method names are upper-cased at route creation (lookup upper-cases in Match)")
	// the default method stands in for an ABSENT list only: a one-element literal built from a default
	// (a string parameter, or the constant GET) in a function that takes the caller's []string list is
	// reached only under len(<that parameter>) == 0 — never after names were filtered out of the list,
	// which would turn a definition with only empty method names into a live GET route
	getC, _ := constString(w.Const("rux", "GET").Value)
	nDef := 0
	for _, f := range w.Funcs {
		if f.Pkg == nil || f.Pkg.Pkg.Path() != modPath || f.Parent() != nil {
			continue
		}
		var listP *ssa.Parameter
		for _, prm := range f.Params {
			if sl, ok := prm.Type().Underlying().(*types.Slice); ok {
				if b, ok := sl.Elem().Underlying().(*types.Basic); ok && b.Kind() == types.String {
					listP = prm
				}
			}
		}
		if listP == nil {
			continue
		}
		eachInstr(f, func(in ssa.Instruction) {
			sl, ok := in.(*ssa.Slice)
			if !ok {
				return
			}
			el := litElems(sl)
			if len(el) != 1 {
				return
			}
			isDef := false
			if prm, isP := el[0].(*ssa.Parameter); isP && prm != listP {
				if b, okb := prm.Type().Underlying().(*types.Basic); okb && b.Kind() == types.String {
					isDef = true
				}
			}
			if sv, isC := constString(el[0]); isC && sv == getC {
				isDef = true
			}
			if !isDef {
				return
			}
			nDef++
			okAbsent := factHolds(in, func(cond ssa.Value, truth bool) bool {
				b, okb := cond.(*ssa.BinOp)
				if !okb {
					return false
				}
				call, isCall := b.X.(*ssa.Call)
				if !isCall || !isBuiltin(call, "len") || call.Call.Args[0] != ssa.Value(listP) {
					return false
				}
				k, okk := constInt(b.Y)
				if !okk {
					return false
				}
				op := b.Op
				if !truth {
					op = negOp(op)
				}
				return (op == token.EQL && k == 0) || (op == token.LEQ && k == 0) || (op == token.LSS && k == 1)
			})
			r.Check(rule, FuncName(f)+":default method only for an absent list", w.InstrPos(in), okAbsent, map[bool]string{true: "the default method replaces a list the caller did not give (len(parameter) == 0)", false: "the default method is substituted on a condition other than 'the caller gave no methods' (e.g. after empty names were filtered out): a definition whose method names are all empty becomes a live route instead of being rejected"}[okAbsent])
		})
	}
	r.Exists(rule, "default-method literal", token.NoPos, nDef >= 1, fmt.Sprintf("%d site(s) where a default method list is built", nDef))
}

func calleesOf(w *World, f *ssa.Function) []*ssa.Function {
	var out []*ssa.Function
	seen := map[*ssa.Function]bool{f: true}
	var walk func(g *ssa.Function, d int)
	walk = func(g *ssa.Function, d int) {
		if d > 2 {
			return
		}
		eachInstr(g, func(in ssa.Instruction) {
			if c, ok := in.(ssa.CallInstruction); ok {
				if sc := staticCallee(c); sc != nil && w.InModule(sc) && !seen[sc] && sc.Blocks != nil {
					seen[sc] = true
					out = append(out, sc)
					walk(sc, d+1)
				}
			}
		})
	}
	walk(f, 0)
	return out
}

func init() {
	register(&property{
		Meta: propertyMeta{
			ID:          "C11",
			Explanation: "(C11-SAME) provenance: on the writer side route.path is stored, on every path and before the route is inserted anywhere, as the result of (*Router).formatPath on the router itself applied to prefix + path as a whole, and the group prefix only grows by formatPath results (C12-EXTEND); on the reader side every path argument of the matcher is a formatPath result of the same function on the same router (through parameters of unexported functions whose every call site passes one) — so both sides see the same strictLastSlash bit. (C11-TOTAL) E-IDX proves every index and slice expression of formatPath, simpleFmtPath, match, QuickMatch and findAllowedMethods in bounds from dominating guards, including formatPath's post-condition 'non-empty and starts with /' that discharges path[1:] and path[1:pos+1] in match via a pre-condition checked at every call site. (C11-ENC) the dispatcher feeds Req.URL.Path, or Req.URL.EscapedPath() exactly when UseEncodedPath is set. (C11-PRENORM) in every string->string module function that lies between a route constructor's path parameter and the store into Route.path, each returned value is a constant or flows from strings.TrimSpace/Trim/TrimFunc of the parameter and not from the raw parameter around it. (C11-TRAIL) formatPath (with the helpers it calls) removes trailing slashes by strings.TrimRight/Trim over a constant cut set containing '/', TrimRightFunc/TrimFunc, or by a re-slice / TrimSuffix inside a loop.",
			NotDecided:  []string{"which strings normalise to the same key; idempotence of formatPath (string-valued run-time facts)"},
			Assumptions: []string{"strings.IndexByte returns -1 or an index < len (library contract)"},
		},
		Rules: []ruleFn{{"C11-SAME", ruleC11Same}, {"C11-TOTAL", ruleC11Total}, {"C11-ENC", ruleC11Enc}, {"C12-EXTEND", ruleC12Bracket}, {"C01-REPR", ruleC01Repr}, {"C01-SPACE", ruleC01Space}},
	})
	register(&property{
		Meta: propertyMeta{
			ID:          "C13",
			Explanation: "(C13-GATE) must-pass-through at registration: goodInfo (nil handler, empty methods, unknown method -> panic), appendGroupInfo (handler limit) and, for dynamic routes, parseParamRoute (goodRegexString per variable, checkAndParseOptional before compiling, MustCompile, group-count check) dominate every insert into a route table or the name index; only fixed paths enter the static table; WithOptions applies options only under counter <= 0 and panics otherwise, and every tier insert increments the counter. (C13-OPTIONAL) checkAndParseOptional is evaluated abstractly on bracket profiles of the pattern (length, numbers of '[' and ']', trailing ']' run, last byte) through TrimRight/Count/len/HasSuffix/last-byte/integer arithmetic: profiles with a ']' outside the trailing run, or an unclosed '[', end in the panic on every path, well-formed ones return. (C13-MEMBER) method names are validated by exact comparison with anyMethods, never by substring search in the joined list. (C13-TOTAL) E-IDX over the lookup core (everything reachable from ServeHTTP/HandleContext/Match/QuickMatch, the default 404/405 handlers and the chain executor): every index/slice, unchecked type assertion, explicit panic, nil-able function-field call and field-map write is proved safe from dominating facts, proved post-conditions, call-site-checked pre-conditions, the registration invariant of C02-GROUPS, or a named entry of the frozen trusted table. (C05-LIMIT on Route.handlers, C07-GUARD, C02-GROUPS, PHASE) reused.",
			NotDecided:  []string{"that every invalid pattern is recognised as invalid (regex metacharacters in literals, unbalanced braces that happen to compile)", "panics inside regexp, net/http, user handlers", "nil middleware values in a chain (dispatch, not matching)"},
			Assumptions: []string{"the trusted discharges listed in idx.go (library contracts and the handler boundary)"},
		},
		Rules: []ruleFn{{"C13-GATE", ruleC13Gate}, {"C13-GATE", ruleC13NoRecover}, {"C13-OPTIONAL", ruleC13Optional}, {"C13-MEMBER", ruleC13Member}, {"C13-TOTAL", ruleC13Total}, {"C02-GROUPS", ruleC02Groups}, {"C07-GUARD", ruleC07Guard}, {"C05-LIMIT", ruleC05LimitRoute}, {"PHASE", rulePhase("PHASE")}},
	})
}

// pathStep: the registration step that rewrites route.path (group prefix + normalisation). It is
// appendGroupInfo when that function exists; when the step is written in line, it is appendRoute
// itself. gates are the instructions of appendRoute that perform it (the calls, or the stores).
func pathStep(w *World, tm *tierModel) (*ssa.Function, []ssa.Instruction) {
	ar := tm.appendRoute
	var gates []ssa.Instruction
	if agi := w.FnOpt("rux", "Router.appendGroupInfo"); agi != nil && len(storesToField(agi, tm.path)) > 0 {
		for _, c := range callsToFn(ar, agi) {
			gates = append(gates, c)
		}
		return agi, gates
	}
	for _, st := range storesToField(ar, tm.path) {
		gates = append(gates, st)
	}
	return ar, gates
}

// ---------------------------------------------------------------------------
// C12-DERIVED — what registration derives from a route's path is derived from the FINAL path.
//
// appendRoute first rewrites route.path (group prefix + normalisation, the "path step") and then
// classifies and compiles it. Any field of Route whose stored value depends on a load of
// Route.path (a flag "is fixed", a compiled regexp, a literal prefix ...) must be computed after
// the path step: a value computed earlier describes the route's own path, not the path it is
// registered under — `/shops/{id}` + `/profile` would be filed as a static route.
func ruleC12Derived(r *Run) {
	w := r.W
	rule := "C12-DERIVED"
	r.Floor(rule, 2)
	tm := newTierModel(w)
	ar := tm.appendRoute
	stepFn, gates := pathStep(w, tm)
	routeT := w.Named("rux", "Route")
	cg := w.BuildCG()
	regFns := cg.Reach(ar)
	n := 0
	for _, f := range sortedFuncs(regFns) {
		if !w.InModule(f) {
			continue
		}
		eachInstr(f, func(in ssa.Instruction) {
			st, ok := in.(*ssa.Store)
			if !ok {
				return
			}
			fa, isFA := st.Addr.(*ssa.FieldAddr)
			if !isFA || !isNamedPtr(fa.X.Type(), routeT) {
				return
			}
			fv := fieldVar(fa.X.Type(), fa.Field)
			if fv == tm.path {
				return
			}
			if !flowsFromDeep(st.Val, func(x ssa.Value) bool { return isLoadOfField(x, tm.path) }) {
				return
			}
			n++
			// where does this computation run relative to the path step?
			okLate := false
			why := ""
			switch {
			case f == stepFn && f != ar:
				okLate, why = true, "computed inside the path step itself"
			case f == ar:
				for _, g := range gates {
					if dominates(g, in) {
						okLate = true
					}
				}
				why = "the path step dominates the computation in appendRoute"
			default:
				// f is called (transitively) from appendRoute: every entry from appendRoute lies after the path step
				okLate = true
				found := false
				eachInstr(ar, func(ci ssa.Instruction) {
					c, isCall := ci.(*ssa.Call)
					if !isCall {
						return
					}
					sc := staticCallee(c)
					if sc == nil || !(sc == f || cg.Reach(sc)[f]) || sc == stepFn {
						return
					}
					found = true
					after := false
					for _, g := range gates {
						if dominates(g, ci) {
							after = true
						}
					}
					if !after {
						okLate = false
					}
				})
				if !found {
					okLate = true // reached only through the path step itself
				}
				why = "every call from appendRoute that reaches " + FuncName(f) + " comes after the path step"
			}
			r.Check(rule, fmt.Sprintf("%s:store Route.%s derived from the path", FuncName(f), fv.Name()), w.InstrPos(in), okLate,
				map[bool]string{true: why, false: "Route." + fv.Name() + " is computed from route.path before appendRoute has put the group prefix in front of it and normalised it: it describes the route's own path, not the registered one (a literal route inside a group with a variable prefix is misfiled)"}[okLate])
		})
	}
	r.Exists(rule, "derived stores", ar.Pos(), n >= 2, fmt.Sprintf("%d store(s) into Route fields that depend on route.path, in the functions reachable from appendRoute", n))
}

// ---------------------------------------------------------------------------
// C13-OPTIONAL — an optional part that is not at the end of the pattern is rejected.
//
// checkAndParseOptional is evaluated abstractly on bracket profiles of the pattern instead of on
// strings: a string is summarised by (length, number of '[', number of ']', number of trailing ']',
// last byte is ']'). strings.TrimRight(x, "]"), strings.Count(x, "["/"]"), len, x[len(x)-1],
// strings.HasSuffix(x, "]") and integer arithmetic act on summaries; anything else is unknown and
// both branches are followed. Profiles with a ']' that is not in the trailing run must end in the
// panic on every path; well-formed profiles (all ']' trailing, as many as '[') must return.

type optStr struct {
	n, open, close, trail int
	lastClose             bool
}

type optVal struct {
	kind byte // 'i' int, 's' string summary, 'b' bool, 0 unknown
	i    int
	s    optStr
	b    bool
}

func ruleC13Optional(r *Run) {
	w := r.W
	rule := "C13-OPTIONAL"
	r.Floor(rule, 4)
	cpo := w.Fn("rux", "checkAndParseOptional")
	if len(cpo.Params) != 1 {
		r.Undecided(rule, "rux.checkAndParseOptional:signature", cpo.Pos(), "expected one string parameter")
		return
	}
	type profile struct {
		name string
		s    optStr
		bad  bool
	}
	profiles := []profile{
		{"'[..]..[..]' (a closed optional part followed by more)", optStr{n: 24, open: 2, close: 2, trail: 1, lastClose: true}, true},
		{"'[..]..' (optional part in the middle)", optStr{n: 24, open: 1, close: 1, trail: 0, lastClose: false}, true},
		{"'[..' (never closed)", optStr{n: 24, open: 1, close: 0, trail: 0, lastClose: false}, true},
		{"'..[..[..]]' (nested, all closing brackets at the end)", optStr{n: 24, open: 2, close: 2, trail: 2, lastClose: true}, false},
		{"'..[..]' (one optional part at the end)", optStr{n: 24, open: 1, close: 1, trail: 1, lastClose: true}, false},
	}
	for _, pf := range profiles {
		env := map[ssa.Value]optVal{cpo.Params[0]: {kind: 's', s: pf.s}}
		var eval func(v ssa.Value, pred map[*ssa.BasicBlock]*ssa.BasicBlock, d int) optVal
		eval = func(v ssa.Value, pred map[*ssa.BasicBlock]*ssa.BasicBlock, d int) optVal {
			if d > 20 {
				return optVal{}
			}
			v = resolveAlong(v, pred)
			if ev, ok := env[v]; ok {
				return ev
			}
			switch x := v.(type) {
			case *ssa.Const:
				if k, ok := constInt(x); ok {
					return optVal{kind: 'i', i: int(k)}
				}
				if x.Value != nil && x.Value.Kind() == constant.Bool {
					return optVal{kind: 'b', b: constant.BoolVal(x.Value)}
				}
			case *ssa.Convert:
				return eval(x.X, pred, d+1)
			case *ssa.ChangeType:
				return eval(x.X, pred, d+1)
			case *ssa.UnOp:
				if x.Op == token.NOT {
					if a := eval(x.X, pred, d+1); a.kind == 'b' {
						return optVal{kind: 'b', b: !a.b}
					}
				}
			case *ssa.Call:
				if isBuiltin(x, "len") {
					if a := eval(x.Call.Args[0], pred, d+1); a.kind == 's' {
						return optVal{kind: 'i', i: a.s.n}
					}
				}
				switch calleeName(x) {
				case "strings.TrimRight":
					a := eval(x.Call.Args[0], pred, d+1)
					if cs, ok := constString(x.Call.Args[1]); ok && cs == "]" && a.kind == 's' {
						t := a.s
						t.n -= t.trail
						t.close -= t.trail
						t.trail, t.lastClose = 0, false
						return optVal{kind: 's', s: t}
					}
				case "strings.Count":
					a := eval(x.Call.Args[0], pred, d+1)
					if cs, ok := constString(x.Call.Args[1]); ok && a.kind == 's' {
						switch cs {
						case "[":
							return optVal{kind: 'i', i: a.s.open}
						case "]":
							return optVal{kind: 'i', i: a.s.close}
						}
					}
				case "strings.HasSuffix":
					a := eval(x.Call.Args[0], pred, d+1)
					if cs, ok := constString(x.Call.Args[1]); ok && cs == "]" && a.kind == 's' {
						return optVal{kind: 'b', b: a.s.lastClose}
					}
				}
			case *ssa.Index, *ssa.Lookup:
				// x[len(x)-1]: the last byte (only its being ']' is known)
				var sx, ix ssa.Value
				if q, ok := x.(*ssa.Index); ok {
					sx, ix = q.X, q.Index
				} else {
					q := x.(*ssa.Lookup)
					sx, ix = q.X, q.Index
				}
				a, i := eval(sx, pred, d+1), eval(ix, pred, d+1)
				if a.kind == 's' && i.kind == 'i' && i.i == a.s.n-1 {
					if a.s.lastClose {
						return optVal{kind: 'i', i: ']'}
					}
					return optVal{kind: 'i', i: 'x'}
				}
			case *ssa.BinOp:
				a, b := eval(x.X, pred, d+1), eval(x.Y, pred, d+1)
				if a.kind == 'i' && b.kind == 'i' {
					switch x.Op {
					case token.ADD:
						return optVal{kind: 'i', i: a.i + b.i}
					case token.SUB:
						return optVal{kind: 'i', i: a.i - b.i}
					case token.EQL:
						return optVal{kind: 'b', b: a.i == b.i}
					case token.NEQ:
						return optVal{kind: 'b', b: a.i != b.i}
					case token.LSS:
						return optVal{kind: 'b', b: a.i < b.i}
					case token.LEQ:
						return optVal{kind: 'b', b: a.i <= b.i}
					case token.GTR:
						return optVal{kind: 'b', b: a.i > b.i}
					case token.GEQ:
						return optVal{kind: 'b', b: a.i >= b.i}
					}
				}
			}
			return optVal{}
		}
		panics, returns, unknowns := 0, 0, 0
		steps := 0
		var walk func(b *ssa.BasicBlock, pred map[*ssa.BasicBlock]*ssa.BasicBlock)
		walk = func(b *ssa.BasicBlock, pred map[*ssa.BasicBlock]*ssa.BasicBlock) {
			steps++
			if steps > 2000 {
				unknowns++
				return
			}
			for _, in := range b.Instrs {
				if panicsAt(in) {
					panics++
					return
				}
				if _, ok := in.(*ssa.Return); ok {
					returns++
					return
				}
			}
			succs := b.Succs
			if iff, ok := b.Instrs[len(b.Instrs)-1].(*ssa.If); ok {
				switch ev := eval(iff.Cond, pred, 0); {
				case ev.kind == 'b' && ev.b:
					succs = b.Succs[:1]
				case ev.kind == 'b' && !ev.b:
					succs = b.Succs[1:2]
				default:
					unknowns++
				}
			}
			for _, s := range succs {
				if _, seen := pred[s]; seen {
					continue
				}
				np := map[*ssa.BasicBlock]*ssa.BasicBlock{}
				for k, v := range pred {
					np[k] = v
				}
				np[s] = b
				walk(s, np)
			}
		}
		walk(cpo.Blocks[0], map[*ssa.BasicBlock]*ssa.BasicBlock{})
		ok := false
		detail := ""
		if pf.bad {
			ok = panics > 0 && returns == 0
			detail = map[bool]string{true: "rejected (panic) on every path", false: fmt.Sprintf("a pattern of the shape %s is accepted (%d returning path(s), %d panicking, %d undecided branch(es)): an optional part that is not at the end compiles into a regexp that matches something else than the pattern says", pf.name, returns, panics, unknowns)}[ok]
		} else {
			ok = returns > 0 && panics == 0
			detail = map[bool]string{true: "accepted on every path", false: fmt.Sprintf("a well-formed pattern of the shape %s is rejected", pf.name)}[ok]
		}
		r.Check(rule, "rux.checkAndParseOptional:"+pf.name, cpo.Pos(), ok, detail)
	}
}

// ruleC13NoRecover: "bad definitions fail at registration" means the panics of the registration checks reach the
// caller. The only recover() in the root package is the dispatcher's frame around the handler chain; a recover in
// a registration helper (to "improve the message") can swallow the very panics it wraps — regexp.MustCompile and
// goutil.Panicf panic with strings, not errors.
func ruleC13NoRecover(r *Run) {
	w := r.W
	rule := "C13-GATE"
	cg := w.BuildCG()
	_, _, frame, _ := findFrame(w, cg)
	n := 0
	for _, f := range w.Funcs {
		if f.Pkg == nil || f.Pkg.Pkg.Path() != modPath {
			continue
		}
		for _, rc := range callsRecover(f) {
			if f == frame {
				continue
			}
			n++
			r.Check(rule, fmt.Sprintf("%s:recover#%d", FuncName(f), n), w.InstrPos(rc.(ssa.Instruction)), false, "recover() outside the dispatcher's frame: a registration-time panic (invalid pattern, uncompilable regex, capture-group mismatch) that passes through here can be swallowed, the definition is accepted and fails at lookup instead")
		}
	}
	r.Check(rule, "root package:recover only in the dispatcher frame", token.NoPos, n == 0, "no function of the root package other than the request frame recovers panics")
}

// noByteCond: the branch condition (cond, truth) says that the string `subject` does not contain the byte ch
// (strings.IndexByte(s, ch) < 0 and its spellings).
func noByteCond(ch byte, subject func(ssa.Value) bool) func(cond ssa.Value, truth bool) bool {
	return func(cond ssa.Value, truth bool) bool {
		if b, okb := cond.(*ssa.BinOp); okb {
			c, isCall := b.X.(*ssa.Call)
			if !isCall || (calleeName(c) != "strings.IndexByte" && calleeName(c) != "strings.IndexRune" && calleeName(c) != "strings.Index") || !subject(c.Call.Args[0]) {
				return false
			}
			if k, okk := constInt(c.Call.Args[1]); okk {
				if k != int64(ch) {
					return false
				}
			} else if sv, oks := constString(c.Call.Args[1]); !oks || sv != string(ch) {
				return false
			}
			k, okk := constInt(b.Y)
			if !okk {
				return false
			}
			op := b.Op
			if !truth {
				op = negOp(op)
			}
			return (op == token.LSS && k == 0) || (op == token.EQL && k == -1) || (op == token.LEQ && k == -1)
		}
		if c, isCall := cond.(*ssa.Call); isCall && !truth && calleeName(c) == "strings.ContainsAny" && subject(c.Call.Args[0]) {
			if sv, oks := constString(c.Call.Args[1]); oks && strings.IndexByte(sv, ch) >= 0 {
				return true
			}
		}
		if c, isCall := cond.(*ssa.Call); isCall && !truth && (calleeName(c) == "strings.Contains" || calleeName(c) == "strings.ContainsRune") && subject(c.Call.Args[0]) {
			if sv, oks := constString(c.Call.Args[1]); oks && sv == string(ch) {
				return true
			}
			if k, okk := constInt(c.Call.Args[1]); okk && k == int64(ch) {
				return true
			}
		}
		return false
	}
}

// C02-STATIC: the static tier of match answers with the stored route and no parameters. That is right only for
// routes without variables, so every insert into the static table — in any function, not only in appendRoute — must
// be guarded by the variable-free test of the *stored route's own whole path*: isFixedPath(route.path) (or the same
// test in line). A dynamic route filed there under a prefix of its pattern ("/blog[/{category}]" under "/blog"), or
// promoted there by the caching code after its first match, is answered from then on without its parameter names.
func ruleC02Static(rule string) func(*Run) {
	return func(r *Run) {
		w := r.W
		r.Floor(rule, 1)
		tm := newTierModel(w)
		isFixed := w.FnOpt("rux", "isFixedPath")
		for _, tu := range tm.tierUpdates() {
			if tu.fv != tm.stable {
				continue
			}
			stored := canon(tu.mu.Value)
			pathOfStored := func(v ssa.Value) bool {
				for {
					if ct, ok := v.(*ssa.ChangeType); ok {
						v = ct.X
						continue
					}
					break
				}
				ld, ok := v.(*ssa.UnOp)
				if !ok || ld.Op != token.MUL {
					return false
				}
				fa, ok := ld.X.(*ssa.FieldAddr)
				return ok && fieldVar(fa.X.Type(), fa.Field) == tm.path && canon(fa.X) == stored
			}
			ok := isFixed != nil && factHolds(tu.mu, func(cond ssa.Value, truth bool) bool {
				c, isCall := cond.(*ssa.Call)
				return isCall && truth && staticCallee(c) == isFixed && len(c.Call.Args) == 1 && pathOfStored(c.Call.Args[0])
			})
			if !ok {
				ok = factHolds(tu.mu, noByteCond('{', pathOfStored)) && factHolds(tu.mu, noByteCond('[', pathOfStored))
			}
			r.Check(rule, fmt.Sprintf("%s:static tier insert#%d guarded", FuncName(tu.f), tu.ord), w.InstrPos(tu.mu), ok,
				map[bool]string{true: "the insert is reached only when the stored route's whole path has neither '{' nor '['", false: "a route enters the static table without its own whole path having been tested variable-free: the static tier returns it with no parameters, whatever its pattern declares"}[ok])
		}
	}
}
