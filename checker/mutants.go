package main

// mutants.go — construct-anchored rewrites used by the self-test. Each entry
// names the rule(s) expected to report it. A mutant whose anchor text no
// longer exists in the current tree is skipped and counted.

func allMutants() []mutant {
	var ms []mutant
	ms = append(ms, mutantsC03...)
	ms = append(ms, mutantsC08...)
	ms = append(ms, mutantsC04...)
	ms = append(ms, mutantsC01...)
	return ms
}

func ps(s ...string) []string { return s }

var mutantsC03 = []mutant{
	m1("c03-chain-in-place", ps("C03"), ps("C03-APPEND"), "dispatch.go",
		"chain := make(HandlersChain, 0, len(r.handlers)+len(handlers)+1)\n", "chain := r.handlers[:0]\n",
		"F8 again: chain assembled on the router's own backing array"),
	m1("c03-append-route-handlers", ps("C03"), ps("C03-APPEND"), "dispatch.go",
		"handlers = route.handlers\n", "handlers = append(route.handlers, route.handler)\n",
		"F8 again: main handler appended to the shared route.handlers"),
	m1("c03-lazy-default-404", ps("C03"), ps("C03-EFF"), "dispatch.go",
		"handlers = HandlersChain{internal404Handler}", "r.noRoute = HandlersChain{internal404Handler}\n\t\t\thandlers = r.noRoute",
		"F9 again: router field written from the request path"),
	m1("c03-get-rlock", ps("C03", "C14"), ps("C03-LOCK", "C14-LOCK"), "route_cache.go",
		"c.lock.Lock()\n\tdefer c.lock.Unlock()\n\n\tif element, ok := c.hashMap[k]; ok {\n\t\tc.list.MoveToFront(element)",
		"c.lock.RLock()\n\tdefer c.lock.RUnlock()\n\n\tif element, ok := c.hashMap[k]; ok {\n\t\tc.list.MoveToFront(element)",
		"F10 again: recency update under the shared lock"),
	m1("c03-set-nolock", ps("C03"), ps("C03-LOCK", "C03-EFF"), "route_cache.go",
		"func (c *cachedRoutes) Set(k string, v *Route) bool {\n\tc.lock.Lock()\n\tdefer c.lock.Unlock()\n", "func (c *cachedRoutes) Set(k string, v *Route) bool {\n",
		"Set without any lock"),
	m1("c03-delete-early-unlock", ps("C03"), ps("C03-LOCK", "C03-EFF"), "route_cache.go",
		"\t\tdelete(c.hashMap, cacheNode.Key)\n\t\tc.list.Remove(element)\n\t\treturn true",
		"\t\tdelete(c.hashMap, cacheNode.Key)\n\t\tc.lock.Unlock()\n\t\tc.list.Remove(element)\n\t\tc.lock.Lock()\n\t\treturn true",
		"lock released around the list removal"),
	m1("c03-handlecontext-put", ps("C03"), ps("C03-POOL"), "dispatch.go",
		"\tr.handleHTTPRequest(c)\n\t// NOTICE", "\tr.handleHTTPRequest(c)\n\tr.ctxPool.Put(c)\n\t// NOTICE",
		"F17 again: caller-owned context released"),
	m1("c03-defer-put", ps("C03", "C09"), ps("C03-POOL"), "dispatch.go",
		"\tctx.Init(res, req)\n", "\tctx.Init(res, req)\n\tdefer r.ctxPool.Put(ctx)\n",
		"context recycled even when dispatch panicked"),
	m1("c03-put-before-dispatch", ps("C03"), ps("C03-POOL"), "dispatch.go",
		"\tr.handleHTTPRequest(ctx)\n\n\t// ctx.Reset()\n\t// release ctx\n\tr.ctxPool.Put(ctx)", "\tr.ctxPool.Put(ctx)\n\tr.handleHTTPRequest(ctx)",
		"context returned to the pool before dispatch ends"),
	m1("c03-init-after-dispatch", ps("C03", "C10"), ps("C03-POOL"), "dispatch.go",
		"\tctx.Init(res, req)\n\n\t// handle HTTP Request\n\tr.handleHTTPRequest(ctx)\n", "\tr.handleHTTPRequest(ctx)\n\tctx.Init(res, req)\n",
		"Init no longer precedes dispatch"),
	{ID: "c03-request-counter", Props: ps("C03"), Rules: ps("C03-EFF"), Desc: "per-request counter added to Router and bumped in ServeHTTP",
		Edits: []edit{{"router.go", "\t// count routes\n\tcounter int\n", "\t// count routes\n\tcounter int\n\tserved int\n"},
			{"dispatch.go", "\tctx.Init(res, req)\n", "\tctx.Init(res, req)\n\tr.served++\n"}}},
	m1("c03-lazy-cache-init", ps("C03"), ps("C03-EFF"), "parse_match.go",
		"\tif !r.enableCaching {\n\t\treturn\n\t}\n", "\tif !r.enableCaching {\n\t\treturn\n\t}\n\tif r.cachedRoutes == nil {\n\t\tr.cachedRoutes = NewCachedRoutes(int(r.maxNumCaches))\n\t}\n",
		"cache lazily created from the request path"),
	m1("c03-match-sorts-shared", ps("C03"), ps("C03-EFF"), "parse_match.go",
		"\tfor _, m := range anyMethods {\n\t\tif m == method {", "\tanyMethods[0] = anyMethods[0]\n\tfor _, m := range anyMethods {\n\t\tif m == method {",
		"request path writes an element of a package-level slice"),
}

var mutantsC08 = []mutant{
	// C10
	m1("c10-reset-keeps-data", ps("C10"), ps("C10-RESET"), "context.go", "\tc.data = nil\n", "", "Reset forgets the data map"),
	m1("c10-reset-keeps-params", ps("C10", "C09"), ps("C10-RESET"), "context.go", "\tc.Params = nil\n\tc.handlers", "\tc.handlers", "Reset forgets Params"),
	m1("c10-reset-keeps-status", ps("C10"), ps("C10-RESET"), "response_wirter.go", "\tw.status = 0\n", "", "writer reset forgets the status"),
	m1("c10-new-field-not-reset", ps("C10"), ps("C10-RESET"), "context.go", "\tErrors []error\n", "\tErrors []error\n\taccepted []string\n", "new context field that is never reset"),
	m1("c10-errors-full-reslice", ps("C10"), ps("C10-RESET", "C10-PRISTINE"), "context.go", "c.Errors = c.Errors[:0]", "c.Errors = c.Errors[:len(c.Errors)]", "errors of the previous request stay visible"),
	m1("c10-conditional-reset", ps("C10"), ps("C10-RESET"), "context.go", "\tc.Req = r\n\tc.Reset()\n", "\tc.Req = r\n\tif c.index != -1 {\n\t\tc.Reset()\n\t}\n", "Reset only on some paths of Init"),
	m1("c10-handlecontext-noreset", ps("C10"), ps("C10-INIT"), "dispatch.go", "\tc.Reset()\n\tr.handleHTTPRequest(c)", "\tr.handleHTTPRequest(c)", "re-dispatch without Reset"),
	m1("c10-index-from-old", ps("C10"), ps("C10-RESET"), "context.go", "\tc.index = -1\n\tc.data = nil", "\tc.index = c.index % 2 - 1\n\tc.data = nil", "cursor reset to a value derived from the old cursor"),
	m1("c10-reslice-extend", ps("C10"), ps("C10-PRISTINE"), "context.go", "func (c *Context) FirstError() error {\n", "func (c *Context) FirstError() error {\n\tc.Errors = c.Errors[:cap(c.Errors)]\n", "pooled slice re-extended to its capacity"),
	// C08
	m1("c08-flush-nocommit", ps("C08"), ps("C08-PRECOMMIT"), "response_wirter.go", "\tw.ensureWriteHeader()\n\tw.Writer.(http.Flusher).Flush()", "\tw.Writer.(http.Flusher).Flush()", "F11 again"),
	m1("c08-write-nocommit", ps("C08"), ps("C08-PRECOMMIT"), "response_wirter.go", "\tw.ensureWriteHeader()\n\n\tn, err = w.Writer.Write(b)", "\tn, err = w.Writer.Write(b)", "Write without the explicit commit"),
	m1("c08-latch-not-set", ps("C08"), ps("C08-LATCH"), "response_wirter.go", "\t\tw.length = 0\n\t\tw.Writer.WriteHeader(w.status)", "\t\tw.Writer.WriteHeader(w.status)", "commit does not mark the response written"),
	m1("c08-eager-writeheader", ps("C08"), ps("C08-LATCH", "C08-RECORD"), "response_wirter.go", "\t\tw.status = status\n\t}\n", "\t\tw.status = status\n\t}\n\tw.Writer.WriteHeader(status)\n", "WriteHeader commits eagerly and lazily"),
	m1("c08-unguarded-commit", ps("C08"), ps("C08-LATCH"), "response_wirter.go", "\tif !w.Written() {\n\t\tif w.status == 0 {", "\tif w.status >= 0 {\n\t\tif w.status == 0 {", "commit not guarded by the written test"),
	m1("c08-status-nonpositive", ps("C08"), ps("C08-RECORD"), "response_wirter.go", "if status > 0 && w.status != status {", "if w.status != status {", "non-positive status recorded"),
	m1("c08-end-early-return", ps("C08"), ps("C08-END"), "dispatch.go", "\tif r.OnError != nil && len(ctx.Errors) > 0 {\n\t\tr.OnError(ctx)\n\t}", "\tif r.OnError != nil && len(ctx.Errors) > 0 {\n\t\tr.OnError(ctx)\n\t\treturn\n\t}", "early return before the end-of-request commit"),
	m1("c08-recover-nocommit", ps("C08", "C09"), ps("C08-END"), "dispatch.go", "\t\t\t\tr.OnPanic(ctx)\n\t\t\t\t// the normal end of dispatch is skipped by the panic, so write the status set by the hook here\n\t\t\t\tctx.writer.ensureWriteHeader()", "\t\t\t\tr.OnPanic(ctx)", "F12 again"),
	m1("c08-length-wrong-count", ps("C08"), ps("C08-LATCH"), "response_wirter.go", "n, err = w.Writer.Write(b)\n\tw.length += n", "n, err = w.Writer.Write(b)\n\tw.length += len(b)", "length counts offered instead of accepted bytes"),
	m1("c08-reset-written-elsewhere", ps("C08"), ps("C08-LATCH"), "response_wirter.go", "\t\tw.status = status\n\t}\n", "\t\tw.status = status\n\t\tw.length = noWritten\n\t}\n", "status change re-opens a committed response"),
	m1("c08-resp-raw", ps("C08"), ps("C08-FACADE"), "context.go", "\tc.Resp = &c.writer\n\tc.Params = nil", "\tc.Resp = c.writer.Writer\n\tc.Params = nil", "Resp points at the raw writer"),
	m1("c08-adapter-raw", ps("C08", "C20"), ps("C08-FACADE", "C20-ADAPT"), "middleware.go", "gh.ServeHTTP(c.Resp, c.Req)", "gh.ServeHTTP(c.RawWriter(), c.Req)", "adapter hands out the raw writer"),
	// C09
	m1("c09-defer-after-match", ps("C09"), ps("C09-FRAME"), "dispatch.go",
		"\tif r.OnPanic != nil {\n\t\tdefer func() {\n\t\t\tif ret := recover(); ret != nil {\n\t\t\t\tctx.Set(CTXRecoverResult, ret)\n\t\t\t\tr.OnPanic(ctx)\n\t\t\t\t// the normal end of dispatch is skipped by the panic, so write the status set by the hook here\n\t\t\t\tctx.writer.ensureWriteHeader()\n\t\t\t}\n\t\t}()\n\t}\n\n\tpath := ctx.Req.URL.Path\n\tif r.useEncodedPath {\n\t\tpath = ctx.Req.URL.EscapedPath()\n\t}\n\n\t// matching route\n\troute, params, allowed := r.QuickMatch(ctx.Req.Method, path)\n",
		"\tpath := ctx.Req.URL.Path\n\tif r.useEncodedPath {\n\t\tpath = ctx.Req.URL.EscapedPath()\n\t}\n\n\t// matching route\n\troute, params, allowed := r.QuickMatch(ctx.Req.Method, path)\n\tif r.OnPanic != nil {\n\t\tdefer func() {\n\t\t\tif ret := recover(); ret != nil {\n\t\t\t\tctx.Set(CTXRecoverResult, ret)\n\t\t\t\tr.OnPanic(ctx)\n\t\t\t\tctx.writer.ensureWriteHeader()\n\t\t\t}\n\t\t}()\n\t}\n",
		"recover frame installed after matching"),
	m1("c09-hook-before-store", ps("C09"), ps("C09-FRAME"), "dispatch.go", "\t\t\t\tctx.Set(CTXRecoverResult, ret)\n\t\t\t\tr.OnPanic(ctx)\n", "\t\t\t\tr.OnPanic(ctx)\n\t\t\t\tctx.Set(CTXRecoverResult, ret)\n", "hook called before the value is stored"),
	m1("c09-always-recover", ps("C09"), ps("C09-FRAME"), "dispatch.go", "\tif r.OnPanic != nil {\n\t\tdefer func() {\n\t\t\tif ret := recover(); ret != nil {\n\t\t\t\tctx.Set(CTXRecoverResult, ret)\n\t\t\t\tr.OnPanic(ctx)", "\t{\n\t\tdefer func() {\n\t\t\tif ret := recover(); ret != nil && r.OnPanic != nil {\n\t\t\t\tctx.Set(CTXRecoverResult, ret)\n\t\t\t\tr.OnPanic(ctx)", "panics swallowed when no hook is set"),
	m1("c09-recover-in-next", ps("C09"), ps("C09-ONLY"), "context.go", "func (c *Context) Next() {\n\tc.index++", "func (c *Context) Next() {\n\tdefer func() { _ = recover() }()\n\tc.index++", "second recover around the executor"),
	m1("c09-panicshandler-noabort", ps("C09"), ps("C09-INCHAIN"), "pkg/handlers/middlewares.go", "\t\t\t\tc.Abort()\n", "", "F13 again"),
	m1("c09-wrong-key", ps("C09"), ps("C09-FRAME"), "dispatch.go", "ctx.Set(CTXRecoverResult, ret)", "ctx.Set(CTXCurrentRouteName, ret)", "recovered value stored under another key"),
}

var mutantsC04 = []mutant{
	m1("c04-combine-swapped", ps("C04", "C12"), ps("C04-SEQ"), "router.go", "combineHandlers(r.currentGroupHandlers, route.handlers)", "combineHandlers(route.handlers, r.currentGroupHandlers)", "route middleware before group middleware"),
	m1("c04-combine-body-swapped", ps("C04"), ps("C04-SEQ"), "middleware.go", "\tcopy(mergedHandlers, oldHandlers)\n\tcopy(mergedHandlers[len(oldHandlers):], newHandlers)", "\tcopy(mergedHandlers, newHandlers)\n\tcopy(mergedHandlers[len(newHandlers):], oldHandlers)", "combineHandlers concatenates in the wrong order"),
	m1("c04-global-after-route", ps("C04"), ps("C04-SEQ"), "dispatch.go", "\tchain = append(chain, r.handlers...)\n\tchain = append(chain, handlers...)\n", "\tchain = append(chain, handlers...)\n\tchain = append(chain, r.handlers...)\n", "global middleware after the route's"),
	m1("c04-handler-first", ps("C04"), ps("C04-SEQ"), "dispatch.go", "\tchain = append(chain, handlers...)\n\tif route != nil {\n\t\t// append main handler to last\n\t\tchain = append(chain, route.handler)\n\t}", "\tif route != nil {\n\t\tchain = append(chain, route.handler)\n\t}\n\tchain = append(chain, handlers...)", "main handler before the route middleware"),
	m1("c04-no-global-on-404", ps("C04"), ps("C04-SEQ"), "dispatch.go", "\tchain = append(chain, r.handlers...)\n", "\tif route != nil {\n\t\tchain = append(chain, r.handlers...)\n\t}\n", "fallback handlers run without the global middleware"),
	m1("c04-route-use-prepend", ps("C04"), ps("C04-SEQ"), "route.go", "r.handlers = append(r.handlers, middleware...)", "r.handlers = append(middleware, r.handlers...)", "Route.Use prepends"),
	m1("c04-group-inner-first", ps("C04", "C12"), ps("C04-SEQ"), "router.go", "r.currentGroupHandlers = append(r.currentGroupHandlers, middles...)\n\t\t} else {", "r.currentGroupHandlers = append(middles, r.currentGroupHandlers...)\n\t\t} else {", "inner group middleware before outer"),
	m1("c04-next-if", ps("C04", "C05"), ps("C04-CURSOR"), "context.go", "\tfor ; c.index < s; c.index++ {\n\t\tc.handlers[c.index](c)\n\t}", "\tif c.index < s {\n\t\tc.handlers[c.index](c)\n\t}", "executor runs one handler only"),
	m1("c04-next-no-preinc", ps("C04"), ps("C04-CURSOR"), "context.go", "func (c *Context) Next() {\n\tc.index++\n", "func (c *Context) Next() {\n\tif c.index < 0 {\n\t\tc.index++\n\t}\n", "nested Next() re-runs the current handler"),
	m1("c04-sethandlers-rewinds", ps("C04"), ps("C04-CURSOR"), "context.go", "func (c *Context) SetHandlers(handlers HandlersChain) { c.handlers = handlers }", "func (c *Context) SetHandlers(handlers HandlersChain) { c.handlers = handlers; c.index = -1 }", "cursor rewound inside the request path"),
	m1("c04-verb-drops-middleware", ps("C04"), ps("C04-VERBS"), "router.go", "return r.Add(path, handler, PATCH).Use(middleware...)", "return r.Add(path, handler, PATCH)", "PATCH helper ignores its middleware"),
	m1("c04-any-wrong-route", ps("C04"), ps("C04-VERBS"), "router.go", "\troute.Use(middles...)\n\n\tr.AddRoute(route)", "\tNewRoute(path, handler).Use(middles...)\n\n\tr.AddRoute(route)", "Any attaches middleware to a different route"),
	m1("c04-default-always", ps("C04", "C06"), ps("C04-SEQ", "C06-DISPATCH"), "dispatch.go", "\t\thandlers = r.noRoute\n\t\tif len(handlers) == 0 {\n\t\t\thandlers = HandlersChain{internal404Handler}\n\t\t}", "\t\thandlers = HandlersChain{internal404Handler}", "custom NotFound handlers ignored"),
	// C05
	m1("c05-abortthen-noop", ps("C05"), ps("C05-SENTINEL"), "context.go", "func (c *Context) AbortThen() *Context {\n\tc.index = abortIndex\n", "func (c *Context) AbortThen() *Context {\n", "AbortThen does not park the cursor"),
	m1("c05-abortwithstatus-early-return", ps("C05", "C20"), ps("C05-SENTINEL"), "context.go", "\t\thttp.Error(c.Resp, msg[0], code)\n\t}\n", "\t\thttp.Error(c.Resp, msg[0], code)\n\t\treturn\n\t}\n", "AbortWithStatus with a message does not abort"),
	m1("c05-abortwithstatus-wrong-code", ps("C05"), ps("C05-SENTINEL"), "context.go", "\t\tc.Resp.WriteHeader(code)\n\t} else {", "\t\tc.Resp.WriteHeader(http.StatusForbidden)\n\t} else {", "status is not the caller's"),
	m1("c05-isaborted-gt", ps("C05"), ps("C05-SENTINEL"), "context.go", "return c.index >= abortIndex", "return c.index > abortIndex", "IsAborted false right after Abort"),
	m1("c05-hoisted-cursor", ps("C05", "C04"), ps("C05-NOSKIP", "C04-CURSOR"), "context.go", "\tfor ; c.index < s; c.index++ {\n\t\tc.handlers[c.index](c)\n\t}", "\tfor i := c.index; i < s; i++ {\n\t\tc.index = i\n\t\tc.handlers[i](c)\n\t}", "cursor hoisted into a local: Abort not seen by the running loop"),
	m1("c05-limit-gt", ps("C05", "C13"), ps("C05-LIMIT"), "route.go", "if finalSize >= int(abortIndex) {", "if finalSize > int(abortIndex) {", "limit check off by one"),
	m1("c05-limit-removed", ps("C05", "C13"), ps("C05-LIMIT"), "router.go", "if finalSize := len(route.handlers); finalSize >= int(abortIndex) {", "if finalSize := len(route.handlers); finalSize >= 1000 {", "group+route limit check defused"),
	m1("c05-abort-panics", ps("C05"), ps("C05-NOSKIP", "C05-SENTINEL"), "context.go", "func (c *Context) Abort() {\n\tc.index = abortIndex\n", "func (c *Context) Abort() {\n\tc.index = abortIndex\n\tpanic(\"abort\")\n", "Abort unwinds the suspended callers"),
	m1("c05-second-sentinel", ps("C05"), ps("C04-CURSOR", "C05-SENTINEL"), "context.go", "func (c *Context) AbortThen() *Context {\n\tc.index = abortIndex\n", "func (c *Context) AbortThen() *Context {\n\tc.index = 62\n", "second sentinel value"),
	// C12
	m1("c12-no-restore-handlers", ps("C12"), ps("C12-BRACKET"), "router.go", "\tr.currentGroupPrefix = prevPrefix\n\tr.currentGroupHandlers = prevHandlers\n", "\tr.currentGroupPrefix = prevPrefix\n", "group middleware not restored"),
	m1("c12-restore-before-callback", ps("C12"), ps("C12-BRACKET"), "router.go", "\t// call register\n\tregister()\n\n\t// revert\n\tr.currentGroupPrefix = prevPrefix\n", "\tr.currentGroupPrefix = prevPrefix\n\tregister()\n", "prefix restored before the callback runs"),
	m1("c12-alias-group-list", ps("C12"), ps("C12-COPY", "C04-SEQ"), "router.go", "route.handlers = combineHandlers(r.currentGroupHandlers, route.handlers)", "route.handlers = append(r.currentGroupHandlers, route.handlers...)", "route shares the group list's backing array"),
	m1("c12-use-leaks-global", ps("C12", "C04"), ps("C12-USE", "C04-SEQ"), "middleware.go", "\t\tr.currentGroupHandlers = append(r.currentGroupHandlers, middles...)\n\t\treturn", "\t\tr.handlers = append(r.handlers, middles...)\n\t\treturn", "Use inside a group goes to the global list"),
	m1("c12-prefix-unformatted", ps("C12", "C11"), ps("C12-EXTEND", "C11-SAME"), "router.go", "r.currentGroupPrefix = prevPrefix + r.formatPath(prefix)", "r.currentGroupPrefix = prevPrefix + prefix", "group prefix not normalised"),
	m1("c12-resource-outside-group", ps("C12", "C16"), ps("C12-VIA"), "router.go", "\tresName := strings.ToLower(ct.Elem().Name())\n\tbasePath += resName\n", "\tresName := strings.ToLower(ct.Elem().Name())\n\tbasePath += resName\n\tr.GET(basePath+\"/ping\", func(c *Context) {})\n", "Resource registers a route outside the group"),
	m1("c12-group-writes-global", ps("C12"), ps("C12-BRACKET"), "router.go", "\t\t\tr.currentGroupHandlers = middles\n", "\t\t\tr.currentGroupHandlers = middles\n\t\t\tr.handlers = append(r.handlers, middles[0])\n", "Group leaks its first middleware into the global list"),
}

var mutantsC01 = []mutant{
	m1("c01-irregular-forgets", ps("C01"), ps("C01-ACCUM"), "router.go", "rs, has := r.irregularRoutes[method]\n\t\tif !has {", "rs, has := r.irregularRoutes[method]\n\t\tif has {", "F1 again"),
	m1("c01-regular-forgets", ps("C01"), ps("C01-ACCUM"), "router.go", "\t\t\tr.regularRoutes[key] = append(rs, route)", "\t\t\tr.regularRoutes[key] = append(rs[:0], route)", "first-segment list overwritten"),
	m1("c01-escaped-prefix", ps("C01"), ps("C01-REPR"), "parse_match.go", "\targPos := strings.IndexByte(path, '{')", "\tpath = quotePointChar(path)\n\targPos := strings.IndexByte(path, '{')", "F2 again: prefix/first segment cut from escaped text"),
	m1("c01-no-escape", ps("C01"), ps("C01-REPR"), "parse_match.go", "\t// \".\" -> \"\\.\"\n\tpath = quotePointChar(path)\n\n\t// has optional char. /blog[/{id}]  -> /blog(?:/{id})", "\t// has optional char. /blog[/{id}]  -> /blog(?:/{id})", "'.' no longer escaped before compiling"),
	m1("c01-only-first-method", ps("C01"), ps("C01-METHODS"), "router.go", "\t\tfor _, method := range route.methods {\n\t\t\tkey := method + path\n\n\t\t\tr.counter++\n\t\t\tr.stableRoutes[key] = route\n\t\t}", "\t\t{\n\t\t\tkey := route.methods[0] + path\n\n\t\t\tr.counter++\n\t\t\tr.stableRoutes[key] = route\n\t\t}", "static routes registered for their first method only"),
	m1("c01-residual-first", ps("C01"), ps("C01-TIERS"), "parse_match.go",
		"\t// find in regular routes\n\tif pos := strings.IndexByte(path[1:], '/'); pos > 0 {",
		"\tif rs, ok := r.irregularRoutes[method]; ok {\n\t\tfor _, route := range rs {\n\t\t\tif ps, ok := route.matchRegex(path); ok {\n\t\t\t\treturn route, ps\n\t\t\t}\n\t\t}\n\t}\n\t// find in regular routes\n\tif pos := strings.IndexByte(path[1:], '/'); pos > 0 {",
		"residual list consulted before the first-segment list"),
	m1("c01-static-after-dynamic", ps("C01", "C16"), ps("C01-TIERS"), "parse_match.go",
		"\t// find in stable routes\n\tif route, ok := r.stableRoutes[method+path]; ok {\n\t\t// return r.newMatchResult(route, nil)\n\t\treturn route, nil\n\t}\n",
		"",
		"static tier removed from the front (static lookup gone)"),
	m1("c01-last-match-wins", ps("C01"), ps("C01-TIERS"), "parse_match.go", "\t\tfor _, route := range rs {\n\t\t\tif ps, ok := route.matchRegex(path); ok {\n\t\t\t\tr.cacheDynamicRoute(method+path, ps, route)\n\t\t\t\treturn route, ps\n\t\t\t}\n\t\t}",
		"\t\tfor _, route := range rs {\n\t\t\tif ps1, ok := route.matchRegex(path); ok {\n\t\t\t\trt, ps = route, ps1\n\t\t\t}\n\t\t}", "residual scan keeps the last match"),
	m1("c01-reverse-scan", ps("C01"), ps("C01-TIERS"), "parse_match.go", "\t\t\tfor i := range rs {\n", "\t\t\tfor i := len(rs) - 1; i >= 0; i-- {\n", "first-segment list scanned newest first"),
	m1("c01-writer-key-differs", ps("C01"), ps("C01-KEYS"), "parse_match.go", "\t\t\tfirst = start[1 : pos+1]", "\t\t\tfirst = start[1:pos]", "writer computes a different first segment than the reader"),
	m1("c01-reader-key-differs", ps("C01"), ps("C01-KEYS"), "parse_match.go", "\t\tkey := method + path[1:pos+1]", "\t\tkey := method + path[0:pos+1]", "reader computes a different first segment than the writer"),
	m1("c01-no-dollar", ps("C01"), ps("C01-ANCHOR"), "parse_match.go", "\troute.regex = regexp.MustCompile(\"^\" + regexStr + \"$\")\n\troute.goodRegex()\n\treturn\n}", "\troute.regex = regexp.MustCompile(\"^\" + regexStr)\n\troute.goodRegex()\n\treturn\n}", "pattern not anchored at the end"),
	m1("c01-match-on-suffix", ps("C01"), ps("C01-TIERS"), "parse_match.go", "\t\t\t\tif ps, ok := rs[i].matchRegex(path); ok {", "\t\t\t\tif ps, ok := rs[i].matchRegex(path[pos:]); ok {", "regexp applied to a suffix of the path"),
	m1("c01-cache-before-static", ps("C01", "C07"), ps("C01-TIERS"), "parse_match.go",
		"\t// find in stable routes\n\tif route, ok := r.stableRoutes[method+path]; ok {\n\t\t// return r.newMatchResult(route, nil)\n\t\treturn route, nil\n\t}\n\n\t// find in cached routes\n\tif r.enableCaching {\n\t\troute, ok := r.cachedRoutes.Get(method + path)\n\t\tif ok {\n\t\t\treturn route, route.params\n\t\t}\n\t}\n",
		"\tif r.enableCaching {\n\t\troute, ok := r.cachedRoutes.Get(method + path)\n\t\tif ok {\n\t\t\treturn route, route.params\n\t\t}\n\t}\n\tif route, ok := r.stableRoutes[method+path]; ok {\n\t\treturn route, nil\n\t}\n",
		"cache consulted before the static table"),
	// C02
	m1("c02-name-only-custom", ps("C02"), ps("C02-ALIGN"), "parse_match.go", "\t\troute.goodRegexString(n, v)\n\t\troute.matches = append(route.matches, n)\n", "\t\troute.goodRegexString(n, v)\n\t\tif v != anyMatch {\n\t\t\troute.matches = append(route.matches, n)\n\t\t}\n", "name appended only for custom regexes"),
	m1("c02-no-group-default", ps("C02"), ps("C02-ALIGN"), "parse_match.go", "varRegex = append(varRegex, str, \"(\"+v+\")\")", "varRegex = append(varRegex, str, v)", "default variables lose their capture group"),
	m1("c02-no-groupcount", ps("C02", "C13"), ps("C02-GROUPS"), "parse_match.go", "\troute.regex = regexp.MustCompile(\"^\" + regexStr + \"$\")\n\troute.goodRegex()\n\treturn\n}", "\troute.regex = regexp.MustCompile(\"^\" + regexStr + \"$\")\n\treturn\n}", "F5 again"),
	m1("c02-groupcount-lenient", ps("C02", "C13"), ps("C02-GROUPS"), "route.go", "if num := r.regex.NumSubexp(); num != len(r.matches) {", "if num := r.regex.NumSubexp(); num < len(r.matches) {", "group-count check only rejects too few groups"),
	m1("c02-params-second-lookup", ps("C02"), ps("C02-WRITERS"), "dispatch.go", "\t\tctx.Params = params\n", "\t\t_, params, _ = r.QuickMatch(GET, path)\n\t\tctx.Params = params\n", "Params written from a second lookup"),
	m1("c02-hit-without-params", ps("C02", "C07"), ps("C02-CACHE", "C07-VALUE"), "parse_match.go", "\t\t\treturn route, route.params\n", "\t\t\treturn route, nil\n", "cache hit loses the parameters"),
	m1("c02-cache-other-route", ps("C02", "C07"), ps("C02-CACHE", "C07-VALUE"), "parse_match.go", "\t\t\t\tr.cacheDynamicRoute(method+path, ps, route)\n", "\t\t\t\tr.cacheDynamicRoute(method+path, ps, rs[0])\n", "another route cached for this request"),
	m1("c02-copy-drops-params", ps("C02", "C07"), ps("C02-CACHE", "C07-VALUE", "C07-COPY"), "route.go", "\tnr.params = ps\n", "", "cached copy without parameters"),
}
