package main

// mutants.go — construct-anchored rewrites used by the self-test. Each entry
// names the rule(s) expected to report it.

func allMutants() []mutant {
	var ms []mutant
	ms = append(ms, mutantsA...)
	return ms
}

var mutantsA = []mutant{}
