package main

// ruxcheck — repository-specific static checker for gookit/rux.
//
//	ruxcheck -property C07 -tier quick|thorough [-repo /repo] [-verif /verif]
//	ruxcheck -replay evidence/replay/C07.txt
//	ruxcheck -list
//
// Exit 0: every rule of the property decided "holds" (known findings are
// printed as KNOWN-FINDING lines). Exit 1 + "VIOLATION property=<id>
// replay=<path>": a rule reported a construct that is not a listed known
// finding, or could not decide.

import (
	"flag"
	"fmt"
	"os"
	"path/filepath"
	"sort"
	"strconv"
	"strings"
	"time"
)

type multiFlag []string

func (m *multiFlag) String() string     { return strings.Join(*m, ",") }
func (m *multiFlag) Set(v string) error { *m = append(*m, v); return nil }

type ruleFn struct {
	ID string
	Fn func(r *Run)
}

type property struct {
	Meta  propertyMeta
	Rules []ruleFn
}

var registry = map[string]*property{}

func register(p *property) { registry[p.Meta.ID] = p }

func main() {
	prop := flag.String("property", "", "property id (C01..C20)")
	tier := flag.String("tier", "quick", "quick|thorough")
	repo := flag.String("repo", "/repo", "repository to analyse")
	verif := flag.String("verif", "", "verification directory (default: directory above the binary, or cwd)")
	replay := flag.String("replay", "", "replay file: re-run the property named in it")
	list := flag.Bool("list", false, "list properties and rules")
	noSelf := flag.Bool("no-selftest", false, "thorough tier without the mutant self-test")
	selftestOnly := flag.Bool("selftest", false, "run only the mutant self-test for the property (or all) and print the kill matrix")
	naive := flag.Bool("naive", false, "build SSA in NaiveForm (no register lifting)")
	var overlayFlag multiFlag
	flag.Var(&overlayFlag, "overlay", "orig=replacement: analyse with file orig replaced by the contents of replacement (repeatable)")
	goos := flag.String("goos", "", "GOOS for loading")
	goarch := flag.String("goarch", "", "GOARCH for loading")
	quiet := flag.Bool("quiet-evidence", false, "do not write evidence (used for sub-runs on scratch copies)")
	flag.Parse()

	vdir := *verif
	if vdir == "" {
		if exe, err := os.Executable(); err == nil {
			d := filepath.Dir(filepath.Dir(exe))
			if _, err := os.Stat(filepath.Join(d, "properties.jsonl")); err == nil {
				vdir = d
			}
		}
		if vdir == "" {
			vdir, _ = os.Getwd()
		}
	}
	if *list {
		ids := make([]string, 0, len(registry))
		for id := range registry {
			ids = append(ids, id)
		}
		sort.Strings(ids)
		for _, id := range ids {
			fmt.Println(id)
			for _, rf := range registry[id].Rules {
				fmt.Println("   ", rf.ID)
			}
		}
		return
	}
	if *replay != "" {
		data, err := os.ReadFile(*replay)
		if err != nil {
			fmt.Println(err)
			os.Exit(2)
		}
		first := strings.SplitN(string(data), "\n", 2)[0]
		for _, f := range strings.Fields(first) {
			if strings.HasPrefix(f, "property=") {
				*prop = strings.TrimPrefix(f, "property=")
			}
		}
		fmt.Printf("replaying %s against the current tree of %s\n", *prop, *repo)
	}
	if *selftestOnly {
		os.Exit(runSelftestCLI(*prop, *repo, vdir))
	}
	p := registry[*prop]
	if p == nil {
		fmt.Printf("unknown property %q\n", *prop)
		os.Exit(2)
	}
	if t := os.Getenv("VERIF_TIER"); t != "" && *tier == "" {
		*tier = t
	}
	if *tier != "quick" && *tier != "thorough" {
		fmt.Println("tier must be quick or thorough")
		os.Exit(2)
	}
	seed, _ := strconv.ParseInt(os.Getenv("VERIF_SEED"), 10, 64)
	start := time.Now()
	abs, _ := filepath.Abs(*repo)
	var overlay map[string][]byte
	for _, ov := range overlayFlag {
		kv := strings.SplitN(ov, "=", 2)
		data, err := os.ReadFile(kv[1])
		if err != nil {
			fmt.Println(err)
			os.Exit(2)
		}
		if overlay == nil {
			overlay = map[string][]byte{}
		}
		overlay[kv[0]] = data
	}
	if *prop == "C17" {
		// positive fixture for the zero-expected-report taint rule: a virtual file (overlay only, /repo is not touched)
		if overlay == nil {
			overlay = map[string][]byte{}
		}
		overlay[filepath.Join(abs, "pkg", "handlers", "zz_verif_fixture.go")] = []byte(taintFixture)
	}
	var extraEnv []string
	if *goos != "" {
		extraEnv = append(extraEnv, "GOOS="+*goos)
	}
	if *goarch != "" {
		extraEnv = append(extraEnv, "GOARCH="+*goarch)
	}
	w, err := Load(abs, *naive, overlay, extraEnv...)
	if err != nil {
		// undecidable: the tree does not load / type-check
		fmt.Printf("cannot analyse %s: %v\n", abs, err)
		rp := filepath.Join(vdir, "evidence", "replay", *prop+".txt")
		_ = os.MkdirAll(filepath.Dir(rp), 0o755)
		_ = os.WriteFile(rp, []byte(fmt.Sprintf("property=%s load failure: %v\n", *prop, err)), 0o644)
		fmt.Printf("VIOLATION property=%s replay=%s\n", *prop, rp)
		os.Exit(1)
	}
	run := &Run{W: w, Property: *prop, Tier: *tier, Analysed: map[string]any{}}
	for _, rf := range p.Rules {
		rf := rf
		run.guard(rf.ID, func() { rf.Fn(run) })
	}
	var selftest any
	if *tier == "thorough" {
		selftest = thoroughExtras(run, p, abs, vdir, !*noSelf)
	}
	if *quiet {
		code := run.finishQuiet(vdir)
		os.Exit(code)
	}
	os.Exit(run.finish(p.Meta, vdir, start, seed, selftest))
}

// finishQuiet prints the reports without touching evidence (sub-runs).
func (r *Run) finishQuiet(vdir string) int {
	known, _, _ := loadKnown(filepath.Join(vdir, "known_findings.txt"))
	rules := make([]string, 0, len(r.floors))
	for k := range r.floors {
		rules = append(rules, k)
	}
	sort.Strings(rules)
	for _, rule := range rules {
		if n := r.count(rule); n < r.floors[rule] {
			r.Undecided(rule, "floor", 0, fmt.Sprintf("rule matched %d < floor %d sites", n, r.floors[rule]))
		}
	}
	code := 0
	for _, o := range r.Obs {
		if o.Verdict == Violated {
			isKnown := false
			for _, k := range known {
				if k.Property == r.Property && k.Rule == o.Rule && k.Construct == strings.ReplaceAll(o.Construct, " ", "_") {
					isKnown = true
				}
			}
			if isKnown {
				continue
			}
		}
		if o.Verdict != Holds {
			fmt.Printf("REPORT\t%s\t%s\t%s\t%s\t%s\n", o.Rule, o.Construct, o.Verdict, o.Site, o.Detail)
			code = 1
		}
	}
	fmt.Printf("SUBRUN property=%s obligations=%d\n", r.Property, len(r.Obs))
	return code
}

const taintFixture = `package handlers

import (
	"os"
	"path/filepath"

	"github.com/gookit/rux"
)

// zzVerifFixtureServe joins a request parameter to the root by hand: the
// taint rule C17-TAINT must flag it on every run.
func zzVerifFixtureServe(root string) rux.HandlerFunc {
	return func(c *rux.Context) {
		f, err := os.Open(filepath.Join(root, c.Param("file")))
		if err == nil {
			_ = f.Close()
		}
	}
}
`
