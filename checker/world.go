package main

// world.go — loading /repo, SSA construction, anchor resolution.
//
// Everything a rule names (function, method, field, global) is resolved
// here through type information. An anchor that cannot be resolved is an
// *undecided* outcome: the rule fails and says which anchor is missing.

import (
	"fmt"
	"go/ast"
	"go/token"
	"go/types"
	"os"
	"sort"
	"strings"

	"golang.org/x/tools/go/packages"
	"golang.org/x/tools/go/ssa"
	"golang.org/x/tools/go/ssa/ssautil"
)

const modPath = "github.com/gookit/rux"

// World is the resolved program.
type World struct {
	Dir   string
	Fset  *token.FileSet
	Pkgs  []*packages.Package // the module's own packages
	ByPkg map[string]*packages.Package
	Prog  *ssa.Program
	SSA   map[string]*ssa.Package
	// Funcs: every function (declared, method, anonymous) whose body lives in
	// the module's packages, sorted by position.
	Funcs []*ssa.Function
	// parent closure relation and decl lookup
	declOf map[*ssa.Function]ast.Node

	NumInstr int
	moved    map[string]*ssa.Function

	reqAlias     *ssa.Parameter
	reqAliasDone bool
}

func loadEnv(extra ...string) []string {
	env := []string{}
	for _, kv := range os.Environ() {
		k := kv
		if i := strings.IndexByte(kv, '='); i >= 0 {
			k = kv[:i]
		}
		switch k {
		case "GOFLAGS", "GOPROXY", "GOSUMDB", "GOTOOLCHAIN", "GOWORK", "GOOS", "GOARCH", "CGO_ENABLED":
			continue
		}
		env = append(env, kv)
	}
	env = append(env, "GOFLAGS=-mod=mod", "GOPROXY=off", "GOSUMDB=off", "GOTOOLCHAIN=local", "GOWORK=off", "CGO_ENABLED=0")
	env = append(env, extra...)
	return env
}

// Load type-checks the module at dir from source (LoadAllSyntax) and builds SSA.
func Load(dir string, naive bool, overlay map[string][]byte, extraEnv ...string) (*World, error) {
	cfg := &packages.Config{
		Mode:    packages.LoadAllSyntax,
		Dir:     dir,
		Env:     loadEnv(extraEnv...),
		Tests:   false,
		Overlay: overlay,
	}
	pkgs, err := packages.Load(cfg, "./...")
	if err != nil {
		return nil, fmt.Errorf("packages.Load: %v", err)
	}
	if len(pkgs) == 0 {
		return nil, fmt.Errorf("no packages loaded from %s", dir)
	}
	w := &World{Dir: dir, ByPkg: map[string]*packages.Package{}, SSA: map[string]*ssa.Package{}, declOf: map[*ssa.Function]ast.Node{}}
	var errs []string
	packages.Visit(pkgs, nil, func(p *packages.Package) {
		for _, e := range p.Errors {
			errs = append(errs, e.Error())
		}
	})
	if len(errs) > 0 {
		sort.Strings(errs)
		if len(errs) > 8 {
			errs = errs[:8]
		}
		return nil, fmt.Errorf("type/load errors: %s", strings.Join(errs, "; "))
	}
	sort.Slice(pkgs, func(i, j int) bool { return pkgs[i].PkgPath < pkgs[j].PkgPath })
	for _, p := range pkgs {
		if p.PkgPath != modPath && !strings.HasPrefix(p.PkgPath, modPath+"/") {
			return nil, fmt.Errorf("unexpected package %s (module path changed?)", p.PkgPath)
		}
		w.Pkgs = append(w.Pkgs, p)
		w.ByPkg[p.PkgPath] = p
		w.Fset = p.Fset
	}
	if w.ByPkg[modPath] == nil {
		return nil, fmt.Errorf("root package %s not loaded", modPath)
	}
	mode := ssa.InstantiateGenerics
	if naive {
		mode |= ssa.NaiveForm
	}
	prog, spkgs := ssautil.AllPackages(pkgs, mode)
	prog.Build()
	w.Prog = prog
	for i, sp := range spkgs {
		if sp == nil {
			return nil, fmt.Errorf("no SSA for %s", pkgs[i].PkgPath)
		}
		w.SSA[pkgs[i].PkgPath] = sp
	}
	// collect functions of the module
	seen := map[*ssa.Function]bool{}
	var add func(f *ssa.Function)
	add = func(f *ssa.Function) {
		if f == nil || seen[f] || f.Blocks == nil {
			return
		}
		seen[f] = true
		w.Funcs = append(w.Funcs, f)
		for _, a := range f.AnonFuncs {
			add(a)
		}
	}
	for _, p := range w.Pkgs {
		sp := w.SSA[p.PkgPath]
		for _, m := range sp.Members {
			switch m := m.(type) {
			case *ssa.Function:
				add(m)
			case *ssa.Type:
				for _, t := range []types.Type{m.Type(), types.NewPointer(m.Type())} {
					ms := prog.MethodSets.MethodSet(t)
					for i := 0; i < ms.Len(); i++ {
						fn := prog.MethodValue(ms.At(i))
						if fn != nil && fn.Pkg == sp && fn.Synthetic == "" {
							add(fn)
						}
					}
				}
			}
		}
		// package initialiser holds the closures assigned to globals
		if init := sp.Func("init"); init != nil {
			add(init)
		}
	}
	sort.Slice(w.Funcs, func(i, j int) bool {
		pi, pj := w.Fset.Position(w.Funcs[i].Pos()), w.Fset.Position(w.Funcs[j].Pos())
		if pi.Filename != pj.Filename {
			return pi.Filename < pj.Filename
		}
		if pi.Offset != pj.Offset {
			return pi.Offset < pj.Offset
		}
		return w.Funcs[i].String() < w.Funcs[j].String()
	})
	for _, f := range w.Funcs {
		for _, b := range f.Blocks {
			w.NumInstr += len(b.Instrs)
		}
	}
	return w, nil
}

// ---------------------------------------------------------------------------
// anchors

type anchorErr struct{ what string }

func (e anchorErr) Error() string { return "unresolved anchor: " + e.what }

func pkgPath(short string) string {
	if short == "" || short == "rux" {
		return modPath
	}
	if short == "server" {
		return modPath + "/server"
	}
	return modPath + "/pkg/" + short
}

// Fn resolves a package-level function ("rux", "combineHandlers") or method
// ("rux", "Router.Group" / "*Router.Group" – pointer-ness is inferred).
// It panics with anchorErr when missing; rule runners recover it.
func (w *World) Fn(pkg, name string) *ssa.Function {
	f := w.FnOpt(pkg, name)
	if f == nil {
		panic(anchorErr{pkg + "." + name})
	}
	return f
}

func (w *World) FnOpt(pkg, name string) *ssa.Function {
	sp := w.SSA[pkgPath(pkg)]
	if sp == nil {
		return nil
	}
	if i := strings.IndexByte(name, '.'); i >= 0 {
		tn, mn := strings.TrimPrefix(name[:i], "*"), name[i+1:]
		t := sp.Type(tn)
		if t == nil {
			return w.movedFn(pkg, tn, mn)
		}
		for _, typ := range []types.Type{types.NewPointer(t.Type()), t.Type()} {
			sel := w.Prog.MethodSets.MethodSet(typ).Lookup(sp.Pkg, mn)
			if sel != nil {
				fn := w.Prog.MethodValue(sel)
				if fn != nil && fn.Synthetic != "" {
					// wrapper (*T).m for value method: unwrap to the declared one
					if obj, ok := sel.Obj().(*types.Func); ok {
						if d := w.Prog.FuncValue(obj); d != nil {
							return d
						}
					}
				}
				if fn != nil {
					return fn
				}
			}
		}
		return w.movedFn(pkg, tn, mn)
	}
	if f := sp.Func(name); f != nil {
		return f
	}
	return w.movedFn(pkg, "", name)
}

// movedFn: an anchor of the pinned tree that is gone under its name but whose body
// lives on unchanged under another name / receiver (see movedFuncs).
func (w *World) movedFn(pkg, recv, name string) *ssa.Function {
	rel := "."
	switch {
	case pkg == "" || pkg == "rux":
	case pkg == "server":
		rel = "server"
	default:
		rel = "pkg/" + pkg
	}
	if w.moved == nil {
		w.moved = map[string]*ssa.Function{}
		cur := map[string]string{}
		decl := map[string]*types.Func{}
		for _, p := range w.Pkgs {
			for _, f := range p.Syntax {
				fn := p.Fset.PositionFor(f.Pos(), false).Filename
				for _, d := range f.Decls {
					if fd, ok := d.(*ast.FuncDecl); ok {
						k := funcKey(w.Dir, fn, fd)
						cur[k] = bodyHash(p.Fset, fd) + "|" + bodyShape(fd)
						if o, ok := p.TypesInfo.Defs[fd.Name].(*types.Func); ok {
							decl[k] = o
						}
					}
				}
			}
		}
		for oldK, newK := range movedFuncs(cur) {
			if o := decl[newK]; o != nil {
				if sf := w.Prog.FuncValue(o); sf != nil {
					w.moved[oldK] = sf
				}
			}
		}
	}
	return w.moved[rel+":"+recv+"."+name]
}

// Global resolves a package-level variable.
func (w *World) Global(pkg, name string) *ssa.Global {
	sp := w.SSA[pkgPath(pkg)]
	if sp != nil {
		if g, ok := sp.Members[name].(*ssa.Global); ok {
			return g
		}
	}
	// renamed: the pinned tree's variable is gone and exactly one package-level variable the pinned
	// tree did not have carries the same type
	if sp != nil {
		rel := relOfPkg(pkg)
		want, known := "", map[string]bool{}
		for _, e := range baselineGlobals[rel] {
			if i := strings.IndexByte(e, ' '); i > 0 {
				known[e[:i]] = true
				if e[:i] == name {
					want = e[i+1:]
				}
			}
		}
		if want != "" {
			var cands []*ssa.Global
			for nm, mem := range sp.Members {
				if g, ok := mem.(*ssa.Global); ok && !known[nm] && !strings.Contains(nm, "$") {
					if types.TypeString(g.Type().(*types.Pointer).Elem(), relQualifier(sp.Pkg)) == want {
						cands = append(cands, g)
					}
				}
			}
			if len(cands) == 1 {
				return cands[0]
			}
		}
	}
	panic(anchorErr{"var " + pkg + "." + name})
}

func relOfPkg(pkg string) string {
	switch {
	case pkg == "" || pkg == "rux":
		return "."
	case pkg == "server":
		return "server"
	}
	return "pkg/" + pkg
}

func relQualifier(self *types.Package) types.Qualifier {
	return func(q *types.Package) string {
		if q == self || q.Path() == self.Path() {
			return ""
		}
		return q.Name()
	}
}

// ConstVal resolves a package-level constant.
func (w *World) Const(pkg, name string) *ssa.NamedConst {
	sp := w.SSA[pkgPath(pkg)]
	if sp != nil {
		if c, ok := sp.Members[name].(*ssa.NamedConst); ok {
			return c
		}
	}
	// renamed: same type and value under a name the pinned tree did not have
	if sp != nil {
		rel := relOfPkg(pkg)
		want, known := "", map[string]bool{}
		for _, e := range baselineConsts[rel] {
			if i := strings.IndexByte(e, ' '); i > 0 {
				known[e[:i]] = true
				if e[:i] == name {
					want = e[i+1:]
				}
			}
		}
		if want != "" {
			var cands []*ssa.NamedConst
			for nm, mem := range sp.Members {
				if c, ok := mem.(*ssa.NamedConst); ok && !known[nm] && c.Value != nil && c.Value.Value != nil {
					if types.TypeString(c.Type(), relQualifier(sp.Pkg))+" = "+c.Value.Value.ExactString() == want {
						cands = append(cands, c)
					}
				}
			}
			if len(cands) == 1 {
				return cands[0]
			}
		}
	}
	panic(anchorErr{"const " + pkg + "." + name})
}

// Struct resolves a named struct type.
func (w *World) Named(pkg, name string) *types.Named {
	p := w.ByPkg[pkgPath(pkg)]
	if p != nil {
		if o := p.Types.Scope().Lookup(name); o != nil {
			if n, ok := o.Type().(*types.Named); ok {
				return n
			}
		}
	}
	if n := w.renamedType(pkg, name); n != nil {
		return n
	}
	panic(anchorErr{"type " + pkg + "." + name})
}

// renamedType: a struct type of the pinned tree that is gone under its name, while exactly one struct type that the
// pinned tree did not have carries the same field types in the same order (cacheNode{Key, Value} renamed to
// cacheEntry{key, route}).
func (w *World) renamedType(pkg, name string) *types.Named {
	p := w.ByPkg[pkgPath(pkg)]
	if p == nil {
		return nil
	}
	rel := relOfPkg(pkg)
	base, ok := baselineFields[rel+":"+name]
	if !ok || len(base) == 0 {
		return nil
	}
	var want []string
	for _, ft := range base {
		if i := strings.IndexByte(ft, ' '); i > 0 {
			want = append(want, ft[i+1:])
		}
	}
	var cands []*types.Named
	sc := p.Types.Scope()
	for _, nm := range sc.Names() {
		if _, known := baselineFields[rel+":"+nm]; known {
			continue
		}
		tn, isT := sc.Lookup(nm).(*types.TypeName)
		if !isT || tn.IsAlias() {
			continue
		}
		n, isN := tn.Type().(*types.Named)
		if !isN {
			continue
		}
		st, isS := n.Underlying().(*types.Struct)
		if !isS || st.NumFields() != len(want) {
			continue
		}
		same := true
		for i := 0; i < st.NumFields(); i++ {
			if types.TypeString(st.Field(i).Type(), func(q *types.Package) string {
				if q.Path() == p.Types.Path() {
					return ""
				}
				return q.Name()
			}) != want[i] {
				same = false
			}
		}
		if same {
			cands = append(cands, n)
		}
	}
	if len(cands) == 1 {
		return cands[0]
	}
	return nil
}

// NamedOpt is Named for optional types (nil when absent).
func (w *World) NamedOpt(pkg, name string) *types.Named {
	p := w.ByPkg[pkgPath(pkg)]
	if p != nil {
		if o := p.Types.Scope().Lookup(name); o != nil {
			if n, ok := o.Type().(*types.Named); ok {
				return n
			}
		}
	}
	return w.renamedType(pkg, name)
}

// Field resolves a struct field object.
func (w *World) Field(pkg, typ, field string) *types.Var {
	n := w.Named(pkg, typ)
	st, ok := n.Underlying().(*types.Struct)
	if ok {
		for i := 0; i < st.NumFields(); i++ {
			if st.Field(i).Name() == field {
				return st.Field(i)
			}
		}
	}
	// promoted field: the field moved into an embedded struct of the same package (r.strictLastSlash is then
	// r.settings.strictLastSlash; uses compile unchanged)
	if ok {
		var found []*types.Var
		for i := 0; i < st.NumFields(); i++ {
			ef := st.Field(i)
			if !ef.Embedded() {
				continue
			}
			et := ef.Type()
			if pt, isPtr := et.(*types.Pointer); isPtr {
				et = pt.Elem()
			}
			if est, isSt := et.Underlying().(*types.Struct); isSt {
				for j := 0; j < est.NumFields(); j++ {
					if est.Field(j).Name() == field {
						found = append(found, est.Field(j))
					}
				}
			}
		}
		if len(found) == 1 {
			return found[0]
		}
	}
	// renamed field: the pinned tree's field is gone and exactly one field that the pinned tree did not
	// have carries the same type
	if ok {
		rel := "."
		switch {
		case pkg == "" || pkg == "rux":
		case pkg == "server":
			rel = "server"
		default:
			rel = "pkg/" + pkg
		}
		base := baselineFields[rel+":"+typ]
		want := ""
		known := map[string]bool{}
		for _, ft := range base {
			if i := strings.IndexByte(ft, ' '); i > 0 {
				known[ft[:i]] = true
				if ft[:i] == field {
					want = ft[i+1:]
				}
			}
		}
		if want != "" {
			var cands []*types.Var
			for i := 0; i < st.NumFields(); i++ {
				f := st.Field(i)
				if !known[f.Name()] && types.TypeString(f.Type(), func(p *types.Package) string {
					if p.Path() == n.Obj().Pkg().Path() {
						return ""
					}
					return p.Name()
				}) == want {
					cands = append(cands, f)
				}
			}
			if len(cands) == 1 {
				return cands[0]
			}
		}
	}
	panic(anchorErr{"field " + pkg + "." + typ + "." + field})
}

func (w *World) FieldOpt(pkg, typ, field string) (v *types.Var) {
	defer func() {
		if recover() != nil {
			v = nil
		}
	}()
	return w.Field(pkg, typ, field)
}

// StructFields lists the fields of a named struct.
func (w *World) StructFields(pkg, typ string) []*types.Var {
	n := w.Named(pkg, typ)
	st, ok := n.Underlying().(*types.Struct)
	if !ok {
		panic(anchorErr{"struct " + pkg + "." + typ})
	}
	var out []*types.Var
	for i := 0; i < st.NumFields(); i++ {
		out = append(out, st.Field(i))
	}
	return out
}

// Anon returns the anonymous functions directly nested in f, in source order.
func (w *World) Anon(f *ssa.Function) []*ssa.Function { return f.AnonFuncs }

// InModule reports whether fn's body belongs to the analysed module.
func (w *World) InModule(fn *ssa.Function) bool {
	if fn == nil {
		return false
	}
	root := fn
	for root.Parent() != nil {
		root = root.Parent()
	}
	if root.Pkg == nil {
		// instantiation or synthetic
		if o := root.Origin(); o != nil && o.Pkg != nil {
			root = o
		} else {
			return false
		}
	}
	p := root.Pkg.Pkg.Path()
	return p == modPath || strings.HasPrefix(p, modPath+"/")
}

// Pos renders a position relative to the repository root.
func (w *World) Pos(p token.Pos) string {
	if !p.IsValid() {
		return "-"
	}
	ps := w.Fset.Position(p)
	fn := ps.Filename
	if rel := strings.TrimPrefix(fn, w.Dir+"/"); rel != fn {
		fn = rel
	}
	return fmt.Sprintf("%s:%d:%d", fn, ps.Line, ps.Column)
}

// InstrPos finds a usable position for an instruction (go/ssa leaves NoPos
// on many; fall back to operands, then to the enclosing function).
func (w *World) InstrPos(in ssa.Instruction) token.Pos {
	if in == nil {
		return token.NoPos
	}
	if p := in.Pos(); p.IsValid() {
		return p
	}
	if v, ok := in.(ssa.Value); ok {
		_ = v
	}
	var ops []*ssa.Value
	ops = in.Operands(ops)
	for _, o := range ops {
		if *o != nil {
			if oi, ok := (*o).(ssa.Instruction); ok {
				if p := oi.Pos(); p.IsValid() {
					return p
				}
			}
		}
	}
	// neighbours in the block
	b := in.Block()
	if b != nil {
		idx := -1
		for i, x := range b.Instrs {
			if x == in {
				idx = i
			}
		}
		for d := 1; d < len(b.Instrs); d++ {
			for _, j := range []int{idx - d, idx + d} {
				if j >= 0 && j < len(b.Instrs) {
					if p := b.Instrs[j].Pos(); p.IsValid() {
						return p
					}
				}
			}
		}
	}
	if in.Parent() != nil {
		return in.Parent().Pos()
	}
	return token.NoPos
}

// FuncName gives a stable readable name for a function: pkg.Type.method or
// pkg.func, closures as parent$N.
func FuncName(f *ssa.Function) string {
	if f == nil {
		return "<nil>"
	}
	s := f.String()
	s = strings.ReplaceAll(s, modPath+"/pkg/", "")
	s = strings.ReplaceAll(s, modPath+"/", "")
	s = strings.ReplaceAll(s, modPath, "rux")
	s = strings.ReplaceAll(s, "(*rux.", "(*")
	return s
}

// FileOf returns the syntax file containing pos.
func (w *World) FileOf(pos token.Pos) (*packages.Package, *ast.File) {
	for _, p := range w.Pkgs {
		for _, f := range p.Syntax {
			if f.Pos() <= pos && pos <= f.End() {
				return p, f
			}
		}
	}
	return nil, nil
}

// DeclOf returns the *ast.FuncDecl or *ast.FuncLit of a function.
func (w *World) DeclOf(f *ssa.Function) ast.Node { return f.Syntax() }

// TypesInfo of the package owning f.
func (w *World) InfoOf(f *ssa.Function) *types.Info {
	root := f
	for root.Parent() != nil {
		root = root.Parent()
	}
	if root.Pkg == nil {
		return nil
	}
	p := w.ByPkg[root.Pkg.Pkg.Path()]
	if p == nil {
		return nil
	}
	return p.TypesInfo
}

// Dispatcher returns the function of the request core that matches the
// request and installs the handler chain (calls QuickMatch and
// Context.SetHandlers) — found structurally, so that splitting or renaming
// handleHTTPRequest does not turn the dispatcher rules into alarms.
func (w *World) Dispatcher() *ssa.Function {
	qm, sh := w.Fn("rux", "Router.QuickMatch"), w.Fn("rux", "Context.SetHandlers")
	var found []*ssa.Function
	for _, f := range w.Funcs {
		if f.Parent() != nil {
			continue
		}
		q, s := false, false
		for _, b := range f.Blocks {
			for _, in := range b.Instrs {
				if c, ok := in.(*ssa.Call); ok {
					switch c.Call.StaticCallee() {
					case qm:
						q = true
					case sh:
						s = true
					}
				}
			}
		}
		if q && s {
			found = append(found, f)
		}
	}
	if len(found) == 1 {
		return found[0]
	}
	panic(anchorErr{"the dispatcher (unique function calling QuickMatch and Context.SetHandlers)"})
}

// reqAccess: v reads the current request — ctx.Req.<fields> of the dispatcher's context, or
// <fields> of a *http.Request parameter of the dispatcher that every caller binds to that same
// ctx.Req (verified by requestAlias). Returns the field names after the request.
func (w *World) reqAccess(v ssa.Value) ([]string, bool) {
	acc := unwrapAddr(v)
	var names []string
	for _, f := range acc.Fields {
		if f == nil {
			return nil, false
		}
		names = append(names, f.Name())
	}
	if prm, ok := acc.Base.(*ssa.Parameter); ok {
		if isNamedPtr(prm.Type(), w.Named("rux", "Context")) && len(names) > 0 && names[0] == "Req" {
			return names[1:], true
		}
		if prm == w.requestAlias() && prm != nil {
			return names, true
		}
	}
	return nil, false
}

// requestAlias: a *http.Request parameter of the dispatcher such that at every call of the
// dispatcher the argument is the Req field of the context passed in the same call — read from it,
// or stored into it (directly or by Context.Init) on every path before the call. nil if there is none.
func (w *World) requestAlias() *ssa.Parameter {
	if w.reqAliasDone {
		return w.reqAlias
	}
	w.reqAliasDone = true
	disp := w.Dispatcher()
	ctxT := w.Named("rux", "Context")
	reqF := w.Field("rux", "Context", "Req")
	ci, ri := -1, -1
	for i, p := range disp.Params {
		if isNamedPtr(p.Type(), ctxT) {
			ci = i
		}
		if types.TypeString(p.Type(), nil) == "*net/http.Request" {
			ri = i
		}
	}
	if ci < 0 || ri < 0 {
		return nil
	}
	initFn := w.FnOpt("rux", "Context.Init")
	n := 0
	for _, g := range w.Funcs {
		for _, c := range callsToFn(g, disp) {
			n++
			a := c.Common().Args
			ctxArg, reqArg := a[ci], a[ri]
			ok := false
			if acc := unwrapAddr(reqArg); len(acc.Fields) == 1 && acc.Fields[0] == reqF && !acc.Elem && canon(acc.Base) == canon(unwrapAddr(ctxArg).Base) {
				ok = true
			}
			if !ok {
				eachInstr(g, func(in ssa.Instruction) {
					if !dominates(in, c.(ssa.Instruction)) {
						return
					}
					switch x := in.(type) {
					case *ssa.Store:
						if fa, isFA := x.Addr.(*ssa.FieldAddr); isFA && fieldVar(fa.X.Type(), fa.Field) == reqF && canon(fa.X) == canon(ctxArg) && x.Val == reqArg {
							ok = true
						}
					case *ssa.Call:
						if initFn != nil && staticCallee(x) == initFn && len(x.Call.Args) == 3 && canon(x.Call.Args[0]) == canon(ctxArg) && x.Call.Args[2] == reqArg {
							// Init stores its request parameter into Req
							for _, st := range storesToField(initFn, reqF) {
								if st.Val == ssa.Value(initFn.Params[2]) {
									ok = true
								}
							}
						}
					}
				})
			}
			if !ok {
				return nil
			}
		}
	}
	if n == 0 {
		return nil
	}
	w.reqAlias = disp.Params[ri]
	return w.reqAlias
}
