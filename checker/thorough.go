package main

// thorough.go — thorough tier: configuration matrix, mutant self-test,
// compiler bounds-check cross-reference and VTA reachability cross-check.

import (
	"fmt"
	"go/token"
	"os/exec"
	"regexp"
	"sort"
	"strconv"
	"strings"

	"golang.org/x/tools/go/callgraph/cha"
	"golang.org/x/tools/go/callgraph/vta"
	"golang.org/x/tools/go/ssa"
	"golang.org/x/tools/go/ssa/ssautil"
)

func thoroughExtras(run *Run, p *property, repo, vdir string, withSelftest bool) any {
	out := map[string]any{}
	out["config_matrix"] = configMatrix(run, p, repo, vdir)
	if run.IdxSites != nil {
		out["compiler_bce_crossref"] = bceCrossRef(run, repo)
	}
	if run.Property == "C03" || run.Property == "C10" || run.Property == "C13" {
		out["vta_reachability_crosscheck"] = vtaCrossCheck(run)
	}
	if withSelftest {
		out["mutants"] = selftestFor(run.Property, repo, vdir)
	}
	return out
}

// bceCrossRef asks the Go compiler which bounds checks it could not prove away
// (-d=ssa/check_bce) and requires that every such site inside a function
// covered by E-IDX has an E-IDX obligation on the same line: a site the
// compiler cannot prove and E-IDX does not list would be a hole in E-IDX.
func bceCrossRef(run *Run, repo string) any {
	cmd := exec.Command("go", "build", "-gcflags=-d=ssa/check_bce/debug=1", "./...")
	cmd.Dir = repo
	cmd.Env = loadEnv()
	outb, _ := cmd.CombinedOutput()
	re := regexp.MustCompile(`^(\S+\.go):(\d+):(\d+): Found (IsInBounds|IsSliceInBounds)`)
	w := run.W
	type site struct {
		file string
		line int
		kind string
	}
	var sites []site
	for _, l := range strings.Split(string(outb), "\n") {
		if m := re.FindStringSubmatch(strings.TrimSpace(l)); m != nil {
			ln, _ := strconv.Atoi(m[2])
			f := m[1]
			f = strings.TrimPrefix(f, "./")
			sites = append(sites, site{f, ln, m[4]})
		}
	}
	// function containing a file:line
	fnAt := func(file string, line int) *ssa.Function {
		var best *ssa.Function
		for _, f := range w.Funcs {
			syn := f.Syntax()
			if syn == nil {
				continue
			}
			ps, pe := w.Fset.Position(syn.Pos()), w.Fset.Position(syn.End())
			if strings.HasSuffix(ps.Filename, "/"+file) && ps.Line <= line && line <= pe.Line {
				if best == nil || w.Fset.Position(best.Syntax().Pos()).Line <= ps.Line {
					best = f
				}
			}
		}
		return best
	}
	matched, uncovered, outside := 0, 0, 0
	var missing []string
	for _, s := range sites {
		f := fnAt(s.file, s.line)
		if f == nil || !run.IdxSites["fn:"+FuncName(f)] {
			outside++
			continue
		}
		ok := false
		for k := range run.IdxSites {
			if strings.HasSuffix(k, "/"+s.file+":"+strconv.Itoa(s.line)) {
				ok = true
			}
		}
		if ok {
			matched++
		} else {
			uncovered++
			missing = append(missing, fmt.Sprintf("%s:%d %s in %s", s.file, s.line, s.kind, FuncName(f)))
		}
	}
	sort.Strings(missing)
	if len(sites) == 0 {
		run.Undecided("BCE-CROSSREF", "compiler output", token.NoPos, "the compiler reported no bounds-check sites at all (go build failed?): "+firstLines(string(outb), 3))
	}
	for _, m := range missing {
		run.Undecided("BCE-CROSSREF", m, token.NoPos, "the compiler cannot prove this bounds check away and E-IDX has no obligation on that line (hole in the prover's obligation enumeration)")
	}
	if len(missing) == 0 && len(sites) > 0 {
		run.Check("BCE-CROSSREF", "all compiler-unproven sites in covered functions are E-IDX obligations", token.NoPos, true,
			fmt.Sprintf("%d unproven bounds checks reported by the compiler; %d lie in functions covered by E-IDX and each has an obligation; %d are outside (registration-time or helper code)", len(sites), matched, outside))
	}
	return map[string]any{"compiler_sites": len(sites), "in_covered_functions_with_obligation": matched, "in_covered_functions_without_obligation": uncovered, "outside_covered_functions": outside, "missing": missing}
}

func firstLines(s string, n int) string {
	ls := strings.Split(s, "\n")
	if len(ls) > n {
		ls = ls[:n]
	}
	return strings.Join(ls, " | ")
}

// vtaCrossCheck recomputes request-phase reachability with x/tools' VTA call
// graph (seeded by CHA) over the whole program and requires that every module
// function it reaches from the router's entry points is in the checker's own
// request-phase set: the rules' own call graph must not be missing an edge.
func vtaCrossCheck(run *Run) any {
	w := run.W
	cgMine := w.BuildCG()
	ph := w.Phases(cgMine)
	g := vta.CallGraph(ssautil.AllFunctions(w.Prog), cha.CallGraph(w.Prog))
	roots := []*ssa.Function{w.Fn("rux", "Router.ServeHTTP"), w.Fn("rux", "Router.HandleContext"), w.Fn("rux", "Router.Match"), w.Fn("rux", "Router.QuickMatch")}
	seen := map[*ssa.Function]bool{}
	var walk func(f *ssa.Function)
	walk = func(f *ssa.Function) {
		if f == nil || seen[f] {
			return
		}
		seen[f] = true
		// stay inside the module: library internals are not analysed by the rules either
		if !w.InModule(f) {
			return
		}
		n := g.Nodes[f]
		if n == nil {
			return
		}
		for _, e := range n.Out {
			walk(e.Callee.Func)
		}
	}
	for _, r := range roots {
		walk(r)
	}
	var missing []string
	n := 0
	for f := range seen {
		if !w.InModule(f) || f.Blocks == nil || f.Synthetic != "" {
			continue
		}
		n++
		if !ph.Req[f] {
			missing = append(missing, FuncName(f))
		}
	}
	sort.Strings(missing)
	for _, m := range missing {
		run.Undecided("VTA-CROSSCHECK", m, token.NoPos, "VTA reaches this module function from the request entry points but the checker's request-phase set does not contain it")
	}
	if len(missing) == 0 {
		run.Check("VTA-CROSSCHECK", "request-phase set is a superset of VTA reachability", token.NoPos, true,
			fmt.Sprintf("%d module functions reachable under VTA from ServeHTTP/HandleContext/Match/QuickMatch, all inside the checker's request-phase set of %d functions", n, len(ph.Req)))
	}
	return map[string]any{"vta_reachable_module_functions": n, "request_phase_functions": len(ph.Req), "missing": missing}
}
