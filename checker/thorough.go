package main

// thorough.go — thorough tier: configuration matrix, NaiveForm cross-check and
// the mutant self-test. Filled in by selftest.go.

func thoroughExtras(run *Run, p *property, repo, vdir string, withSelftest bool) any {
	out := map[string]any{}
	out["config_matrix"] = configMatrix(run, p, repo, vdir)
	if withSelftest {
		out["mutants"] = selftestFor(run.Property, repo, vdir)
	}
	return out
}
