package main

// rules_c10.go — C10: every request starts from a pristine context.
// E-FLD: definite field assignment with callee summaries + provenance.

import (
	"fmt"
	"go/token"
	"go/types"
	"sort"
	"strings"

	"golang.org/x/tools/go/ssa"
)

// assigned describes one definite assignment to a field path of the receiver.
type assigned struct {
	path  string // "index" or "writer.status"
	val   ssa.Value
	fn    *ssa.Function
	store ssa.Instruction
	// param substitution chain: value is parameter #k of fn, bound to args at the call
	bind map[*ssa.Parameter]ssa.Value
}

// definiteAssign computes the field paths of `recv` (a pointer value in f:
// parameter or field address) that are assigned on every path from entry to
// every normal return of f, following calls to module methods on recv or on
// addresses of recv's fields.
func definiteAssign(w *World, f *ssa.Function, depth int) map[string]assigned {
	out := map[string]assigned{}
	if depth > 4 || len(f.Params) == 0 {
		return out
	}
	recv := f.Params[0]
	onAllPaths := func(in ssa.Instruction) bool {
		ok, _ := allPathsHit(f, nil, func(x ssa.Instruction) bool { return x == in })
		return ok
	}
	// pathOf: address -> field path relative to recv, "" if not rooted at recv
	pathOf := func(addr ssa.Value) (string, bool) {
		acc := unwrapAddr(addr)
		if acc.Base != ssa.Value(recv) || acc.Elem {
			return "", false
		}
		var names []string
		for _, fv := range acc.Fields {
			if fv == nil {
				return "", false
			}
			names = append(names, fv.Name())
		}
		return strings.Join(names, "."), true
	}
	eachInstr(f, func(in ssa.Instruction) {
		switch x := in.(type) {
		case *ssa.Store:
			p, ok := pathOf(x.Addr)
			if !ok || p == "" {
				return
			}
			if _, isFA := x.Addr.(*ssa.FieldAddr); !isFA {
				return
			}
			okAll := onAllPaths(in)
			if !okAll && isNilConst(x.Val) {
				// "if c.f != nil { ...; c.f = nil }": the paths around the store are those on which the field is nil already
				if fa, isFA := x.Addr.(*ssa.FieldAddr); isFA {
					fv := fieldVar(fa.X.Type(), fa.Field)
					cut := cutEdges(f, func(cond ssa.Value, truth bool) bool {
						b, ok := cond.(*ssa.BinOp)
						if !ok || (b.Op != token.EQL && b.Op != token.NEQ) {
							return false
						}
						var other ssa.Value
						if isLoadOfField(b.X, fv) {
							other = b.Y
						} else if isLoadOfField(b.Y, fv) {
							other = b.X
						} else {
							return false
						}
						// the edge on which the field is known nil
						return isNilConst(other) && truth == (b.Op == token.EQL)
					})
					if !pathExists(f, nil, isReturnInstr, func(y ssa.Instruction) bool { return y == in }, cut) {
						okAll = true
					}
				}
			}
			if okAll {
				out[p] = assigned{path: p, val: x.Val, fn: f, store: in}
				// a whole struct stored at once (c.writer = responseWriter{...}): every sub-field is assigned, with
				// the value the literal gave it or the zero value
				if stT, isStruct := x.Val.Type().Underlying().(*types.Struct); isStruct {
					if ld, isLd := x.Val.(*ssa.UnOp); isLd && ld.Op == token.MUL {
						if lit, isAl := ld.X.(*ssa.Alloc); isAl {
							vals := map[int]ssa.Value{}
							whole := false
							for _, ref := range *lit.Referrers() {
								switch y := ref.(type) {
								case *ssa.FieldAddr:
									for _, r2 := range *y.Referrers() {
										if st2, isSt := r2.(*ssa.Store); isSt && st2.Addr == ssa.Value(y) {
											vals[y.Field] = st2.Val
										}
									}
								case *ssa.Store:
									if y.Addr == ssa.Value(lit) {
										if _, zero := y.Val.(*ssa.Const); !zero {
											whole = true // copied from another struct value: not a literal
										}
									}
								}
							}
							if !whole {
								for i := 0; i < stT.NumFields(); i++ {
									v, has := vals[i]
									if !has {
										v = ssa.NewConst(nil, stT.Field(i).Type())
									}
									sp := p + "." + stT.Field(i).Name()
									out[sp] = assigned{path: sp, val: v, fn: f, store: in}
								}
							}
						}
					}
				}
			}
		case *ssa.Call:
			sc := staticCallee(x)
			if sc == nil || !w.InModule(sc) || sc.Signature.Recv() == nil || len(x.Call.Args) == 0 {
				return
			}
			p, ok := pathOf(x.Call.Args[0])
			if !ok {
				return
			}
			if !onAllPaths(in) {
				return
			}
			sub := definiteAssign(w, sc, depth+1)
			for sp, a := range sub {
				full := sp
				if p != "" {
					full = p + "." + sp
				}
				b := map[*ssa.Parameter]ssa.Value{}
				for i, prm := range sc.Params {
					if i < len(x.Call.Args) {
						b[prm] = x.Call.Args[i]
					}
				}
				// compose bindings
				val := a.val
				if prm, ok := val.(*ssa.Parameter); ok {
					if a.bind != nil {
						if v2, ok := a.bind[prm]; ok {
							val = v2
						}
					}
				}
				if prm, ok := val.(*ssa.Parameter); ok {
					if v2, ok := b[prm]; ok {
						val = v2
					}
				}
				out[full] = assigned{path: full, val: val, fn: a.fn, store: a.store, bind: b}
			}
		}
	})
	return out
}

// provenance classifies a reset value relative to the resetting function f
// (receiver recv).
func resetProvenance(w *World, f *ssa.Function, a assigned, fieldPath string) (ok bool, what string) {
	v := a.val
	for {
		switch x := v.(type) {
		case *ssa.ChangeType:
			v = x.X
			continue
		case *ssa.MakeInterface:
			v = x.X
			continue
		case *ssa.Convert:
			v = x.X
			continue
		}
		break
	}
	switch x := v.(type) {
	case *ssa.Const:
		if x.Value == nil {
			return true, "nil"
		}
		return true, "constant " + x.Value.ExactString()
	case *ssa.Parameter:
		if x.Parent() == f && x != f.Params[0] {
			return true, "parameter " + x.Name() + " of " + FuncName(f)
		}
		if x.Parent() != f {
			return false, "parameter " + x.Name() + " of " + FuncName(x.Parent()) + " not bound to a parameter of " + FuncName(f)
		}
		return false, "the receiver itself"
	case *ssa.FieldAddr:
		// address of the context's own sub-object
		acc := unwrapAddr(x)
		if p, ok := acc.Base.(*ssa.Parameter); ok && p == p.Parent().Params[0] && !acc.Elem {
			return true, "address of the context's own field " + acc.lastField().Name()
		}
	case *ssa.Slice:
		// x[:0] of the same field
		hi, okc := constInt(x.High)
		if okc && hi == 0 && x.Max == nil && (x.Low == nil || func() bool { l, ok := constInt(x.Low); return ok && l == 0 }()) {
			acc := unwrapAddr(x.X)
			if p, ok := acc.Base.(*ssa.Parameter); ok && p == p.Parent().Params[0] && len(acc.Fields) > 0 {
				var names []string
				for _, fv := range acc.Fields {
					names = append(names, fv.Name())
				}
				last := fieldPath
				if i := strings.LastIndexByte(fieldPath, '.'); i >= 0 {
					last = fieldPath[i+1:]
				}
				if names[len(names)-1] == last {
					return true, "zero-length re-slice of the field itself"
				}
			}
		}
		return false, "re-slice that keeps old elements visible: " + x.String()
	case *ssa.Alloc, *ssa.MakeMap, *ssa.MakeSlice:
		return true, "fresh allocation"
	}
	return false, "value derived from previous state: " + v.String()
}

func ruleC10Reset(r *Run) {
	w := r.W
	rule := "C10-RESET"
	r.Floor(rule, 12)
	initFn := w.Fn("rux", "Context.Init")
	da := definiteAssign(w, initFn, 0)
	var all []string
	for _, fv := range w.StructFields("rux", "Context") {
		if named, ok := fv.Type().(*types.Named); ok && named.Obj().Name() == "responseWriter" {
			for _, sub := range w.StructFields("rux", "responseWriter") {
				all = append(all, fv.Name()+"."+sub.Name())
			}
			continue
		}
		all = append(all, fv.Name())
	}
	sort.Strings(all)
	invariant := map[string]string{"router": "request-invariant: written only by the pool constructor (checked below)"}
	scratch := map[string]bool{}
	for _, p := range all {
		construct := "Context." + p
		if why, ok := invariant[p]; ok {
			// who-may-write
			fv := w.Field("rux", "Context", p)
			okW := true
			where := ""
			for _, f := range w.Funcs {
				for _, st := range storesToField(f, fv) {
					root := f
					for root.Parent() != nil {
						root = root.Parent()
					}
					if constructionCopy(st) {
						continue // a copy of the context carries the same router
					}
					if underConstruction(st) {
						continue // a context that this function has just allocated (not one from the pool)
					}
					isCtor := false
					for _, cf := range poolCtorFns(w) {
						if cf == root || cf == f {
							isCtor = true
						}
					}
					if FuncName(root) != "rux.New" && !isCtor {
						okW, where = false, FuncName(f)+" at "+w.Pos(w.InstrPos(st))
					}
				}
			}
			d := why
			if !okW {
				d = "field is exempt from reset as request-invariant but is written in " + where
			}
			r.Check(rule, construct, fv.Pos(), okW, d)
			continue
		}
		a, ok := da[p]
		if !ok && !strings.Contains(p, ".") && scratchField(w, w.Field("rux", "Context", p)) {
			scratch[p] = true
			r.Check(rule, construct, initFn.Pos(), true, "scratch buffer: every read of the field re-slices it to length 0 (or takes len/cap) before anything is appended, so what an earlier request left behind the length is never observed")
			continue
		}
		if !ok {
			pos := initFn.Pos()
			r.Check(rule, construct, pos, false, "field is not assigned on every path of Context.Init (Init/reset/Reset inlined): state of the previous request survives in the pooled context")
			continue
		}
		okP, what := resetProvenance(w, initFn, a, p)
		r.Check(rule, construct, w.InstrPos(a.store), okP, "reset in "+FuncName(a.fn)+" to "+what)
	}
	// Reset alone (used by HandleContext) must cover everything but the writer and request
	resetFn := w.Fn("rux", "Context.Reset")
	dr := definiteAssign(w, resetFn, 0)
	for _, p := range all {
		if strings.HasPrefix(p, "writer.") || p == "Req" || p == "router" || scratch[p] {
			continue
		}
		_, ok := dr[p]
		r.Check(rule, "Context.Reset:"+p, resetFn.Pos(), ok, map[bool]string{true: "assigned on every path of Reset", false: "not assigned by Reset (HandleContext re-dispatch would keep it)"}[ok])
	}
}

// C10-PRISTINE part 2: fields reset by x[:0] are never re-sliced beyond their length.
func ruleC10Reslice(r *Run) {
	w := r.W
	rule := "C10-PRISTINE"
	r.Floor(rule, 2)
	ctxFields := map[*types.Var]bool{}
	for _, n := range []string{"Errors", "handlers"} {
		if fv := w.FieldOpt("rux", "Context", n); fv != nil {
			ctxFields[fv] = true
		}
	}
	// every field whose reset value is a re-slice
	initFn := w.Fn("rux", "Context.Init")
	for p, a := range definiteAssign(w, initFn, 0) {
		if _, ok := a.val.(*ssa.Slice); ok && !strings.Contains(p, ".") {
			if fv := w.FieldOpt("rux", "Context", p); fv != nil {
				ctxFields[fv] = true
			}
		}
	}
	n := 0
	for _, f := range w.Funcs {
		eachInstr(f, func(in ssa.Instruction) {
			sl, ok := in.(*ssa.Slice)
			if !ok {
				return
			}
			acc := unwrapAddr(sl.X)
			lf := acc.lastField()
			if lf == nil || !ctxFields[lf] || acc.Elem {
				return
			}
			n++
			okS := sl.Max == nil
			if sl.High != nil {
				if hi, okc := constInt(sl.High); !okc || hi != 0 {
					// x[:len(x)] style is fine too
					if c, okCall := sl.High.(*ssa.Call); okCall && isBuiltin(c, "len") && canon(c.Call.Args[0]) == canon(sl.X) {
						// ok
					} else {
						okS = false
					}
				}
			}
			r.Check(rule, fmt.Sprintf("%s:reslice %s", FuncName(f), lf.Name()), w.InstrPos(in), okS,
				map[bool]string{true: "re-slice cannot expose elements beyond the current length", false: "re-slice may extend into elements left by an earlier request"}[okS])
		})
	}
	r.Exists(rule, "reslice sites", token.NoPos, n >= 1, fmt.Sprintf("%d re-slices of pooled slice fields examined", n))
	// a field that is reset by x = x[:0] keeps a non-nil header once any request has appended to it: its length is
	// pristine, its nil-ness is not. Module code therefore never decides anything on `field == nil` / `!= nil` — only
	// on len(field): "has this request recorded an error" asked as Errors != nil is answered by an earlier request.
	resliced := map[*types.Var]bool{}
	for p, a := range definiteAssign(w, initFn, 0) {
		if _, ok := a.val.(*ssa.Slice); ok && !strings.Contains(p, ".") {
			if fv := w.FieldOpt("rux", "Context", p); fv != nil {
				resliced[fv] = true
			}
		}
	}
	nNil := 0
	for _, f := range w.Funcs {
		eachInstr(f, func(in ssa.Instruction) {
			b, ok := in.(*ssa.BinOp)
			if !ok || (b.Op != token.EQL && b.Op != token.NEQ) {
				return
			}
			var fld ssa.Value
			switch {
			case isNilConst(b.Y):
				fld = b.X
			case isNilConst(b.X):
				fld = b.Y
			default:
				return
			}
			for fv := range resliced {
				if isLoadOfField(fld, fv) {
					nNil++
					r.Check(rule, fmt.Sprintf("%s:nil test of %s#%d", FuncName(f), fv.Name(), nNil), w.InstrPos(in), false, "Context."+fv.Name()+" is compared with nil, but Reset only re-slices it to length 0: on a recycled context the answer depends on what an earlier request appended (use len())")
				}
			}
		})
	}
	r.Exists(rule, "nil tests of re-sliced fields", token.NoPos, true, fmt.Sprintf("%d re-sliced field(s), %d comparison(s) with nil in the module", len(resliced), nNil))
}

// C10-INIT second half: HandleContext resets before dispatch.
func ruleC10HandleContext(r *Run) {
	w := r.W
	rule := "C10-INIT"
	r.Floor(rule, 2)
	hc := w.Fn("rux", "Router.HandleContext")
	reset := w.Fn("rux", "Context.Reset")
	// whatever HandleContext hands the context to for dispatch: a module function that reaches the chain executor
	cg := w.BuildCG()
	next := w.Fn("rux", "Context.Next")
	resets := callsToFn(hc, reset)
	disps := callsIn(hc, func(c ssa.CallInstruction) bool {
		if _, ok := c.(*ssa.Call); !ok {
			return false
		}
		sc := staticCallee(c)
		return sc != nil && w.InModule(sc) && sc != reset && cg.Reach(sc)[next]
	})
	r.Exists(rule, "HandleContext:dispatch", hc.Pos(), len(disps) >= 1, "HandleContext hands the context to the dispatcher")
	for i, d := range disps {
		ok := false
		for _, rs := range resets {
			if dominates(rs, d) && len(rs.Common().Args) > 0 && len(d.Common().Args) > 1 && canon(rs.Common().Args[0]) == canon(d.Common().Args[1]) {
				ok = true
			}
		}
		r.Check(rule, fmt.Sprintf("HandleContext:Reset before dispatch#%d", i+1), w.InstrPos(d), ok,
			map[bool]string{true: "Reset of the same context dominates the dispatch", false: "re-dispatch without resetting cursor/data/params/errors"}[ok])
	}
	// ServeHTTP: Init's arguments are ServeHTTP's own parameters
	sh := w.Fn("rux", "Router.ServeHTTP")
	initFn := w.Fn("rux", "Context.Init")
	for i, c := range callsToFn(sh, initFn) {
		args := c.Common().Args
		ok := len(args) == 3 && args[1] == ssa.Value(sh.Params[1]) && args[2] == ssa.Value(sh.Params[2])
		r.Check(rule, fmt.Sprintf("ServeHTTP:Init args#%d", i+1), w.InstrPos(c), ok, "Init receives this request's writer and request")
	}
}

func init() {
	register(&property{
		Meta: propertyMeta{
			ID:          "C10",
			Explanation: "(C10-RESET) definite-assignment analysis of Context.Init with reset/Reset inlined by summary: every field of Context and of the embedded responseWriter is assigned on every path before dispatch, except 'router' which is proved request-invariant by who-may-write; adding a field without resetting it fails the check and names the field. (C10-PRISTINE) provenance of each reset value: constant, nil, parameter of Init, address of the context's own writer, or a zero-length re-slice of the field itself; re-sliced fields are never re-sliced beyond their length anywhere in the module. (C10-INIT) ServeHTTP: Get -> Init -> dispatch (C03-POOL); HandleContext: Reset dominates dispatch. (C03-EFF) no request-phase write to package-level or router state, so nothing else survives between requests inside rux. (C10-FRESH) every return of findAllowedMethods is, on every alternative including those that come round a loop, a slice built in that call (append from nil / make), never a slice field of a route or router nor an extension of one. (C08-FACADE, clause 3) every store to Context.Resp stores the address of that same context's own writer: a Copy() that keeps the source's Resp would reach into the pooled context, which by then serves another request. (C10-NOGO) no go statement in the module passes a value whose type reaches *Context to the new goroutine (argument, receiver or captured variable), except the result of Context.Copy(): a goroutine that outlives the handler would write into the context of a later request; zero instances today, a fixture with a leaking and a copying goroutine is analysed in every run. (C10-PRISTINE, nil tests) a field whose reset value is a zero-length re-slice of itself is never compared with nil in the module: its length is pristine on a recycled context, its nil-ness is not.",
			NotDecided:  []string{"state a handler deliberately keeps outside the context (user code)", "equality of the k-th request's outcome with a fresh router's beyond rux's own state (C03/C07 cover shared state)"},
			Assumptions: []string{"sync.Pool returns either a value previously Put or the result of New", "user handlers do not retain the *Context after the request (documented contract of pooled contexts)"},
		},
		Rules: []ruleFn{
			{"C10-RESET", ruleC10Reset}, {"C10-FRESH", ruleC10Fresh}, {"C10-PARAMS", ruleC10Params},
			{"C10-PRISTINE", ruleC10Reslice},
			{"C10-INIT", ruleC10HandleContext},
			{"C03-POOL", ruleC03Pool},
			{"C03-EFF", ruleC03Eff},
			{"C08-FACADE", ruleC08Facade},
			{"C10-NOGO", ruleC10NoGo},
		},
	})
}

// contextFieldPaths: every field path of Context that a request can observe (the writer's fields
// spelled out), minus the request-invariant router back-pointer.
func contextFieldPaths(w *World) []string {
	var all []string
	for _, fv := range w.StructFields("rux", "Context") {
		if named, ok := fv.Type().(*types.Named); ok && named.Obj().Name() == "responseWriter" {
			for _, sub := range w.StructFields("rux", "responseWriter") {
				all = append(all, fv.Name()+"."+sub.Name())
			}
			continue
		}
		if fv.Name() == "router" {
			continue
		}
		all = append(all, fv.Name())
	}
	sort.Strings(all)
	return all
}

// preDispatchAssign: the field paths of the context value cv (a value of function f) that are
// assigned on every path before f hands cv on towards the dispatcher, counting the stores of f,
// the module methods f calls on cv or on the address of one of its fields (definiteAssign), and —
// recursively — what the function cv is handed to does before it dispatches. It also returns the
// hand-over call of f. nil map: f does not hand cv towards the dispatcher.
func preDispatchAssign(w *World, f *ssa.Function, cv ssa.Value, depth int) (map[string]bool, ssa.Instruction) {
	if depth > 4 {
		return nil, nil
	}
	disp := w.Dispatcher()
	cg := w.BuildCG()
	root := unwrapAddr(cv).Base
	rooted := func(addr ssa.Value) (string, bool) {
		acc := unwrapAddr(addr)
		if acc.Base != root || acc.Elem {
			return "", false
		}
		var names []string
		for _, fv := range acc.Fields {
			if fv == nil {
				return "", false
			}
			names = append(names, fv.Name())
		}
		return strings.Join(names, "."), true
	}
	var result map[string]bool
	var handOver ssa.Instruction
	eachInstr(f, func(in ssa.Instruction) {
		d, ok := in.(*ssa.Call)
		if !ok {
			return
		}
		sc := staticCallee(d)
		if sc == nil || !w.InModule(sc) || !(sc == disp || cg.Reach(sc)[disp]) {
			return
		}
		k := -1
		for i, a := range d.Call.Args {
			if pth, isRooted := rooted(a); isRooted && pth == "" {
				k = i
			}
		}
		if k < 0 {
			return
		}
		set := map[string]bool{}
		eachInstr(f, func(x ssa.Instruction) {
			if x == in || !dominates(x, in) {
				return
			}
			switch y := x.(type) {
			case *ssa.Store:
				if _, isFA := y.Addr.(*ssa.FieldAddr); isFA {
					if pth, ok := rooted(y.Addr); ok && pth != "" {
						set[pth] = true
					}
				}
			case *ssa.Call:
				c2 := staticCallee(y)
				if c2 == nil || !w.InModule(c2) || c2.Signature.Recv() == nil || len(y.Call.Args) == 0 {
					return
				}
				if pth, ok := rooted(y.Call.Args[0]); ok {
					for sp := range definiteAssign(w, c2, 0) {
						if pth != "" {
							sp = pth + "." + sp
						}
						set[sp] = true
					}
				}
			}
		})
		if sc != disp && k < len(sc.Params) {
			sub, _ := preDispatchAssign(w, sc, sc.Params[k], depth+1)
			for pth := range sub {
				set[pth] = true
			}
		}
		if result == nil {
			result, handOver = set, in
		} else {
			for pth := range result {
				if !set[pth] {
					delete(result, pth)
				}
			}
		}
	})
	return result, handOver
}

// C10-FRESH — what the matcher hands to a request beyond the route is the request's own: the
// allowed-method list that QuickMatch returns (the dispatcher stores it in the context, the default
// 405 handler sorts it in place) is a fresh slice on every path of findAllowedMethods — never a
// list that lives in the router, a route or the cache.
func ruleC10Fresh(r *Run) {
	w := r.W
	rule := "C10-FRESH"
	r.Floor(rule, 1)
	fam := w.Fn("rux", "Router.findAllowedMethods")
	e := &seqEngine{w}
	n := 0
	eachInstr(fam, func(in ssa.Instruction) {
		ret, ok := in.(*ssa.Return)
		if !ok || len(ret.Results) != 1 {
			return
		}
		n++
		alts, why := e.at(fam, in, ret.Results[0])
		construct := fmt.Sprintf("(*Router).findAllowedMethods:result#%d", n)
		// provenance over every alternative of the value (including those that come round a loop, which the
		// acyclic path enumeration of the sequence engine does not reach)
		{
			// the sequence engine cannot enumerate the value (it is built in a loop): fall back to provenance —
			// no alternative of the returned slice is a load from router / route / cache memory
			shared := ""
			for _, lf := range valueLeaves(ret.Results[0]) {
				if flowsFromDeepNoAppendArgs(lf, func(x ssa.Value) bool {
					ld, ok := x.(*ssa.UnOp)
					if !ok || ld.Op != token.MUL {
						return false
					}
					_, isFA := ld.X.(*ssa.FieldAddr)
					_, isSl := ld.Type().Underlying().(*types.Slice)
					return isFA && isSl
				}) {
					shared = shortCanon(canon(lf))
				}
			}
			r.Check(rule, construct+" provenance", w.InstrPos(in), shared == "", map[bool]string{true: "the returned list is built by append from nil in this call (no alternative is a slice stored in a struct)", false: "the list handed to the request is (an extension of) a slice that lives in shared memory (" + shared + "): requests that edit it — the default 405 handler sorts it — see each other's state"}[shared == ""])
		}
		if why != "" {
			return
		}
		okF := true
		detail := "fresh on every path"
		for _, alt := range alts {
			if alt.Val.Unknown != "" {
				// not a sequence this engine can state (e.g. collected over a loop): the provenance clause above decides
				detail = "decided by provenance (sequence evaluation: " + alt.Val.Unknown + ")"
				continue
			}
			if len(alt.Val.Atoms) > 0 && !alt.Val.Fresh {
				okF, detail = false, "the returned list aliases "+alt.Val.AliasOf
			}
		}
		r.Check(rule, construct, w.InstrPos(in), okF, detail)
	})
}

// ruleC10Params: the parameter map a request gets from the matcher is nil, a map made for that match, or the map
// of a cache entry — never a package-level object (a shared "empty params" sentinel): the dispatcher stores it into
// ctx.Params, handlers may write to it, and Reset cannot take those writes back.
func ruleC10Params(r *Run) {
	w := r.W
	rule := "C10-PARAMS"
	n := 0
	for _, name := range []string{"Router.match", "Router.QuickMatch"} {
		f := w.FnOpt("rux", name)
		if f == nil {
			continue
		}
		eachInstr(f, func(in ssa.Instruction) {
			ret, ok := in.(*ssa.Return)
			if !ok || len(ret.Results) < 2 {
				return
			}
			n++
			bad := ""
			for _, lf := range valueLeaves(ret.Results[1]) {
				if ld, isLd := lf.(*ssa.UnOp); isLd && ld.Op == token.MUL {
					if g, isG := ld.X.(*ssa.Global); isG {
						bad = g.Name()
					}
				}
			}
			r.Check(rule, fmt.Sprintf("%s:params result#%d", FuncName(f), n), w.InstrPos(in), bad == "", map[bool]string{true: "the parameters handed to the request are nil, made for this match, or a cache entry's", false: "the matcher hands the package-level map " + bad + " to the request as its Params: every request on such a route shares one map, what a handler writes into c.Params stays there for all later requests (of every router in the process)"}[bad == ""])
		})
	}
}

// flowsFromDeepNoAppendArgs: like flowsFromDeep, but through append only the base slice (first
// argument) is followed: appending elements of a shared list to a fresh one copies them.
func flowsFromDeepNoAppendArgs(v ssa.Value, src func(ssa.Value) bool) bool {
	seen := map[ssa.Value]bool{}
	var walk func(v ssa.Value, d int) bool
	walk = func(v ssa.Value, d int) bool {
		if v == nil || seen[v] || d > 60 {
			return false
		}
		seen[v] = true
		if src(v) {
			return true
		}
		switch x := v.(type) {
		case *ssa.Phi:
			for _, e := range x.Edges {
				if walk(e, d+1) {
					return true
				}
			}
		case *ssa.Call:
			if isBuiltin(x, "append") {
				return walk(x.Call.Args[0], d+1)
			}
		case *ssa.Slice:
			return walk(x.X, d+1)
		case *ssa.ChangeType:
			return walk(x.X, d+1)
		}
		return false
	}
	return walk(v, 0)
}

// scratchField: a slice-typed field that is only ever read to be re-sliced to length zero (x[:0]) or measured
// (len/cap): a per-object scratch buffer whose old contents are unreachable.
func scratchField(w *World, fv *types.Var) bool {
	if fv == nil {
		return false
	}
	if _, isSlice := fv.Type().Underlying().(*types.Slice); !isSlice {
		return false
	}
	loads := 0
	ok := true
	for _, f := range w.Funcs {
		for _, ld := range loadsOfField(f, fv) {
			loads++
			refs := ld.Referrers()
			if refs == nil {
				continue
			}
			for _, ref := range *refs {
				switch x := ref.(type) {
				case *ssa.DebugRef:
				case *ssa.Slice:
					hi, okc := constInt(x.High)
					lowOK := x.Low == nil
					if l, okl := constInt(x.Low); okl && l == 0 {
						lowOK = true
					}
					if !okc || hi != 0 || !lowOK || x.Max != nil {
						ok = false
					}
				case *ssa.Call:
					if !isBuiltin(x, "len") && !isBuiltin(x, "cap") {
						ok = false
					}
				default:
					ok = false
				}
			}
		}
	}
	return ok && loads > 0
}

// C10-NOGO: the pooled *Context is handed to the next request as soon as dispatch returns (ServeHTTP puts it back,
// C03-POOL), so "pristine at the start" also needs that nothing started by the library on behalf of the previous
// request still holds it. The library starts no goroutine today. The rule: no `go` statement in the module passes —
// as an argument, a receiver or a captured variable — a value whose type reaches *Context, unless that value is the
// result of Context.Copy() (the detached copy that exists for this purpose). A middleware that runs the rest of the
// chain in a goroutine and returns on a timer leaves that goroutine writing Set/AddError/Next into the context of a
// later request. A goroutine that is joined unconditionally before the function returns would also be reported; there
// is none, and a join that is only one arm of a select is exactly the defect.
func ruleC10NoGo(r *Run) {
	w := r.W
	rule := "C10-NOGO"
	ctxT := w.Named("rux", "Context")
	copyFn := w.FnOpt("rux", "Context.Copy")
	var reaches func(t types.Type, depth int) bool
	reaches = func(t types.Type, depth int) bool {
		if depth > 4 {
			return false
		}
		if types.Identical(t, ctxT) {
			return true
		}
		switch u := t.(type) {
		case *types.Pointer:
			return reaches(u.Elem(), depth+1)
		case *types.Slice:
			return reaches(u.Elem(), depth+1)
		case *types.Array:
			return reaches(u.Elem(), depth+1)
		case *types.Map:
			return reaches(u.Elem(), depth+1) || reaches(u.Key(), depth+1)
		case *types.Chan:
			return reaches(u.Elem(), depth+1)
		case *types.Named:
			if st, ok := u.Underlying().(*types.Struct); ok {
				for i := 0; i < st.NumFields(); i++ {
					if reaches(st.Field(i).Type(), depth+1) {
						return true
					}
				}
			}
		case *types.Struct:
			for i := 0; i < u.NumFields(); i++ {
				if reaches(u.Field(i).Type(), depth+1) {
					return true
				}
			}
		}
		return false
	}
	isCopy := func(v ssa.Value) bool {
		if a, ok := v.(*ssa.Alloc); ok {
			if sv := singleStore(a); sv != nil {
				v = sv
			}
		}
		c, ok := v.(*ssa.Call)
		return ok && copyFn != nil && staticCallee(c) == copyFn
	}
	check := func(f *ssa.Function) (gos int, bad string, badPos token.Pos) {
		eachInstr(f, func(in ssa.Instruction) {
			g, ok := in.(*ssa.Go)
			if !ok {
				return
			}
			gos++
			var vals []ssa.Value
			vals = append(vals, g.Call.Args...)
			if mc, isMC := g.Call.Value.(*ssa.MakeClosure); isMC {
				vals = append(vals, mc.Bindings...)
			} else if g.Call.Value != nil {
				vals = append(vals, g.Call.Value)
			}
			for _, v := range vals {
				if _, isFn := v.(*ssa.Function); isFn {
					continue
				}
				if reaches(v.Type(), 0) && !isCopy(v) && bad == "" {
					bad, badPos = "the goroutine receives "+v.Name()+" of type "+types.TypeString(v.Type(), relQualifier(w.ByPkg[pkgPath("rux")].Types))+", which reaches the live *Context", w.InstrPos(in)
				}
			}
		})
		return
	}
	total := 0
	for _, f := range w.Funcs {
		if strings.Contains(w.Fset.Position(f.Pos()).Filename, "zz_verif_go_fixture") {
			continue
		}
		n, bad, pos := check(f)
		if n == 0 {
			continue
		}
		total += n
		if bad == "" {
			pos = f.Pos()
		}
		r.Check(rule, FuncName(f)+":go statements", pos, bad == "", map[bool]string{true: "no goroutine started here can reach the request's pooled context", false: bad + ": the goroutine can outlive the handler, and the pool gives the same context to a later request while it is still being written"}[bad == ""])
	}
	r.Exists(rule, "go statements in the module", token.NoPos, true, fmt.Sprintf("%d go statement(s) outside the fixture", total))
	badF, goodF := w.FnOpt("rux", "zzVerifGoLive"), w.FnOpt("rux", "zzVerifGoCopy")
	if badF == nil || goodF == nil {
		r.Undecided(rule, "positive fixture", token.NoPos, "the virtual fixture functions zzVerifGo* are not part of the analysed program")
		return
	}
	_, b1, _ := check(badF)
	_, b2, _ := check(goodF)
	r.Check(rule, "fixture:goroutine with the live context is reported", token.NoPos, b1 != "", "the rule recognises a goroutine that captures the handler's context")
	r.Check(rule, "fixture:goroutine with a Copy() is accepted", token.NoPos, b2 == "", "the rule accepts a goroutine that only gets c.Copy() ("+b2+")")
}

const goFixture = `package rux

import "time"

// zzVerifGo* exist only in the overlay of the C10 run (C10-NOGO fixture).
func zzVerifGoLive(c *Context) {
	done := make(chan struct{})
	go func() {
		c.Next()
		close(done)
	}()
	select {
	case <-done:
	case <-time.After(time.Second):
	}
}

func zzVerifGoCopy(c *Context) {
	cp := c.Copy()
	go func() {
		_ = cp.Param("id")
	}()
}
`
