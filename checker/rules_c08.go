package main

// rules_c08.go — C08 (exactly one header commit) and C09 (panic containment).

import (
	"fmt"
	"go/token"
	"go/types"
	"strings"

	"golang.org/x/tools/go/ssa"
)

type rwModel struct {
	w                         *World
	rwT                       *types.Named
	writerF, statusF, lengthF *types.Var
	noWritten                 int64
	commitFns                 map[*ssa.Function]bool // functions that commit on every path
	latchFns                  map[*ssa.Function]bool // functions containing the underlying WriteHeader call
}

func newRWModel(w *World) *rwModel {
	m := &rwModel{w: w, rwT: w.Named("rux", "responseWriter")}
	m.writerF = w.Field("rux", "responseWriter", "Writer")
	m.statusF = w.Field("rux", "responseWriter", "status")
	m.lengthF = w.Field("rux", "responseWriter", "length")
	nw := w.Const("rux", "noWritten")
	v, _ := constInt(nw.Value)
	m.noWritten = v
	m.latchFns = map[*ssa.Function]bool{}
	m.commitFns = map[*ssa.Function]bool{}
	for _, f := range w.Funcs {
		for _, c := range callsIn(f, func(c ssa.CallInstruction) bool { mth, ok := m.underlying(c); return ok && mth == "WriteHeader" }) {
			_ = c
			m.latchFns[f] = true
		}
	}
	// commit functions: on every path from entry they reach the underlying WriteHeader call or a commit function
	for f := range m.latchFns {
		m.commitFns[f] = true // validated by C08-LATCH
	}
	for changed := true; changed; {
		changed = false
		for _, f := range w.Funcs {
			if m.commitFns[f] || f.Signature.Recv() == nil || !isNamedPtr(f.Signature.Recv().Type(), m.rwT) {
				continue
			}
			ok, _ := allPathsHit(f, nil, func(in ssa.Instruction) bool {
				c, isCall := in.(*ssa.Call)
				return isCall && m.commitFns[staticCallee(c)]
			})
			if ok && len(callsIn(f, func(c ssa.CallInstruction) bool { return m.commitFns[staticCallee(c)] })) > 0 {
				m.commitFns[f] = true
				changed = true
			}
		}
	}
	return m
}

// underlying: the call is an interface call on the wrapped net/http writer.
func (m *rwModel) underlying(c ssa.CallInstruction) (string, bool) {
	cc := c.Common()
	if !cc.IsInvoke() {
		return "", false
	}
	if unwrapAddr(cc.Value).hasField(m.writerF) {
		return cc.Method.Name(), true
	}
	// the underlying writer handed back by a module function (ensureWriteHeader() http.ResponseWriter):
	// every return of that function is the Writer field
	v := cc.Value
	if ta, ok := v.(*ssa.TypeAssert); ok {
		v = ta.X
	}
	if ci, ok := v.(*ssa.Call); ok {
		if sc := staticCallee(ci); sc != nil && m.w.InModule(sc) && sc.Signature.Results().Len() == 1 {
			all, n := true, 0
			eachInstr(sc, func(in ssa.Instruction) {
				if ret, isRet := in.(*ssa.Return); isRet && len(ret.Results) == 1 {
					n++
					if !unwrapAddr(ret.Results[0]).hasField(m.writerF) {
						all = false
					}
				}
			})
			if all && n > 0 {
				return cc.Method.Name(), true
			}
		}
	}
	return "", false
}

func (m *rwModel) isCommitCall(in ssa.Instruction) bool {
	c, ok := in.(*ssa.Call)
	return ok && m.commitFns[staticCallee(c)]
}

type lenPred struct {
	op token.Token
	c  int64
}

func flipOp(op token.Token) token.Token {
	switch op {
	case token.LSS:
		return token.GTR
	case token.GTR:
		return token.LSS
	case token.LEQ:
		return token.GEQ
	case token.GEQ:
		return token.LEQ
	}
	return op
}

func negOp(op token.Token) token.Token {
	switch op {
	case token.EQL:
		return token.NEQ
	case token.NEQ:
		return token.EQL
	case token.LSS:
		return token.GEQ
	case token.GEQ:
		return token.LSS
	case token.GTR:
		return token.LEQ
	case token.LEQ:
		return token.GTR
	}
	return op
}

// fieldPredOf normalises a boolean value to a comparison of field fv with a constant.
func fieldPredOf(w *World, v ssa.Value, fv *types.Var, depth int) (lenPred, bool) {
	if depth > 3 {
		return lenPred{}, false
	}
	v, pos := stripNot(v)
	var p lenPred
	ok := false
	switch x := v.(type) {
	case *ssa.BinOp:
		if isLoadOfField(x.X, fv) {
			if c, okc := constInt(x.Y); okc {
				p, ok = lenPred{x.Op, c}, true
			}
		} else if isLoadOfField(x.Y, fv) {
			if c, okc := constInt(x.X); okc {
				p, ok = lenPred{flipOp(x.Op), c}, true
			}
		}
	case *ssa.Call:
		sc := staticCallee(x)
		if sc != nil && w.InModule(sc) && sc.Signature.Results().Len() == 1 {
			var rets []*ssa.Return
			eachInstr(sc, func(in ssa.Instruction) {
				if r, isRet := in.(*ssa.Return); isRet {
					rets = append(rets, r)
				}
			})
			if len(rets) == 1 {
				p, ok = fieldPredOf(w, rets[0].Results[0], fv, depth+1)
			}
		}
	}
	if ok && !pos {
		p.op = negOp(p.op)
	}
	return p, ok
}

func (m *rwModel) impliesUnwritten(p lenPred) bool {
	return (p.op == token.EQL && p.c == m.noWritten) || (p.op == token.LSS && p.c == m.noWritten+1) || (p.op == token.LEQ && p.c == m.noWritten)
}

func ruleC08Latch(r *Run) {
	w := r.W
	rule := "C08-LATCH"
	r.Floor(rule, 6)
	m := newRWModel(w)
	n := 0
	for _, f := range w.Funcs {
		for i, c := range callsIn(f, func(c ssa.CallInstruction) bool { mth, ok := m.underlying(c); return ok && mth == "WriteHeader" }) {
			n++
			construct := fmt.Sprintf("%s:underlying WriteHeader#%d", FuncName(f), i+1)
			in := c.(ssa.Instruction)
			if _, isDefer := in.(*ssa.Defer); isDefer || inLoop(in) {
				r.Check(rule, construct, w.InstrPos(in), false, "underlying WriteHeader is deferred or inside a loop: more than one commit possible")
				continue
			}
			// (a) latch test
			guarded := factHolds(in, func(cond ssa.Value, truth bool) bool {
				p, ok := fieldPredOf(w, cond, m.lengthF, 0)
				if !ok {
					return false
				}
				if !truth {
					p.op = negOp(p.op)
				}
				return m.impliesUnwritten(p)
			})
			r.Check(rule, construct+" guard", w.InstrPos(in), guarded, map[bool]string{true: "reached only when length == noWritten (header not yet committed)", false: "not guarded by the 'not yet written' test: a second call would commit twice"}[guarded])
			// (b) the latch is set on the same path
			setLatch := false
			for _, st := range storesToField(f, m.lengthF) {
				cv, okc := constInt(st.Val)
				if !okc || cv == m.noWritten {
					continue
				}
				if dominates(st, in) && !pathHasStoreBetween(f, st, in, m.lengthF) {
					setLatch = true
				} else if dominates(in, st) {
					if ok, _ := allPathsHit(f, in, func(x ssa.Instruction) bool { return x == ssa.Instruction(st) }); ok {
						setLatch = true
					}
				}
			}
			if !setLatch {
				// path-sensitive form: every path to the commit stores a written value into the latch and does not reset it afterwards
				setLatch = allPathsTo(in, func(p *pathCtx) bool {
					set := false
					for _, b := range p.blocks {
						for _, x := range b.Instrs {
							if x == in {
								return set
							}
							if st, isSt := x.(*ssa.Store); isSt {
								if fa, isFA := st.Addr.(*ssa.FieldAddr); isFA && fieldVar(fa.X.Type(), fa.Field) == m.lengthF {
									cv, okc := constInt(st.Val)
									set = okc && cv != m.noWritten
								}
							}
						}
					}
					return set
				})
			}
			r.Check(rule, construct+" latch-set", w.InstrPos(in), setLatch, map[bool]string{true: "length leaves noWritten on the committing path", false: "the committing path does not mark the response as written: the next Write/Flush/end-of-request commits again"}[setLatch])
			// (c) the argument is the recorded status (after the 0 -> 200 default)
			args := c.Common().Args
			okArg := len(args) == 1 && isLoadOfField(args[0], m.statusF)
			if !okArg && len(args) == 1 {
				// the status travels through a merged local: on every path it is the recorded status field
				okArg = allPathsTo(in, func(p *pathCtx) bool { return isLoadOfField(resolvePhi(args[0], p), m.statusF) })
			}
			r.Check(rule, construct+" arg", w.InstrPos(in), okArg, map[bool]string{true: "commits the recorded status field", false: "commits something other than the recorded status"}[okArg])
			if okArg {
				// default: a store of 200 to status under status == 0 dominates
				okDef := false
				for _, st := range storesToField(f, m.statusF) {
					cv, okc := constInt(st.Val)
					if okc && cv == 200 && canReach(st, in) && factHolds(st, func(cond ssa.Value, truth bool) bool {
						p, ok := fieldPredOf(w, cond, m.statusF, 0)
						if !ok {
							return false
						}
						if !truth {
							p.op = negOp(p.op)
						}
						return p.op == token.EQL && p.c == 0
					}) {
						okDef = true
					}
				}
				r.Check(rule, construct+" default200", w.InstrPos(in), okDef, map[bool]string{true: "status 0 defaults to 200 before the commit", false: "no 'status == 0 -> 200' default before the commit (net/http panics on WriteHeader(0))"}[okDef])
			}
		}
	}
	r.Check(rule, "commit sites", token.NoPos, n == 1, fmt.Sprintf("%d call sites of the underlying WriteHeader in the module (exactly one commit point expected)", n))
	// a response starts "not written": wherever a new underlying writer is installed (other than a field-wise copy or
	// clearing it), every path of that function also stores noWritten into length — otherwise the guard of the one
	// commit point (length == noWritten) is false from the start and a status-only response is never committed
	for _, f := range w.Funcs {
		for i, st := range storesToField(f, m.writerF) {
			if isNilConst(st.Val) || constructionCopy(st) {
				continue
			}
			if _, isIface := st.Val.Type().Underlying().(*types.Interface); !isIface {
				continue
			}
			okOpen, _ := allPathsHit(f, nil, func(x ssa.Instruction) bool {
				s2, ok := x.(*ssa.Store)
				if !ok {
					return false
				}
				fa, isFA := s2.Addr.(*ssa.FieldAddr)
				if !isFA || fieldVar(fa.X.Type(), fa.Field) != m.lengthF {
					return false
				}
				cv, okc := constInt(s2.Val)
				return okc && cv == m.noWritten
			})
			r.Check(rule, fmt.Sprintf("%s:new writer#%d starts unwritten", FuncName(f), i+1), w.InstrPos(st), okOpen, map[bool]string{true: "installing a new underlying writer goes together with length = noWritten on every path", false: "a new underlying writer is installed without marking the response as not written: the commit guard length == noWritten never holds, a response that only sets a status is never committed (the client sees 200)"}[okOpen])
		}
	}
	// who-may-write length
	for _, f := range w.Funcs {
		for i, st := range storesToField(f, m.lengthF) {
			construct := fmt.Sprintf("%s:store length#%d", FuncName(f), i+1)
			if constructionCopy(st) {
				r.Check(rule, construct, w.InstrPos(st), true, "a new writer value is initialised with the source's recorded length (field-wise copy of the context)")
				continue
			}
			if cv, okc := constInt(st.Val); okc {
				if cv == m.noWritten {
					// only in a function called only from Context.Init with the new underlying writer
					okR := len(storesToField(f, m.writerF)) > 0
					r.Check(rule, construct, w.InstrPos(st), okR, map[bool]string{true: "noWritten is stored together with a new underlying writer (start of a response)", false: "response marked 'not written' outside the reset of the writer: the header can be committed twice"}[okR])
				} else {
					r.Check(rule, construct, w.InstrPos(st), cv >= 0, "constant "+fmt.Sprint(cv))
				}
				continue
			}
			okAdd := false
			if b, ok := st.Val.(*ssa.BinOp); ok && b.Op == token.ADD && (isLoadOfField(b.X, m.lengthF) || isLoadOfField(b.Y, m.lengthF)) {
				other := b.Y
				if isLoadOfField(b.Y, m.lengthF) {
					other = b.X
				}
				// the addend is the count returned by the underlying Write (or ReadFrom / WriteString)
				if cv, ok := other.(*ssa.Convert); ok {
					other = cv.X
				}
				if ex, ok := other.(*ssa.Extract); ok && ex.Index == 0 {
					if c, ok := ex.Tuple.(*ssa.Call); ok {
						if mth, ok := m.underlying(c); ok && (mth == "Write" || mth == "ReadFrom" || mth == "WriteString") {
							okAdd = true
							// every byte the underlying writer accepted is counted: no path from the call to a return
							// skips the update (a short write that comes with an error still delivered n bytes)
							all, _ := allPathsHit(f, c, func(x ssa.Instruction) bool { return x == ssa.Instruction(st) })
							r.Check(rule, construct+" on every path", w.InstrPos(st), all, map[bool]string{true: "every path from the underlying " + mth + " to a return adds its count to length", false: "a path returns after the underlying " + mth + " without adding the accepted byte count (e.g. an early return on error): Length() under-reports what was sent"}[all])
						}
					}
				}
			}
			r.Check(rule, construct, w.InstrPos(st), okAdd, map[bool]string{true: "length += n with n returned by the underlying writer", false: "length updated with something other than the byte count accepted by the underlying writer"}[okAdd])
		}
	}
}

func pathHasStoreBetween(f *ssa.Function, a, b ssa.Instruction, fv *types.Var) bool {
	for _, st := range storesToField(f, fv) {
		if ssa.Instruction(st) != a && canReach(a, st) && canReach(st, b) {
			return true
		}
	}
	return false
}

func ruleC08Precommit(r *Run) {
	w := r.W
	rule := "C08-PRECOMMIT"
	r.Floor(rule, 3)
	m := newRWModel(w)
	for _, f := range w.Funcs {
		ord := map[string]int{}
		for _, c := range callsIn(f, func(c ssa.CallInstruction) bool { _, ok := m.underlying(c); return ok }) {
			mth, _ := m.underlying(c)
			ord[mth]++
			in := c.(ssa.Instruction)
			construct := fmt.Sprintf("%s:underlying %s#%d", FuncName(f), mth, ord[mth])
			switch mth {
			case "WriteHeader":
				continue // C08-LATCH
			case "Header":
				r.Exists(rule, construct, w.InstrPos(in), true, "header access does not commit")
			case "Hijack":
				// listed exception: the connection leaves HTTP; the response must be marked committed
				ok := false
				for _, st := range storesToField(f, m.lengthF) {
					if cv, okc := constInt(st.Val); okc && cv != m.noWritten && canReach(st, in) {
						ok = true
					}
				}
				r.Check(rule, construct, w.InstrPos(in), ok, "Hijack: response marked as written so that rux never commits a header on a hijacked connection")
			default:
				// Write, Flush, WriteString, ReadFrom, ...: can make net/http commit implicitly
				dom := false
				for _, cc := range callsIn(f, func(x ssa.CallInstruction) bool { return m.commitFns[staticCallee(x)] }) {
					if _, isDefer := cc.(*ssa.Defer); !isDefer && dominates(cc, in) {
						dom = true
					}
				}
				r.Check(rule, construct, w.InstrPos(in), dom, map[bool]string{true: "explicit commit (ensureWriteHeader) dominates the call", false: "underlying " + mth + " can commit the header implicitly (status 200) before the recorded status is sent"}[dom])
			}
		}
	}
	// C08-RECORD: the WriteHeader method of the wrapper only records
	wh := w.Fn("rux", "responseWriter.WriteHeader")
	bad := callsIn(wh, func(c ssa.CallInstruction) bool { _, ok := m.underlying(c); return ok })
	r.Check("C08-RECORD", "(*responseWriter).WriteHeader:no underlying call", wh.Pos(), len(bad) == 0, "WriteHeader records the status only; the real commit is lazy")
	for i, st := range storesToField(wh, m.statusF) {
		okG := st.Val == ssa.Value(wh.Params[1]) && factHolds(st, func(cond ssa.Value, truth bool) bool {
			lb, ok := lowerBoundFact(cond, truth, ssa.Value(wh.Params[1]))
			return ok && lb >= 1
		})
		r.Check("C08-RECORD", fmt.Sprintf("(*responseWriter).WriteHeader:store status#%d", i+1), w.InstrPos(st), okG, map[bool]string{true: "status parameter recorded only when positive", false: "status recorded without the 'status > 0' guard or from another value"}[okG])
	}
	r.Floor("C08-RECORD", 2)
}

// C08-END: every exit of a dispatched request passes the commit.
// findFrame locates the function of the request core that installs the
// deferred recovering closure (the "frame"), wherever a refactoring put it.
func findFrame(w *World, cg *CallGraph) (frameFn *ssa.Function, deferIn *ssa.Defer, closure *ssa.Function, core map[*ssa.Function]bool) {
	core = cg.Reach(w.Fn("rux", "Router.ServeHTTP"), w.Fn("rux", "Router.HandleContext"))
	n := 0
	for _, f := range sortFns(core) {
		eachInstr(f, func(in ssa.Instruction) {
			d, ok := in.(*ssa.Defer)
			if !ok {
				return
			}
			if mc, ok := d.Call.Value.(*ssa.MakeClosure); ok {
				fn := mc.Fn.(*ssa.Function)
				if len(callsRecover(fn)) > 0 {
					frameFn, deferIn, closure = f, d, fn
					n++
				}
			} else if sc := d.Call.StaticCallee(); sc != nil && w.InModule(sc) && len(callsRecover(sc)) > 0 {
				// the recovering frame written as a named function / method that is deferred directly
				frameFn, deferIn, closure = f, d, sc
				n++
			}
		})
	}
	if n != 1 {
		return nil, nil, nil, core
	}
	return
}

// commitsAlways: functions that pass the header commit on every path from entry to a normal return.
func commitsAlways(w *World, m *rwModel) map[*ssa.Function]bool {
	out := map[*ssa.Function]bool{}
	for changed := true; changed; {
		changed = false
		for _, f := range w.Funcs {
			if out[f] || f.Parent() != nil {
				continue
			}
			hits := 0
			ok, _ := allPathsHit(f, nil, func(in ssa.Instruction) bool {
				c, isCall := in.(*ssa.Call)
				if !isCall {
					return false
				}
				if m.isCommitCall(in) || out[staticCallee(c)] {
					hits++
					return true
				}
				return false
			})
			if ok && hits > 0 {
				out[f] = true
				changed = true
			}
		}
	}
	return out
}

// C08-END: every exit of a dispatched request passes the commit.
func ruleC08End(rule string) func(r *Run) {
	return func(r *Run) {
		w := r.W
		r.Floor(rule, 2)
		m := newRWModel(w)
		cg := w.BuildCG()
		frameFn, _, cl, _ := findFrame(w, cg)
		always := commitsAlways(w, m)
		next := w.Fn("rux", "Context.Next")
		// normal exit: each entry point hands the request to a dispatcher that commits on every path
		for _, entry := range []*ssa.Function{w.Fn("rux", "Router.ServeHTTP"), w.Fn("rux", "Router.HandleContext")} {
			n := 0
			for _, c := range callsIn(entry, func(c ssa.CallInstruction) bool {
				sc := staticCallee(c)
				return sc != nil && w.InModule(sc) && cg.Reach(sc)[next]
			}) {
				n++
				sc := staticCallee(c)
				ok := always[sc]
				d := "every normal return of the dispatcher " + FuncName(sc) + " passes ensureWriteHeader"
				if !ok {
					_, bad := allPathsHit(sc, nil, func(in ssa.Instruction) bool {
						cc, isCall := in.(*ssa.Call)
						return isCall && (m.isCommitCall(in) || always[staticCallee(cc)])
					})
					d = "a path of " + FuncName(sc) + " reaches return at " + w.Pos(w.InstrPos(bad)) + " without committing the header (a request whose handlers write nothing is answered by net/http's implicit 200, the recorded status is lost)"
				}
				r.Check(rule, fmt.Sprintf("%s:normal exit#%d", FuncName(entry), n), w.InstrPos(c), ok, d)
			}
			r.Exists(rule, FuncName(entry)+":dispatches", entry.Pos(), n >= 1, fmt.Sprintf("%d dispatcher call(s)", n))
		}
		// recovered exit
		if frameFn == nil {
			r.Undecided(rule, "recovered exit", token.NoPos, "no unique deferred recovering closure in the request core")
			return
		}
		onPanicF := w.Field("rux", "Router", "OnPanic")
		hooks := callsIn(cl, func(c ssa.CallInstruction) bool {
			return !c.Common().IsInvoke() && staticCallee(c) == nil && isLoadOfField(c.Common().Value, onPanicF)
		})
		if len(hooks) == 0 {
			r.Undecided(rule, FuncName(frameFn)+":recovered exit", frameFn.Pos(), "no call of the OnPanic hook in the recovering closure")
			return
		}
		for i, h := range hooks {
			okH, badH := allPathsHit(cl, h, m.isCommitCall)
			where := "the recovering closure commits the header after the panic hook ran"
			if !okH {
				// a recovered panic makes the frame function return normally: its callers may commit instead
				callersOK, ncall := true, 0
				for _, g := range w.Funcs {
					for _, c := range callsToFn(g, frameFn) {
						ncall++
						okC, _ := allPathsHit(g, c, func(in ssa.Instruction) bool {
							cc, isCall := in.(*ssa.Call)
							return isCall && (m.isCommitCall(in) || always[staticCallee(cc)])
						})
						if !okC {
							callersOK = false
						}
					}
				}
				if callersOK && ncall > 0 {
					okH = true
					where = "after a recovered panic " + FuncName(frameFn) + " returns normally and every caller commits the header afterwards"
				}
			}
			if !okH {
				where = "recovered path returns at " + w.Pos(w.InstrPos(badH)) + " without committing: the status set by the hook is never sent (net/http answers 200)"
			}
			r.Check(rule, fmt.Sprintf("%s:recovered exit#%d", FuncName(frameFn), i+1), w.InstrPos(h), okH, where)
		}
	}
}

func ruleC08Facade(r *Run) {
	w := r.W
	rule := "C08-FACADE"
	r.Floor(rule, 4)
	m := newRWModel(w)
	ctxT := w.Named("rux", "Context")
	respF := w.Field("rux", "Context", "Resp")
	writerCF := w.Field("rux", "Context", "writer")
	// (1) the underlying writer is used only inside responseWriter's methods
	for _, f := range w.Funcs {
		root := f
		for root.Parent() != nil {
			root = root.Parent()
		}
		isMethod := root.Signature.Recv() != nil && isNamedPtr(root.Signature.Recv().Type(), m.rwT)
		if isMethod {
			continue
		}
		for i, ref := range fieldRefs(f, m.writerF) {
			construct := fmt.Sprintf("%s:responseWriter.Writer#%d", FuncName(f), i+1)
			ok := true
			why := ""
			for _, use := range *ref.(ssa.Value).Referrers() {
				switch u := use.(type) {
				case *ssa.Store:
					if u.Addr == ref.(ssa.Value) && !isNilConst(u.Val) {
						if al, isAl := unwrapAddr(u.Addr).Base.(*ssa.Alloc); isAl && rwValueTemp(w, al) {
							continue // a wrapper value under construction that is then copied into Context.writer as a whole
						}
						ok, why = false, "underlying writer replaced outside the wrapper"
					}
				case *ssa.UnOp:
					// load: may only be returned by an accessor that rux itself never calls
					for _, u2 := range *u.Referrers() {
						if _, isRet := u2.(*ssa.Return); !isRet {
							ok, why = false, "underlying writer used outside the wrapper ("+u2.String()+")"
						}
					}
				}
			}
			if ok {
				why = "only cleared or handed out by an accessor"
			}
			r.Check(rule, construct, w.InstrPos(ref), ok, why)
		}
	}
	// (2) rux never calls the raw-writer accessor itself
	for _, f := range w.Funcs {
		if f.Signature.Recv() == nil || !isNamedPtr(f.Signature.Recv().Type(), ctxT) || f.Signature.Results().Len() != 1 {
			continue
		}
		returnsRaw := false
		for _, ref := range fieldRefs(f, m.writerF) {
			for _, use := range *ref.(ssa.Value).Referrers() {
				if ld, ok := use.(*ssa.UnOp); ok {
					for _, u2 := range *ld.Referrers() {
						if _, isRet := u2.(*ssa.Return); isRet {
							returnsRaw = true
						}
					}
				}
			}
		}
		if !returnsRaw {
			continue
		}
		n := 0
		for _, g := range w.Funcs {
			n += len(callsToFn(g, f))
		}
		r.Check(rule, FuncName(f)+":callers", f.Pos(), n == 0, fmt.Sprintf("%d calls inside the module of the accessor that exposes the raw writer (helpers must write through c.Resp)", n))
	}
	// (3) every store to Context.Resp inside the module stores the address of the same context's writer
	for _, f := range w.Funcs {
		for i, st := range storesToField(f, respF) {
			fa := fieldAddrOf(st)
			v := st.Val
			if mi, ok := v.(*ssa.MakeInterface); ok {
				v = mi.X
			}
			ok := false
			if wa, isFA := v.(*ssa.FieldAddr); isFA && fieldVar(wa.X.Type(), wa.Field) == writerCF && wa.X == fa.X {
				ok = true
			}
			r.Check(rule, fmt.Sprintf("%s:store Resp#%d", FuncName(f), i+1), w.InstrPos(st), ok, map[bool]string{true: "Resp = &sameContext.writer", false: "Resp set to something other than the context's own wrapper: status/commit tracking is bypassed"}[ok])
		}
	}
	// (3b) a Context made by copying another one as a whole (var ctx = *c) inherits a Resp that points INTO the source:
	// every path from the copy to a return must re-point it at the copy's own writer. The source of a Copy() goes back
	// to the pool when its request ends; a copy that keeps its Resp writes into whatever request owns it then.
	for _, f := range w.Funcs {
		eachInstr(f, func(in ssa.Instruction) {
			st, ok := in.(*ssa.Store)
			if !ok {
				return
			}
			al, isAl := st.Addr.(*ssa.Alloc)
			if !isAl || !types.Identical(al.Type().(*types.Pointer).Elem(), ctxT) {
				return
			}
			ld, isLd := st.Val.(*ssa.UnOp)
			if !isLd || ld.Op != token.MUL || !isNamedPtr(ld.X.Type(), ctxT) {
				return
			}
			// the source is a live context handed in from outside (receiver / parameter), not a local prototype value
			if _, isPrm := ld.X.(*ssa.Parameter); !isPrm {
				return
			}
			okRe, _ := allPathsHit(f, in, func(x ssa.Instruction) bool {
				s2, ok := x.(*ssa.Store)
				if !ok {
					return false
				}
				fa, isFA := s2.Addr.(*ssa.FieldAddr)
				if !isFA || fieldVar(fa.X.Type(), fa.Field) != respF || fa.X != ssa.Value(al) {
					return false
				}
				v := s2.Val
				if mi, ok := v.(*ssa.MakeInterface); ok {
					v = mi.X
				}
				wa, isWA := v.(*ssa.FieldAddr)
				return isWA && fieldVar(wa.X.Type(), wa.Field) == writerCF && wa.X == ssa.Value(al)
			})
			r.Check(rule, FuncName(f)+":copied context re-points Resp", w.InstrPos(in), okRe, map[bool]string{true: "after the whole-struct copy every path sets Resp = &copy.writer", false: "a Context copied as a whole keeps the source's Resp (a pointer into the pooled source context): what the holder of the copy writes or sets lands in whichever request owns that context by then"}[okRe])
		})
	}
	// (5) the raw body-write helpers of the context always reach the writer: "the first write commits the header
	// with the status recorded so far" also holds for an EMPTY first write (net/http commits on Write(nil)); a helper
	// that returns early for empty data leaves the header open, and a status set afterwards replaces the one that
	// was in force at the first write
	{
		writers := map[*ssa.Function]bool{}
		var cands []*ssa.Function
		for _, f := range w.Funcs {
			if f.Parent() != nil || f.Signature.Recv() == nil || !isNamedPtr(f.Signature.Recv().Type(), ctxT) || !strings.HasPrefix(f.Name(), "Write") || f.Signature.Results().Len() != 0 {
				continue
			}
			if f.Signature.Params().Len() != 1 {
				continue
			}
			switch t := f.Signature.Params().At(0).Type().Underlying().(type) {
			case *types.Slice:
				if b, ok := t.Elem().Underlying().(*types.Basic); !ok || b.Kind() != types.Byte {
					continue
				}
			case *types.Basic:
				if t.Kind() != types.String {
					continue
				}
			default:
				continue
			}
			cands = append(cands, f)
		}
		for changed := true; changed; {
			changed = false
			for _, f := range cands {
				if writers[f] {
					continue
				}
				ok, _ := allPathsHit(f, nil, func(in ssa.Instruction) bool {
					c, isC := in.(*ssa.Call)
					if !isC {
						return false
					}
					if c.Call.IsInvoke() && c.Call.Method.Name() == "Write" && isLoadOfField(c.Call.Value, respF) {
						return true
					}
					if sc := staticCallee(c); sc != nil {
						if writers[sc] {
							return true
						}
						if sc.Name() == "Write" && sc.Signature.Recv() != nil && isNamedPtr(sc.Signature.Recv().Type(), m.rwT) {
							return true
						}
					}
					return false
				})
				if ok {
					writers[f] = true
					changed = true
				}
			}
		}
		for _, f := range cands {
			r.Check(rule, FuncName(f)+":always writes", f.Pos(), writers[f], map[bool]string{true: "every normal path of the helper passes the data to c.Resp.Write (an empty write still commits the header)", false: "a path of the helper returns without calling c.Resp.Write (e.g. for empty data): such a first write does not commit the header, and a status set after it is the one that goes out"}[writers[f]])
		}
		r.Exists(rule, "Context raw write helpers", token.NoPos, len(cands) >= 1, fmt.Sprintf("%d helper(s)", len(cands)))
	}
	// (4) the http.Handler adapters hand c.Resp (not the raw writer) to wrapped handlers
	for _, name := range []string{"WrapHTTPHandler", "WrapHTTPHandlerFunc"} {
		fn := w.Fn("rux", name)
		for _, cl := range fn.AnonFuncs {
			for i, c := range callsIn(cl, func(c ssa.CallInstruction) bool { return true }) {
				args := c.Common().Args
				if len(args) < 2 {
					continue
				}
				ok := isLoadOfField(args[0], respF) || (len(args) > 2 && isLoadOfField(args[1], respF))
				r.Check(rule, fmt.Sprintf("%s:call#%d writer arg", FuncName(cl), i+1), w.InstrPos(c), ok, map[bool]string{true: "wrapped handler receives c.Resp", false: "wrapped handler does not receive the context's wrapper writer"}[ok])
			}
		}
	}
}

// ---------------------------------------------------------------------------
// C09

// abortFns: module functions that park the cursor on every path.
func abortFns(w *World) map[*ssa.Function]bool {
	idxF := w.Field("rux", "Context", "index")
	ai, _ := constInt(w.Const("rux", "abortIndex").Value)
	out := map[*ssa.Function]bool{}
	for changed := true; changed; {
		changed = false
		for _, f := range w.Funcs {
			if out[f] || f.Signature.Recv() == nil || !isNamedPtr(f.Signature.Recv().Type(), w.Named("rux", "Context")) {
				continue
			}
			hits := 0
			ok, _ := allPathsHit(f, nil, func(in ssa.Instruction) bool {
				switch x := in.(type) {
				case *ssa.Store:
					if fa, isFA := x.Addr.(*ssa.FieldAddr); isFA && fieldVar(fa.X.Type(), fa.Field) == idxF && fa.X == ssa.Value(f.Params[0]) {
						if c, okc := constInt(x.Val); okc && c == ai {
							hits++
							return true
						}
					}
				case *ssa.Call:
					if out[staticCallee(x)] && len(x.Call.Args) > 0 && x.Call.Args[0] == ssa.Value(f.Params[0]) {
						hits++
						return true
					}
				}
				return false
			})
			if ok && hits > 0 {
				out[f] = true
				changed = true
			}
		}
	}
	return out
}

func callsRecover(f *ssa.Function) []ssa.CallInstruction {
	return callsIn(f, func(c ssa.CallInstruction) bool { return isBuiltin(c, "recover") })
}

func ruleC09Frame(r *Run) {
	w := r.W
	rule := "C09-FRAME"
	r.Floor(rule, 6)
	onPanicF := w.Field("rux", "Router", "OnPanic")
	cg := w.BuildCG()
	disp, deferIn, cl, core := findFrame(w, cg)
	if deferIn == nil {
		r.Check(rule, "request core:recover frame", token.NoPos, false, "no (unique) deferred recovering closure in the request core: a handler panic escapes ServeHTTP even with OnPanic set")
		return
	}
	// functions of the core that can run user code: dynamic calls of handler values / hooks, transitively
	userFn := map[*ssa.Function]bool{}
	isDynUser := func(c ssa.CallInstruction) bool {
		if _, isDefer := c.(*ssa.Defer); isDefer {
			return false
		}
		return !c.Common().IsInvoke() && staticCallee(c) == nil && calleeName(c) == ""
	}
	for f := range core {
		if f == cl {
			continue
		}
		if len(callsIn(f, isDynUser)) > 0 {
			userFn[f] = true
		}
	}
	for changed := true; changed; {
		changed = false
		for f := range core {
			if userFn[f] || f == cl {
				continue
			}
			for _, t := range cg.Edges[f] {
				if userFn[t] && t != cl {
					userFn[f] = true
					changed = true
				}
			}
		}
	}
	// ancestors of the frame function: everything they run lies outside the frame
	for _, a := range sortFns(core) {
		if a == disp || a == cl || !cg.Reach(a)[disp] {
			continue
		}
		n := 0
		eachInstr(a, func(in ssa.Instruction) {
			c, ok := in.(ssa.CallInstruction)
			if !ok {
				return
			}
			if _, isDefer := in.(*ssa.Defer); isDefer {
				return
			}
			sc := staticCallee(c)
			outside := false
			what := ""
			if isDynUser(c) {
				outside, what = true, "a handler / hook value is called"
			} else if sc != nil && userFn[sc] && sc != disp && !cg.Reach(sc)[disp] {
				outside, what = true, FuncName(sc)+" (which can run user code) is called"
			}
			if outside {
				n++
				r.Check(rule, fmt.Sprintf("%s:outside the frame#%d", FuncName(a), n), w.InstrPos(in), false,
					what+" in "+FuncName(a)+", outside the recover frame installed by "+FuncName(disp)+": a panic there escapes ServeHTTP although OnPanic is set (and it runs even after a recovered panic)")
			}
		})
		r.Check(rule, FuncName(a)+":runs user code only inside the frame", a.Pos(), n == 0, fmt.Sprintf("%d call(s) that can run user code outside the frame", n))
	}
	hookNonNil := func(cond ssa.Value, truth bool) bool {
		b, ok := cond.(*ssa.BinOp)
		if !ok {
			return false
		}
		var other ssa.Value
		if isLoadOfField(b.X, onPanicF) {
			other = b.Y
		} else if isLoadOfField(b.Y, onPanicF) {
			other = b.X
		} else {
			return false
		}
		if !isNilConst(other) {
			return false
		}
		return (b.Op == token.NEQ && truth) || (b.Op == token.EQL && !truth)
	}
	hookNil := func(cond ssa.Value, truth bool) bool { return hookNonNil(cond, !truth) }
	// (1) frame exists iff hook installed: the defer (or the recover inside it) is guarded by OnPanic != nil
	guarded := factHolds(deferIn, hookNonNil)
	if !guarded {
		for _, rc := range callsRecover(cl) {
			if factHolds(rc, hookNonNil) {
				guarded = true
			}
		}
	}
	r.Check(rule, FuncName(disp)+":frame guard", w.InstrPos(deferIn), guarded, map[bool]string{true: "recover frame installed only when OnPanic != nil (without a hook the panic propagates unchanged)", false: "recover frame is not conditional on the hook: panics are swallowed when no hook is installed"}[guarded])
	// (2) with a hook, the frame encloses everything that can run user code
	userCalls := callsIn(disp, func(c ssa.CallInstruction) bool {
		if _, isDefer := c.(*ssa.Defer); isDefer {
			return false
		}
		sc := staticCallee(c)
		if sc != nil {
			switch FuncName(sc) {
			case "(*Context).Next", "(*Router).QuickMatch", "(*Context).SetHandlers":
				return true
			}
			return userFn[sc]
		}
		// dynamic calls of handler values
		return !c.Common().IsInvoke() && calleeName(c) == ""
	})
	cut := cutEdges(disp, hookNil) // ignore executions without a hook
	ord := map[string]int{}
	for _, uc := range userCalls {
		name := "dynamic handler call"
		if sc := staticCallee(uc); sc != nil {
			name = FuncName(sc)
		}
		ord[name]++
		in := uc.(ssa.Instruction)
		escapes := pathExists(disp, nil, func(x ssa.Instruction) bool { return x == in }, func(x ssa.Instruction) bool { return x == ssa.Instruction(deferIn) }, cut)
		r.Check(rule, fmt.Sprintf("%s:enclosed %s#%d", FuncName(disp), name, ord[name]), w.InstrPos(in), !escapes,
			map[bool]string{true: "reached only after the recover frame is installed (when a hook is set)", false: "can run before the recover frame is installed: a panic here escapes although OnPanic is set"}[!escapes])
	}
	// (3) inside the closure: recover -> non-nil -> Set(CTXRecoverResult, value) -> hook exactly once
	recs := callsRecover(cl)
	key, _ := constString(w.Const("rux", "CTXRecoverResult").Value)
	setFn := w.Fn("rux", "Context.Set")
	hooks := callsIn(cl, func(c ssa.CallInstruction) bool {
		return !c.Common().IsInvoke() && staticCallee(c) == nil && isLoadOfField(c.Common().Value, onPanicF)
	})
	r.Check(rule, FuncName(disp)+"$recover:hook calls", cl.Pos(), len(hooks) == 1 && len(recs) == 1, fmt.Sprintf("%d hook call site(s), %d recover() call(s) in the deferred closure", len(hooks), len(recs)))
	if len(hooks) == 1 && len(recs) == 1 {
		h := hooks[0].(ssa.Instruction)
		rv := recs[0].Value()
		r.Check(rule, FuncName(disp)+"$recover:hook once", w.InstrPos(h), !inLoop(h), "the hook call is not inside a loop")
		nonNil := factHolds(h, func(cond ssa.Value, truth bool) bool {
			b, ok := cond.(*ssa.BinOp)
			if !ok {
				return false
			}
			if (b.X == rv && isNilConst(b.Y)) || (b.Y == rv && isNilConst(b.X)) {
				return (b.Op == token.NEQ && truth) || (b.Op == token.EQL && !truth)
			}
			return false
		})
		r.Check(rule, FuncName(disp)+"$recover:hook guard", w.InstrPos(h), nonNil, "hook runs only when recover() returned a non-nil value")
		// ... and whenever it did: no path on which recover() returned a value leaves the closure without calling the hook
		// (a guard in front of it — "the header is already written" — swallows the panic with the hook never running)
		{
			recIn := recs[0].(ssa.Instruction)
			fps, complete := exploreFrom(recIn, nil, 2000)
			skipped := !complete
			for _, fp := range fps {
				if fp.ret == nil {
					continue
				}
				recovered := false
				for _, d := range fp.pc.decs {
					if d.If == nil {
						continue
					}
					if is, pol := nonNilTestP(d.Cond, rv, fp.pc); is && pol == d.Truth {
						recovered = true
					}
				}
				if !recovered {
					continue
				}
				called := false
				for _, x := range fp.instrs {
					if x == h {
						called = true
					}
				}
				if !called {
					skipped = true
				}
			}
			r.Check(rule, FuncName(disp)+"$recover:hook on every recovered path", w.InstrPos(h), !skipped, map[bool]string{true: "every path on which recover() returned a value calls the hook before the closure returns", false: "a path on which a panic was recovered returns without calling the hook: the panic is swallowed — contained, but the hook runs zero times instead of exactly once"}[!skipped])
		}
		stored := false
		for _, sc := range callsToFn(cl, setFn) {
			a := sc.Common().Args
			if len(a) == 3 {
				if k, ok := constString(a[1]); ok && k == key && a[2] == rv && dominates(sc, h) {
					stored = true
				}
			}
		}
		r.Check(rule, FuncName(disp)+"$recover:store before hook", w.InstrPos(h), stored, map[bool]string{true: "recovered value stored under CTXRecoverResult before the hook is called", false: "the hook runs without the recovered value available under CTXRecoverResult"}[stored])
		// the hook receives the request's context
		okArg := len(hooks[0].Common().Args) == 1 && canon(hooks[0].Common().Args[0]) == canon(disp.Params[1])
		r.Check(rule, FuncName(disp)+"$recover:hook arg", w.InstrPos(h), okArg, "hook receives the context of the panicking request")
		// no re-panic after recovery
		rep := false
		eachInstr(cl, func(in ssa.Instruction) {
			if panicsAt(in) && canReach(recs[0], in) {
				rep = true
			}
		})
		r.Check(rule, FuncName(disp)+"$recover:no re-panic", cl.Pos(), !rep, "the recovered panic is not raised again")
		// the hook is the last user code of a panicking request: "no later handler runs". Anything else in the
		// deferred closure that can run a handler or another hook (OnError on the collected errors, a shared
		// "finish the response" helper) runs after the panic — and a panic inside it escapes the frame
		var extra []ssa.Instruction
		eachInstr(cl, func(in ssa.Instruction) {
			c, ok := in.(ssa.CallInstruction)
			if !ok || in == h {
				return
			}
			if _, isDefer := in.(*ssa.Defer); isDefer {
				return
			}
			if isDynUser(c) {
				if _, isFn := c.Common().Value.Type().Underlying().(*types.Signature); isFn {
					extra = append(extra, in)
				}
				return
			}
			if sc := staticCallee(c); sc != nil && userFn[sc] {
				extra = append(extra, in)
			}
		})
		detail := "the panic hook is the only call in the recovering closure that can run user code"
		pos := cl.Pos()
		if len(extra) > 0 {
			pos = w.InstrPos(extra[0])
			detail = fmt.Sprintf("besides the panic hook the recovering closure makes %d more call(s) that can run user code (first: %s): a handler or the OnError hook runs for a request whose chain already ended in a panic, after the hook has rendered its answer, and a panic in it escapes ServeHTTP although a hook is installed", len(extra), shortCanon(canon(extra[0].(ssa.CallInstruction).Common().Value)))
		}
		r.Check(rule, FuncName(disp)+"$recover:hook is last user code", pos, len(extra) == 0, detail)
	}
}

// C09-HOOKPATH: nothing between recover() and the hook call can panic again.
func ruleC09HookPath(r *Run) {
	w := r.W
	rule := "C09-HOOKPATH"
	r.Floor(rule, 2)
	cg := w.BuildCG()
	_, _, cl, _ := findFrame(w, cg)
	if cl == nil {
		r.Undecided(rule, "recover closure", token.NoPos, "no unique recovering closure")
		return
	}
	// the closure and the module functions it calls statically (the hook itself is user code)
	fns := []*ssa.Function{cl}
	seen := map[*ssa.Function]bool{cl: true}
	var walk func(f *ssa.Function, d int)
	walk = func(f *ssa.Function, d int) {
		if d > 3 {
			return
		}
		for _, t := range cg.Edges[f] {
			if !seen[t] && w.InModule(t) && t.Blocks != nil {
				seen[t] = true
				fns = append(fns, t)
				walk(t, d+1)
			}
		}
	}
	walk(cl, 0)
	p := newIdxProver(w)
	n := 0
	for _, f := range fns {
		for _, ob := range p.collect(f) {
			n++
			r.Check(rule, ob.construct, w.InstrPos(ob.in), ob.ok, "in the recovered path ("+FuncName(f)+"): "+ob.kind+": "+ob.detail+map[bool]string{true: "", false: " — a second panic inside the deferred closure is not recovered: it escapes ServeHTTP and the hook never runs"}[ob.ok])
		}
	}
	r.Exists(rule, "recovered path functions", cl.Pos(), len(fns) >= 2, fmt.Sprintf("%d function(s) on the recovered path examined, %d obligations", len(fns), n))
}

func ruleC09Only(r *Run) {
	w := r.W
	rule := "C09-ONLY"
	r.Floor(rule, 2)
	cg := w.BuildCG()
	_, _, frameCl, _ := findFrame(w, cg)
	core := cg.Reach(w.Fn("rux", "Router.ServeHTTP"), w.Fn("rux", "Router.HandleContext"))
	// plus Context.Next (the executor) and everything it statically reaches
	for f := range cg.Reach(w.Fn("rux", "Context.Next")) {
		core[f] = true
	}
	n := 0
	for _, f := range sortFns(core) {
		recs := callsRecover(f)
		if len(recs) == 0 {
			continue
		}
		n++
		ok := frameCl != nil && f == frameCl
		r.Check(rule, FuncName(f)+":recover", w.InstrPos(recs[0]), ok, map[bool]string{true: "the dispatcher's hook-guarded frame (C09-FRAME)", false: "a second recover in rux's request path swallows panics or lets the chain resume"}[ok])
	}
	r.Exists(rule, "recover sites in the request core", token.NoPos, n >= 1, fmt.Sprintf("%d recovering function(s) among %d request-core functions", n, len(core)))
	// the executor must not defer anything (a deferred recover around handler calls would resume the chain)
	next := w.Fn("rux", "Context.Next")
	defers := 0
	eachInstr(next, func(in ssa.Instruction) {
		if _, ok := in.(*ssa.Defer); ok {
			defers++
		}
	})
	r.Check(rule, "(*Context).Next:no defer", next.Pos(), defers == 0, "the chain executor has no deferred frame")
}

func ruleC09InChain(r *Run) {
	w := r.W
	rule := "C09-INCHAIN"
	r.Floor(rule, 1)
	next := w.Fn("rux", "Context.Next")
	aborts := abortFns(w)
	for _, f := range w.Funcs {
		if !isHandlerShaped(f) || len(callsToFn(f, next)) == 0 {
			continue
		}
		// the functions f defers: closures, or named functions of the module called directly by defer
		var deferredFns []*ssa.Function
		eachInstr(f, func(in ssa.Instruction) {
			if d, ok := in.(*ssa.Defer); ok {
				if mc, ok := d.Call.Value.(*ssa.MakeClosure); ok {
					deferredFns = append(deferredFns, mc.Fn.(*ssa.Function))
				} else if sc := d.Call.StaticCallee(); sc != nil && w.InModule(sc) {
					deferredFns = append(deferredFns, sc)
				}
			}
		})
		for _, cl := range deferredFns {
			recs := callsRecover(cl)
			if len(recs) == 0 {
				continue
			}
			rv := recs[0].Value()
			// on the recovered edge every path parks the cursor
			isNilEdge := func(cond ssa.Value, truth bool) bool {
				b, ok := cond.(*ssa.BinOp)
				if !ok {
					return false
				}
				if (b.X == rv && isNilConst(b.Y)) || (b.Y == rv && isNilConst(b.X)) {
					return (b.Op == token.EQL && truth) || (b.Op == token.NEQ && !truth)
				}
				return false
			}
			cut := cutEdges(cl, isNilEdge)
			isAbort := func(in ssa.Instruction) bool {
				c, ok := in.(*ssa.Call)
				return ok && aborts[staticCallee(c)]
			}
			leak := pathExists(cl, recs[0], isReturnInstr, isAbort, cut)
			r.Check(rule, FuncName(f)+":recovered edge aborts", w.InstrPos(recs[0]), !leak,
				map[bool]string{true: "after recovering, the middleware parks the cursor so the outer Next loop stops", false: "in-chain recovery does not abort: the enclosing Next() loop continues with the handlers after the one that panicked"}[!leak])
		}
	}
}

func init() {
	register(&property{
		Meta: propertyMeta{
			ID:          "C08",
			Explanation: "The wrapper writer is a three-state machine (unset / status recorded / committed) checked per method for all operation sequences: (C08-LATCH) the underlying WriteHeader has exactly one call site, guarded by length == noWritten, whose path sets the latch and passes the recorded status after the 0->200 default; noWritten is stored only together with a new underlying writer; other length stores are 0 or length + n with n from the underlying Write. (C08-PRECOMMIT) every call on the underlying writer that can commit implicitly (Write, Flush, ...) is dominated by the explicit commit; Hijack marks the response written. (C08-RECORD) WriteHeader only records, and only positive statuses. (C08-END) every normal exit of the dispatcher and the recovered exit after the panic hook pass the commit. (C08-FACADE) the raw writer is reachable only through the wrapper: Resp always points to the same context's wrapper, adapters pass c.Resp, rux never calls RawWriter. Raw write helpers of Context (Write* taking bytes or a string) reach c.Resp.Write on every normal path. A function that installs a new underlying writer stores noWritten into length on every path. A Context copied as a whole stores Resp = &copy.writer on every path from the copy to a return.",
			NotDecided:  []string{"body concatenation and the arithmetic of Length() beyond 'on every path from the underlying Write to a return, length += the count it returned'", "what a user-replaced c.Resp does", "which status wins when a helper is called after the commit (a run-time order)"},
			Assumptions: []string{"net/http.ResponseWriter commits implicitly on Write/Flush (documented)", "handlers write through c.Resp or Context helpers"},
		},
		Rules: []ruleFn{
			{"C08-LATCH", ruleC08Latch},
			{"C08-PRECOMMIT", ruleC08Precommit},
			{"C08-END", ruleC08End("C08-END")},
			{"C08-FACADE", ruleC08Facade},
		},
	})
	register(&property{
		Meta: propertyMeta{
			ID:          "C09",
			Explanation: "(C09-FRAME) the dispatcher installs a deferred recovering closure iff OnPanic != nil; with a hook no call that can run user code (QuickMatch, SetHandlers, Next, OnError) is reachable before the frame; in the closure recover() != nil guards Set(CTXRecoverResult, value) -> exactly one hook call (not in a loop, same context) -> no re-panic. (C08-END) the recovered exit commits the response after the hook. (C09-ONLY) no other recover in rux's request core and no deferred frame in the chain executor, so nothing resumes the chain. (C09-INCHAIN) every handler-shaped middleware of the module that calls Next() and recovers in a deferred closure parks the cursor on the recovered edge. (C03-POOL/C10-RESET) the context of a panicked dispatch is not recycled (Put not deferred) and every pooled context is fully re-initialised. In the recovering closure no call other than the panic hook can run user code (dynamic function values, module functions that reach one).",
			NotDecided:  []string{"what the hook writes", "behaviour of net/http when the panic propagates", "user handlers"},
			Assumptions: []string{"Go's defer/recover semantics", "C10's total re-initialisation makes later requests independent of the panicked one"},
		},
		Rules: []ruleFn{
			{"C09-FRAME", ruleC09Frame},
			{"C08-END", ruleC08End("C08-END")},
			{"C09-ONLY", ruleC09Only},
			{"C09-HOOKPATH", ruleC09HookPath},
			{"C09-INCHAIN", ruleC09InChain},
			{"C03-POOL", ruleC03Pool},
			{"C10-RESET", ruleC10Reset},
		},
	})
}
