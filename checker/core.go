package main

// core.go — obligations, verdicts, known findings, evidence.

import (
	"encoding/json"
	"fmt"
	"go/token"
	"os"
	"path/filepath"
	"sort"
	"strings"
	"time"
)

type Verdict int

const (
	Holds Verdict = iota
	Violated
	Undecided
)

func (v Verdict) String() string {
	switch v {
	case Holds:
		return "holds"
	case Violated:
		return "violated"
	}
	return "undecided"
}

// Ob is one proof obligation: a rule applied to a construct.
type Ob struct {
	Rule      string  `json:"rule"`
	Construct string  `json:"construct"` // stable key: function + descriptor (never a line number)
	Site      string  `json:"site"`      // file:line:col, for humans
	Verdict   Verdict `json:"-"`
	VerdictS  string  `json:"verdict"`
	Detail    string  `json:"detail,omitempty"`
	Trivial   bool    `json:"-"` // existence-only match, not counted as non-trivial
	Known     bool    `json:"known_finding,omitempty"`
}

// Run collects the obligations of one property check.
type Run struct {
	W        *World
	Property string
	Tier     string
	Obs      []*Ob
	floors   map[string]int
	Notes    []string
	Analysed map[string]any
	curRule  string
	IdxSites map[string]bool // file:line of every E-IDX obligation of this run
}

func (r *Run) ob(rule, construct string, pos token.Pos, v Verdict, trivial bool, detail string) *Ob {
	o := &Ob{Rule: rule, Construct: construct, Site: r.W.Pos(pos), Verdict: v, VerdictS: v.String(), Detail: detail, Trivial: trivial}
	r.Obs = append(r.Obs, o)
	return o
}

// Check records an obligation that needed an argument (dominance, flow, table).
func (r *Run) Check(rule, construct string, pos token.Pos, ok bool, detail string) bool {
	v := Holds
	if !ok {
		v = Violated
	}
	r.ob(rule, construct, pos, v, false, detail)
	return ok
}

// Exists records an existence-only obligation.
func (r *Run) Exists(rule, construct string, pos token.Pos, ok bool, detail string) bool {
	v := Holds
	if !ok {
		v = Violated
	}
	r.ob(rule, construct, pos, v, true, detail)
	return ok
}

// Undecided records a shape the rule could not decide; it fails the check.
func (r *Run) Undecided(rule, construct string, pos token.Pos, detail string) {
	r.ob(rule, construct, pos, Undecided, false, detail)
}

// Floor declares the minimum number of obligations a rule must produce.
func (r *Run) Floor(rule string, n int) {
	if r.floors == nil {
		r.floors = map[string]int{}
	}
	r.floors[rule] = n
}

func (r *Run) Note(format string, a ...any) { r.Notes = append(r.Notes, fmt.Sprintf(format, a...)) }

func (r *Run) count(rule string) int {
	n := 0
	for _, o := range r.Obs {
		if o.Rule == rule {
			n++
		}
	}
	return n
}

// guard runs one rule function, converting unresolved anchors and internal
// panics into undecided obligations (never silently "holds").
func (r *Run) guard(rule string, f func()) {
	defer func() {
		if e := recover(); e != nil {
			switch e := e.(type) {
			case anchorErr:
				r.Undecided(rule, "anchor:"+e.what, token.NoPos, e.Error())
			default:
				r.Undecided(rule, "internal", token.NoPos, fmt.Sprintf("checker panic: %v", e))
				if os.Getenv("RUXCHECK_DEBUG") != "" {
					panic(e)
				}
			}
		}
	}()
	f()
}

// ---------------------------------------------------------------------------
// known findings

type knownFinding struct {
	Property, Rule, Construct, Text string
}

func loadKnown(path string) ([]knownFinding, []string, error) {
	data, err := os.ReadFile(path)
	if err != nil {
		if os.IsNotExist(err) {
			return nil, nil, nil
		}
		return nil, nil, err
	}
	var out []knownFinding
	var fixed []string
	for _, line := range strings.Split(string(data), "\n") {
		line = strings.TrimSpace(line)
		if line == "" || strings.HasPrefix(line, "#") {
			continue
		}
		if strings.HasPrefix(line, "fixed:") {
			fixed = append(fixed, line)
			continue
		}
		if !strings.HasPrefix(line, "known:") {
			continue
		}
		k := knownFinding{}
		rest := strings.TrimSpace(strings.TrimPrefix(line, "known:"))
		fields := strings.Fields(rest)
		var text []string
		for _, f := range fields {
			switch {
			case strings.HasPrefix(f, "property=") && k.Property == "":
				k.Property = strings.TrimPrefix(f, "property=")
			case strings.HasPrefix(f, "rule=") && k.Rule == "":
				k.Rule = strings.TrimPrefix(f, "rule=")
			case strings.HasPrefix(f, "construct=") && k.Construct == "":
				k.Construct = strings.TrimPrefix(f, "construct=")
			default:
				text = append(text, f)
			}
		}
		k.Text = strings.Join(text, " ")
		out = append(out, k)
	}
	return out, fixed, nil
}

// ---------------------------------------------------------------------------
// finishing a run

type propertyMeta struct {
	ID          string
	Explanation string
	NotDecided  []string
	Assumptions []string
}

func (r *Run) finish(meta propertyMeta, verifDir string, start time.Time, seed int64, selftest any) int {
	// vacuity floors
	rules := make([]string, 0, len(r.floors))
	for k := range r.floors {
		rules = append(rules, k)
	}
	sort.Strings(rules)
	for _, rule := range rules {
		if n := r.count(rule); n < r.floors[rule] {
			r.Undecided(rule, "floor", token.NoPos, fmt.Sprintf("rule matched %d < floor %d sites (vacuous or code moved beyond recognition)", n, r.floors[rule]))
		}
	}
	known, _, err := loadKnown(filepath.Join(verifDir, "known_findings.txt"))
	if err != nil {
		fmt.Printf("cannot read known findings: %v\n", err)
		return 2
	}
	var bad []*Ob
	for _, o := range r.Obs {
		if o.Verdict == Holds {
			continue
		}
		if o.Verdict == Violated {
			for _, k := range known {
				if k.Property == r.Property && k.Rule == o.Rule && k.Construct == strings.ReplaceAll(o.Construct, " ", "_") {
					o.Known = true
					fmt.Printf("KNOWN-FINDING: property=%s %s %s %s\n", r.Property, o.Rule, o.Construct, k.Text)
					break
				}
			}
			if o.Known {
				continue
			}
		}
		bad = append(bad, o)
	}
	sort.SliceStable(bad, func(i, j int) bool { return siteLess(bad[i].Site, bad[j].Site) })

	nontrivial := map[string]bool{}
	discharged := 0
	byRule := map[string][2]int{}
	for _, o := range r.Obs {
		if o.Verdict == Holds {
			discharged++
		}
		if !o.Trivial {
			nontrivial[o.Rule+"|"+o.Construct] = true
		}
		c := byRule[o.Rule]
		c[0]++
		if o.Verdict == Holds {
			c[1]++
		}
		byRule[o.Rule] = c
	}
	samples := []any{}
	// one sample per rule first, then fill up
	seenRule := map[string]bool{}
	for _, o := range r.Obs {
		if !seenRule[o.Rule] {
			seenRule[o.Rule] = true
			samples = append(samples, o)
		}
	}
	for _, o := range r.Obs {
		if len(samples) >= 60 {
			break
		}
		dup := false
		for _, s := range samples {
			if s == any(o) {
				dup = true
			}
		}
		if !dup {
			samples = append(samples, o)
		}
	}
	ruleCounts := map[string]any{}
	for k, v := range byRule {
		ruleCounts[k] = map[string]int{"obligations": v[0], "discharged": v[1]}
	}
	if r.Analysed == nil {
		r.Analysed = map[string]any{}
	}
	r.Analysed["packages"] = len(r.W.Pkgs)
	r.Analysed["functions_in_module"] = len(r.W.Funcs)
	r.Analysed["ssa_instructions"] = r.W.NumInstr
	r.Analysed["repo_dir"] = r.W.Dir
	r.Analysed["not_analysed"] = "_examples/ and _benchmarks/ (separate modules, not built by ./...), *_test.go"

	cov := map[string]any{
		"explanation":         meta.Explanation,
		"obligations":         len(r.Obs),
		"discharged":          discharged,
		"evaluations":         len(r.Obs),
		"distinct_nontrivial": len(nontrivial),
		"rule":                "one obligation per (rule, construct) instance found in the current source of /repo; non-trivial = decided by a dominance/path, data-flow, alias or table argument (existence-only anchor matches are excluded); distinct = distinct rule+construct keys",
		"samples":             samples,
		"per_rule":            ruleCounts,
		"analysed":            r.Analysed,
		"not_decided":         meta.NotDecided,
		"notes":               r.Notes,
		"checker_cmd":         fmt.Sprintf("./bin/ruxcheck -property %s -tier %s", r.Property, r.Tier),
		"exhaustive":          false,
	}
	if selftest != nil {
		cov["selftest"] = selftest
	}
	ev := map[string]any{
		"property_id": r.Property,
		"tier":        r.Tier,
		"seed":        seed,
		"level":       "other",
		"coverage":    cov,
		"assumptions": meta.Assumptions,
		"wall_s":      time.Since(start).Seconds(),
		"violations":  len(bad),
	}
	_ = os.MkdirAll(filepath.Join(verifDir, "evidence", "replay"), 0o755)
	data, _ := json.MarshalIndent(ev, "", " ")
	if err := os.WriteFile(filepath.Join(verifDir, "evidence", r.Property+".json"), append(data, '\n'), 0o644); err != nil {
		fmt.Printf("cannot write evidence: %v\n", err)
		return 2
	}

	fmt.Printf("property %s tier %s: %d obligations, %d discharged, %d rules, %d functions, %d SSA instructions analysed\n",
		r.Property, r.Tier, len(r.Obs), discharged, len(byRule), len(r.W.Funcs), r.W.NumInstr)
	if len(bad) == 0 {
		return 0
	}
	replay := filepath.Join(verifDir, "evidence", "replay", r.Property+".txt")
	var sb strings.Builder
	fmt.Fprintf(&sb, "property=%s tier=%s repo=%s\n", r.Property, r.Tier, r.W.Dir)
	for _, o := range bad {
		line := fmt.Sprintf("%s: %s: %s: %s: %s", o.Site, o.Rule, o.Construct, o.Verdict, o.Detail)
		fmt.Println(line)
		sb.WriteString(line + "\n")
	}
	_ = os.WriteFile(replay, []byte(sb.String()), 0o644)
	fmt.Printf("VIOLATION property=%s replay=%s\n", r.Property, replay)
	return 1
}

func siteLess(a, b string) bool {
	pa, pb := strings.Split(a, ":"), strings.Split(b, ":")
	if pa[0] != pb[0] {
		return pa[0] < pb[0]
	}
	for i := 1; i < 3; i++ {
		var x, y int
		if i < len(pa) {
			fmt.Sscan(pa[i], &x)
		}
		if i < len(pb) {
			fmt.Sscan(pb[i], &y)
		}
		if x != y {
			return x < y
		}
	}
	return false
}
