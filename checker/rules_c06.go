package main

// rules_c06.go — C06: fallback order HEAD->GET, '/*', 405/Allow, 404.

import (
	"fmt"
	"go/token"
	"go/types"
	"strings"

	"golang.org/x/tools/go/ssa"
)

type stage struct {
	k    int
	in   ssa.Instruction
	name string
}

// isCondOn: cond tests "v != nil" (returns truth polarity for "non-nil").
func nonNilTest(cond ssa.Value, v ssa.Value) (isTest bool, nonNilWhenTrue bool) {
	b, ok := cond.(*ssa.BinOp)
	if !ok {
		return false, false
	}
	var other ssa.Value
	if b.X == v {
		other = b.Y
	} else if b.Y == v {
		other = b.X
	} else {
		return false, false
	}
	if !isNilConst(other) {
		return false, false
	}
	switch b.Op {
	case token.NEQ:
		return true, true
	case token.EQL:
		return true, false
	}
	return false, false
}

// nonNilTestP is nonNilTest with the condition's operands resolved along the path
// (the tested variable may be a merge of several stages' results).
func nonNilTestP(cond ssa.Value, v ssa.Value, p *pathCtx) (bool, bool) {
	if is, pol := nonNilTest(cond, v); is {
		return is, pol
	}
	b, ok := cond.(*ssa.BinOp)
	if !ok || (b.Op != token.NEQ && b.Op != token.EQL) {
		return false, false
	}
	x, y := resolvePhi(b.X, p), resolvePhi(b.Y, p)
	if (x == v && isNilConst(y)) || (y == v && isNilConst(x)) {
		return true, b.Op == token.NEQ
	}
	return false, false
}

// nonEmptyTest: cond tests len(v) > 0.
func nonEmptyTest(cond ssa.Value, v ssa.Value) (isTest bool, nonEmptyWhenTrue bool) {
	b, ok := cond.(*ssa.BinOp)
	if !ok {
		return false, false
	}
	call, ok := b.X.(*ssa.Call)
	if !ok || !isBuiltin(call, "len") || !(call.Call.Args[0] == v || sameVal(call.Call.Args[0], v)) {
		return false, false
	}
	c, okc := constInt(b.Y)
	if !okc {
		return false, false
	}
	switch {
	case b.Op == token.GTR && c == 0, b.Op == token.NEQ && c == 0, b.Op == token.GEQ && c == 1:
		return true, true
	case b.Op == token.EQL && c == 0, b.Op == token.LEQ && c == 0, b.Op == token.LSS && c == 1:
		return true, false
	}
	return false, false
}

func extractOf(call ssa.Value, idx int) ssa.Value {
	for _, ref := range *call.Referrers() {
		if ex, ok := ref.(*ssa.Extract); ok && ex.Index == idx {
			return ex
		}
	}
	return nil
}

func boolFieldFact(cond ssa.Value, fv *types.Var) bool { return isLoadOfField(cond, fv) }

func ruleC06Stages(r *Run) {
	w := r.W
	rule := "C06-STAGES"
	r.Floor(rule, 10)
	m := newTierModel(w)
	qm := m.quick
	fam := w.Fn("rux", "Router.findAllowedMethods")
	fbF := w.Field("rux", "Router", "handleFallbackRoute")
	naF := w.Field("rux", "Router", "handleMethodNotAllowed")
	interceptF := w.Field("rux", "Router", "interceptAll")
	fp := w.Fn("rux", "Router.formatPath")
	methodP, pathP := ssa.Value(qm.Params[1]), ssa.Value(qm.Params[2])
	headC, _ := constString(w.Const("rux", "HEAD").Value)
	getC, _ := constString(w.Const("rux", "GET").Value)

	stageOf := map[ssa.Instruction]*stage{}
	var stages []*stage
	eachInstr(qm, func(in ssa.Instruction) {
		switch x := in.(type) {
		case *ssa.Call:
			switch staticCallee(x) {
			case m.matchFn:
				a := x.Call.Args
				if a[1] == methodP {
					stageOf[in] = &stage{1, in, "direct match"}
				} else if s, ok := constString(a[1]); ok && s == getC {
					stageOf[in] = &stage{2, in, "HEAD->GET"}
				} else {
					stageOf[in] = &stage{0, in, "match with unexpected method " + a[1].String()}
				}
			case fam:
				stageOf[in] = &stage{4, in, "allowed methods"}
			}
		case *ssa.Lookup:
			if unwrapAddr(x.X).lastField() == m.stable {
				stageOf[in] = &stage{3, in, "fallback route"}
			}
		}
	})
	for _, s := range stageOf {
		stages = append(stages, s)
	}
	seenK := map[int]int{}
	for _, s := range stages {
		seenK[s.k]++
	}
	for k, name := range map[int]string{1: "direct match", 2: "HEAD->GET fallback", 3: "'/*' fallback route", 4: "allowed-method discovery"} {
		r.Check(rule, fmt.Sprintf("(*Router).QuickMatch:stage S%d present", k), qm.Pos(), seenK[k] == 1, fmt.Sprintf("%d site(s) for stage %s", seenK[k], name))
	}
	if seenK[0] > 0 {
		r.Check(rule, "(*Router).QuickMatch:foreign match call", qm.Pos(), false, "a match call with a method that is neither the request's nor GET")
	}

	paths, complete := enumPaths(qm, nil, 8192)
	if !complete {
		r.Undecided(rule, "(*Router).QuickMatch:paths", qm.Pos(), "too many paths")
		return
	}
	bad := map[string]string{}
	note := func(key, msg string) {
		if _, ok := bad[key]; !ok {
			bad[key] = msg
		}
	}
	nChecked := 0
	outcomes := map[string]int{}
	for _, p := range paths {
		nChecked++
		// events in path order
		type ev struct {
			st  *stage
			dec *decision
		}
		var seq []*stage
		for _, b := range p.blocks {
			for _, in := range b.Instrs {
				if s, ok := stageOf[in]; ok {
					seq = append(seq, s)
				}
			}
		}
		last := p.blocks[len(p.blocks)-1]
		ret := last.Instrs[len(last.Instrs)-1].(*ssa.Return)
		rv := func(i int) ssa.Value { return resolvePhi(ret.Results[i], p) }
		decTruth := func(test func(cond ssa.Value) (bool, bool)) (found bool, val bool) {
			for _, d := range p.decs {
				if is, pol := test(d.Cond); is {
					return true, d.Truth == pol
				}
			}
			return false, false
		}
		prevK := 0
		succeeded := 0
		for i, s := range seq {
			if s.k <= prevK {
				note("order", fmt.Sprintf("stage S%d (%s) runs after stage S%d", s.k, s.name, prevK))
			}
			if succeeded != 0 {
				note("after-success", fmt.Sprintf("stage S%d (%s) runs although stage S%d already succeeded", s.k, s.name, succeeded))
			}
			prevK = s.k
			_ = i
			// guards
			switch s.k {
			case 1:
				// path argument: formatPath of the parameter, or of interceptAll when that is set
				arg := resolvePhi(s.in.(*ssa.Call).Call.Args[2], p)
				okArg := false
				if c, ok := arg.(*ssa.Call); ok && staticCallee(c) == fp && c.Call.Args[0] == ssa.Value(qm.Params[0]) {
					src := resolvePhi(c.Call.Args[1], p)
					has, set := decTruth(func(cond ssa.Value) (bool, bool) {
						b, ok := cond.(*ssa.BinOp)
						if !ok || !isLoadOfField(b.X, interceptF) {
							return false, false
						}
						if sv, okc := constString(b.Y); !okc || sv != "" {
							return false, false
						}
						return true, b.Op == token.NEQ
					})
					if has && set {
						okArg = isLoadOfField(src, interceptF)
					} else if has && !set {
						okArg = src == pathP
					} else {
						okArg = src == pathP
					}
				}
				if !okArg {
					note("path", "C06-PATH: the path given to the matcher is not formatPath(request path) / formatPath(interceptAll): with InterceptAll(p) the request is not resolved exactly as a (normalised) request for p")
				}
			case 2:
				has, isHead := decTruth(func(cond ssa.Value) (bool, bool) {
					b, ok := cond.(*ssa.BinOp)
					if !ok || b.X != methodP {
						return false, false
					}
					if sv, okc := constString(b.Y); !okc || sv != headC {
						return false, false
					}
					return true, b.Op == token.EQL
				})
				if !has || !isHead {
					note("guard2", "the GET fallback is not restricted to HEAD requests")
				}
				if s.in.(*ssa.Call).Call.Args[2] != seq[0].in.(*ssa.Call).Call.Args[2] && resolvePhi(s.in.(*ssa.Call).Call.Args[2], p) != resolvePhi(seq[0].in.(*ssa.Call).Call.Args[2], p) {
					note("path2", "the GET fallback matches a different path than the direct match")
				}
			case 3:
				has, on := decTruth(func(cond ssa.Value) (bool, bool) { return boolFieldFact(cond, fbF), true })
				if !has || !on {
					note("guard3", "the '/*' fallback is not guarded by the HandleFallbackRoute option")
				}
				key := s.in.(*ssa.Lookup).Index
				okKey := false
				if b, ok := key.(*ssa.BinOp); ok && b.Op == token.ADD && b.X == methodP {
					if sv, okc := constString(b.Y); okc && sv == "/*" {
						okKey = true
					}
				}
				if !okKey {
					note("key3", "the fallback route is not looked up under method + \"/*\"")
				}
			case 4:
				has, on := decTruth(func(cond ssa.Value) (bool, bool) { return boolFieldFact(cond, naF), true })
				if !has || !on {
					note("guard4", "allowed-method discovery is not guarded by the HandleMethodNotAllowed option")
				}
				c := s.in.(*ssa.Call)
				if c.Call.Args[1] != methodP || resolvePhi(c.Call.Args[2], p) != resolvePhi(seq[0].in.(*ssa.Call).Call.Args[2], p) {
					note("args4", "allowed-method discovery does not use the request's method and the matched path")
				}
			}
			// outcome of this stage on this path
			var found, ok bool
			switch s.k {
			case 1, 2:
				route := extractOf(s.in.(*ssa.Call), 0)
				found, ok = decTruth(func(cond ssa.Value) (bool, bool) { return nonNilTestP(cond, route, p) })
				if found && ok {
					if rv(0) != route || rv(1) != extractOf(s.in.(*ssa.Call), 1) {
						note("ret12", fmt.Sprintf("after stage S%d succeeded the function does not return that stage's route and parameters", s.k))
					}
				}
			case 3:
				okv := extractOf(s.in.(*ssa.Lookup), 1)
				found, ok = decTruth(func(cond ssa.Value) (bool, bool) { return cond == okv, true })
				if found && ok {
					if rv(0) != extractOf(s.in.(*ssa.Lookup), 0) || !isNilConst(rv(1)) {
						note("ret3", "the fallback stage does not return the '/*' route with nil parameters")
					}
				}
			case 4:
				alm := s.in.(*ssa.Call)
				found, ok = decTruth(func(cond ssa.Value) (bool, bool) { return nonEmptyTest(cond, alm) })
				if !found {
					// returning the (possibly empty) list unconditionally is equivalent
					found, ok = true, false
				}
				if rv(2) != ssa.Value(alm) {
					note("ret4", "the allowed set computed by findAllowedMethods is not what QuickMatch returns")
				}
			}
			if !found {
				note("ignored", fmt.Sprintf("the result of stage S%d (%s) is not tested", s.k, s.name))
			}
			if ok {
				succeeded = s.k
				if i != len(seq)-1 {
					note("after-success", fmt.Sprintf("a later stage runs although stage S%d succeeded", s.k))
				}
			}
		}
		if len(seq) == 0 || seq[0].k != 1 {
			note("first", "a path through QuickMatch does not start with the direct match")
		}
		// completeness: a stage that did not run on this path (and that no earlier success made moot)
		// was switched off by its own guard — not by the mere fact that another option is on
		ran := map[int]bool{}
		for _, s := range seq {
			ran[s.k] = true
		}
		for k := 2; k <= 4; k++ {
			if ran[k] || (succeeded != 0 && k > succeeded) {
				continue
			}
			off := false
			switch k {
			case 2:
				has, isHead := decTruth(func(cond ssa.Value) (bool, bool) {
					b, ok := cond.(*ssa.BinOp)
					if !ok || b.X != methodP {
						return false, false
					}
					if sv, okc := constString(b.Y); !okc || sv != headC {
						return false, false
					}
					return true, b.Op == token.EQL
				})
				off = has && !isHead
			case 3:
				has, on := decTruth(func(cond ssa.Value) (bool, bool) { return boolFieldFact(cond, fbF), true })
				off = has && !on
			case 4:
				has, on := decTruth(func(cond ssa.Value) (bool, bool) { return boolFieldFact(cond, naF), true })
				off = has && !on
			}
			if !off {
				note("skipped", fmt.Sprintf("a path ends (outcome S%d) without running stage S%d although nothing on that path says the stage is switched off: e.g. with both fallback options on, a request whose method has no '/*' route never reaches the allowed-method discovery", succeeded, k))
			}
		}
		key := fmt.Sprintf("S%d", succeeded)
		var ks []string
		for _, s := range seq {
			ks = append(ks, fmt.Sprintf("S%d", s.k))
		}
		outcomes[strings.Join(ks, ">")+" => "+key]++
	}
	checks := []struct{ key, good string }{
		{"first", "every path starts with the direct match"},
		{"order", "stages run in the order S1 < S2 < S3 < S4 on every path"},
		{"after-success", "once a stage succeeds no later stage runs"},
		{"ignored", "every stage's result is tested before the next stage"},
		{"skipped", "a stage is left out only when its own guard is off (or an earlier stage already succeeded)"},
		{"guard2", "GET fallback only for HEAD"},
		{"path2", "GET fallback on the same path"},
		{"guard3", "fallback route only under HandleFallbackRoute"},
		{"key3", "fallback route key = method + \"/*\""},
		{"guard4", "allowed-method discovery only under HandleMethodNotAllowed"},
		{"args4", "allowed-method discovery uses the request's method and the same path"},
		{"ret12", "a successful match stage returns its own route and parameters"},
		{"ret3", "fallback returns the '/*' route with nil parameters"},
		{"ret4", "the allowed set returned is the one discovered"},
	}
	for _, c := range checks {
		msg, isBad := bad[c.key]
		if !isBad {
			msg = c.good + fmt.Sprintf(" (%d paths)", nChecked)
		}
		r.Check(rule, "(*Router).QuickMatch:"+c.key, qm.Pos(), !isBad, msg)
	}
	msg, isBad := bad["path"]
	if !isBad {
		msg = "every matcher call receives formatPath(request path), or formatPath(interceptAll) when InterceptAll is set"
	}
	r.Check("C06-PATH", "(*Router).QuickMatch:path argument", qm.Pos(), !isBad, msg)
	r.Floor("C06-PATH", 1)
	var os []string
	for k, v := range outcomes {
		os = append(os, fmt.Sprintf("%s x%d", k, v))
	}
	r.Analysed["quickmatch_path_outcomes"] = os
}

func ruleC06Allow(r *Run) {
	w := r.W
	rule := "C06-ALLOW"
	r.Floor(rule, 5)
	m := newTierModel(w)
	fam := w.Fn("rux", "Router.findAllowedMethods")
	anyM := w.Global("rux", "anyMethods")
	methodP, pathP := ssa.Value(fam.Params[1]), ssa.Value(fam.Params[2])
	calls := callsToFn(fam, m.matchFn)
	r.Check(rule, "(*Router).findAllowedMethods:matcher", fam.Pos(), len(calls) == 1, fmt.Sprintf("%d call(s) of the dispatch matcher (*Router).match", len(calls)))
	if len(calls) != 1 {
		return
	}
	c := calls[0]
	in := c.(ssa.Instruction)
	a := c.Common().Args
	sl, isElem := rangeElemOf(a[1])
	okRange := false
	if isElem {
		if ld, ok := sl.(*ssa.UnOp); ok && ld.Op == token.MUL && ld.X == ssa.Value(anyM) {
			okRange = true
		}
	}
	r.Check(rule, "(*Router).findAllowedMethods:candidates", w.InstrPos(in), okRange, map[bool]string{true: "every supported method (range over anyMethods) is probed", false: "the probed methods are not the elements of a range over anyMethods"}[okRange])
	r.Check(rule, "(*Router).findAllowedMethods:same path", w.InstrPos(in), a[2] == pathP && a[0] == ssa.Value(fam.Params[0]), "membership is decided by the dispatch matcher on the same router and path")
	// skip exactly the request's own method
	skip := factHolds(in, func(cond ssa.Value, truth bool) bool {
		b, ok := cond.(*ssa.BinOp)
		if !ok {
			return false
		}
		if (b.X == a[1] && b.Y == methodP) || (b.Y == a[1] && b.X == methodP) || (canon(b.X) == canon(a[1]) && b.Y == methodP) {
			return (b.Op == token.NEQ && truth) || (b.Op == token.EQL && !truth)
		}
		return false
	})
	r.Check(rule, "(*Router).findAllowedMethods:skip own method", w.InstrPos(in), skip, map[bool]string{true: "the request's own method is never probed (so never listed)", false: "the request's own method can be listed as allowed"}[skip])
	// no other skip condition
	nFacts := 0
	for _, ft := range factsAt(in) {
		c0, _ := stripNot(ft.Cond)
		if b, ok := c0.(*ssa.BinOp); ok && isRangeLoopCond(b) {
			continue
		}
		nFacts++
	}
	r.Check(rule, "(*Router).findAllowedMethods:only that skip", w.InstrPos(in), nFacts <= 1, fmt.Sprintf("%d condition(s) besides the loop guard decide whether a method is probed", nFacts))
	// insertion guarded by the match result, keyed by the probed method
	route := extractOf(c.Value(), 0)
	n := 0
	eachInstr(fam, func(x ssa.Instruction) {
		mu, ok := x.(*ssa.MapUpdate)
		if !ok {
			return
		}
		n++
		okG := factHolds(x, func(cond ssa.Value, truth bool) bool {
			is, pol := nonNilTest(cond, route)
			return is && pol == truth
		})
		okK := canon(mu.Key) == canon(a[1])
		r.Check(rule, fmt.Sprintf("(*Router).findAllowedMethods:member#%d", n), w.InstrPos(x), okG && okK, map[bool]string{true: "a method is recorded iff the matcher found a route for it", false: "a method is recorded without a successful match (or under another key)"}[okG && okK])
	})
	// the returned list contains only keys of that set / recorded methods
	okRet := true
	eachInstr(fam, func(x ssa.Instruction) {
		call, ok := x.(*ssa.Call)
		if !ok || !isBuiltin(call, "append") {
			return
		}
		el := litElems(call.Call.Args[1])
		if len(el) != 1 {
			okRet = false
			return
		}
		ex, isEx := el[0].(*ssa.Extract)
		if isEx {
			if nx, isNext := ex.Tuple.(*ssa.Next); isNext && ex.Index == 1 {
				_ = nx
				return
			}
		}
		if canon(el[0]) == canon(a[1]) {
			// appended directly in the probe loop: must be guarded by the match result
			if factHolds(x, func(cond ssa.Value, truth bool) bool { is, pol := nonNilTest(cond, route); return is && pol == truth }) {
				return
			}
		}
		okRet = false
	})
	r.Check(rule, "(*Router).findAllowedMethods:result", fam.Pos(), okRet && n >= 1, "the returned list holds exactly the recorded methods")
}

func isRangeLoopCond(b *ssa.BinOp) bool {
	return b.Op == token.LSS && isRangeIndex(b.X)
}

func ruleC06Dispatch(r *Run) {
	w := r.W
	rule := "C06-DISPATCH"
	r.Floor(rule, 6)
	m := newChainModel(w)
	tm := newTierModel(w)
	e := &seqEngine{w}
	disp := w.Dispatcher()
	setH := w.Fn("rux", "Context.SetHandlers")
	setFn := w.Fn("rux", "Context.Set")
	qcalls := callsToFn(disp, tm.quick)
	if len(qcalls) != 1 {
		r.Check(rule, "(*Router).handleHTTPRequest:QuickMatch", disp.Pos(), false, fmt.Sprintf("%d QuickMatch calls", len(qcalls)))
		return
	}
	q := qcalls[0].Value()
	route, allowed := extractOf(q, 0), extractOf(q, 2)
	// method argument is the request's method
	methOK := strings.HasSuffix(canon(qcalls[0].Common().Args[1]), ".Req.Method")
	if fs, isReq := w.reqAccess(qcalls[0].Common().Args[1]); isReq && len(fs) == 1 && fs[0] == "Method" {
		methOK = true
	}
	r.Check(rule, "(*Router).handleHTTPRequest:method", w.InstrPos(qcalls[0]), methOK, "routes are matched under the request's own method")
	keyAllowed, _ := constString(w.Const("rux", "CTXAllowedMethods").Value)
	for si, sk := range callsToFn(disp, setH) {
		alts, why := e.at(disp, sk, sk.Common().Args[1])
		if why != "" {
			r.Undecided(rule, "(*Router).handleHTTPRequest:paths", disp.Pos(), why)
			continue
		}
		okAll := true
		detail := ""
		counts := map[string]int{}
		for _, alt := range alts {
			if alt.Val.Unknown != "" {
				okAll, detail = false, alt.Val.Unknown
				break
			}
			kind := "not-found"
			for _, a := range alt.Val.Atoms {
				if a.Field == m.rtHandler || a.Field == m.rtHandlers {
					kind = "route"
				}
				if a.Field == m.rNoAllowed || strings.Contains(a.Name, "internal405Handler") {
					kind = "not-allowed"
				}
			}
			counts[kind]++
			var hasRoute, routeSet, hasAllowed, allowedSet bool
			for _, d := range alt.Path.decs {
				if is, pol := nonNilTest(d.Cond, route); is {
					hasRoute, routeSet = true, d.Truth == pol
				}
				if is, pol := nonEmptyTest(d.Cond, allowed); is {
					hasAllowed, allowedSet = true, d.Truth == pol
				}
			}
			want := "not-found"
			if hasRoute && routeSet {
				want = "route"
			} else if hasAllowed && allowedSet {
				want = "not-allowed"
			}
			if !hasRoute {
				okAll, detail = false, "a path builds the chain without testing whether a route was found"
				break
			}
			if kind != want {
				okAll, detail = false, fmt.Sprintf("outcome '%s' of the match is served by the %s chain", want, kind)
				break
			}
			if kind == "not-allowed" {
				// the allowed set is stored under CTXAllowedMethods before the chain is installed
				stored := false
				for _, b := range alt.Path.blocks {
					for _, in := range b.Instrs {
						if c, ok := in.(*ssa.Call); ok && staticCallee(c) == setFn && len(c.Call.Args) == 3 {
							if k, okc := constString(c.Call.Args[1]); okc && k == keyAllowed {
								v := c.Call.Args[2]
								if mi, isMI := v.(*ssa.MakeInterface); isMI {
									v = mi.X
								}
								if v == allowed {
									stored = true
								}
							}
						}
					}
				}
				if !stored {
					okAll, detail = false, "the not-allowed chain runs without the allowed set stored under CTXAllowedMethods"
					break
				}
			}
		}
		if okAll {
			detail = fmt.Sprintf("route found -> route chain; else allowed set non-empty -> not-allowed chain (set stored first); else not-found chain; paths: %v", counts)
		}
		r.Check(rule, fmt.Sprintf("(*Router).handleHTTPRequest:chain choice#%d", si+1), w.InstrPos(sk), okAll, detail)
	}
	// default handlers
	init := w.SSA[modPath].Func("init")
	var h404, h405 *ssa.Function
	g404, g405 := w.Global("rux", "internal404Handler"), w.Global("rux", "internal405Handler")
	eachInstr(init, func(in ssa.Instruction) {
		if st, ok := in.(*ssa.Store); ok {
			var fn *ssa.Function
			switch v := st.Val.(type) {
			case *ssa.MakeClosure:
				fn = v.Fn.(*ssa.Function)
			case *ssa.Function:
				fn = v
			case *ssa.ChangeType:
				if f2, ok := v.X.(*ssa.Function); ok {
					fn = f2
				} else if mc, ok := v.X.(*ssa.MakeClosure); ok {
					fn = mc.Fn.(*ssa.Function)
				}
			}
			if st.Addr == ssa.Value(g404) {
				h404 = fn
			}
			if st.Addr == ssa.Value(g405) {
				h405 = fn
			}
		}
	})
	if h404 == nil || h405 == nil {
		r.Undecided(rule, "default handlers", token.NoPos, "internal404Handler / internal405Handler initialisers not found")
		return
	}
	nf := callsToName(h404, "net/http.NotFound")
	for _, c := range callsToName(h404, "net/http.Error") {
		// http.NotFound spelled out: http.Error(w, text, 404)
		if code, ok := constInt(c.Common().Args[2]); ok && code == 404 {
			nf = append(nf, c)
		}
	}
	r.Check(rule, "internal404Handler", h404.Pos(), len(nf) == 1, "the default not-found handler answers through http.NotFound (404)")
	// 405: sort before Allow header; 200 iff OPTIONS else 405
	sorts := callsToName(h405, "sort.Strings")
	sortedArg := func(c ssa.CallInstruction) ssa.Value { return c.Common().Args[0] }
	if len(sorts) == 0 {
		// equivalent spellings: slices.Sort(x), sort.Sort(sort.StringSlice(x)), sort.Stable(...)
		for _, c := range callsIn(h405, func(c ssa.CallInstruction) bool {
			n := calleeName(c)
			return n == "sort.Sort" || n == "sort.Stable" || strings.HasPrefix(n, "slices.Sort")
		}) {
			sorts = append(sorts, c)
		}
		sortedArg = func(c ssa.CallInstruction) ssa.Value {
			a := c.Common().Args[0]
			for {
				switch x := a.(type) {
				case *ssa.MakeInterface:
					a = x.X
					continue
				case *ssa.ChangeType:
					a = x.X
					continue
				}
				return a
			}
		}
	}
	var allowSet ssa.Instruction
	allowVal := func(c ssa.CallInstruction) ssa.Value {
		if sc := staticCallee(c); sc != nil && FuncName(sc) == "(*Context).SetHeader" {
			if k, ok := constString(c.Common().Args[1]); ok && k == "Allow" {
				return c.Common().Args[2]
			}
		}
		// the helper written out: c.Resp.Header().Set("Allow", v)
		if calleeName(c) == "(net/http.Header).Set" {
			if k, ok := constString(c.Common().Args[1]); ok && k == "Allow" {
				return c.Common().Args[2]
			}
		}
		return nil
	}
	for _, c := range callsIn(h405, func(c ssa.CallInstruction) bool { return allowVal(c) != nil }) {
		allowSet = c.(ssa.Instruction)
	}
	okSort := allowSet != nil && len(sorts) == 1 && dominates(sorts[0], allowSet)
	r.Check(rule, "internal405Handler:sorted Allow", h405.Pos(), okSort, map[bool]string{true: "the allowed set is sorted before the Allow header is written", false: "Allow header written from an unsorted set (or not written)"}[okSort])
	if okSort {
		// the header value is the joined sorted slice
		jv := allowVal(allowSet.(*ssa.Call))
		okJoin := false
		if jc, ok := jv.(*ssa.Call); ok && calleeName(jc) == "strings.Join" && jc.Call.Args[0] == sortedArg(sorts[0]) {
			okJoin = true
		}
		r.Check(rule, "internal405Handler:Allow value", w.InstrPos(allowSet), okJoin, "Allow = the sorted allowed set, joined")
		// the set comes from the context key
		src := sortedArg(sorts[0])
		okSrc := strings.Contains(canon(src), "_allowedMethods") || func() bool {
			if ta, ok := src.(*ssa.TypeAssert); ok {
				if c, ok := ta.X.(*ssa.Call); ok && len(c.Call.Args) == 2 {
					k, okc := constString(c.Call.Args[1])
					return okc && k == keyAllowed
				}
				// read straight from the context's data map
				if lk, ok := ta.X.(*ssa.Lookup); ok && isLoadOfField(lk.X, w.Field("rux", "Context", "data")) {
					k, okc := constString(lk.Index)
					return okc && k == keyAllowed
				}
			}
			return false
		}()
		r.Check(rule, "internal405Handler:source", w.InstrPos(sorts[0]), okSrc, "the set is the one the dispatcher stored under CTXAllowedMethods")
	}
	optC, _ := constString(w.Const("rux", "OPTIONS").Value)
	isOpt := func(cond ssa.Value, truth bool) bool {
		b, ok := cond.(*ssa.BinOp)
		if !ok || !strings.HasSuffix(canon(b.X), ".Req.Method") {
			return false
		}
		s, okc := constString(b.Y)
		if !okc || s != optC {
			return false
		}
		return (b.Op == token.EQL && truth) || (b.Op == token.NEQ && !truth)
	}
	ok200, ok405 := false, false
	eachInstr(h405, func(in ssa.Instruction) {
		c, ok := in.(*ssa.Call)
		if !ok {
			return
		}
		if sc := staticCallee(c); sc != nil && (FuncName(sc) == "(*Context).SetStatus" || FuncName(sc) == "(*Context).SetStatusCode" || FuncName(sc) == "(*responseWriter).WriteHeader") {
			if v, okc := constInt(c.Call.Args[1]); okc && v == 200 && factHolds(in, isOpt) {
				ok200 = true
			}
		}
		if c.Call.IsInvoke() && c.Call.Method.Name() == "WriteHeader" && isLoadOfField(c.Call.Value, w.Field("rux", "Context", "Resp")) {
			if v, okc := constInt(c.Call.Args[0]); okc && v == 200 && factHolds(in, isOpt) {
				ok200 = true
			}
		}
		if calleeName(c) == "net/http.Error" {
			if v, okc := constInt(c.Call.Args[2]); okc && v == 405 && factHolds(in, func(cd ssa.Value, t bool) bool { return isOpt(cd, !t) }) {
				ok405 = true
			}
		}
	})
	r.Check(rule, "internal405Handler:status", h405.Pos(), ok200 && ok405, map[bool]string{true: "200 iff the request method is OPTIONS, 405 otherwise", false: "the default not-allowed handler does not answer 200 for OPTIONS and 405 otherwise"}[ok200 && ok405])
}

func init() {
	register(&property{
		Meta: propertyMeta{
			ID:          "C06",
			Explanation: "(C06-STAGES) path-sensitive stage automaton over every CFG path of QuickMatch: stages S1 direct match, S2 match(GET) under method == HEAD, S3 stableRoutes[method+\"/*\"] under HandleFallbackRoute, S4 findAllowedMethods under HandleMethodNotAllowed run in that order, each stage's result is tested, a success returns that stage's own values and no later stage runs, each later stage is reachable only through the failure of all earlier ones and only under its option flag. (C06-PATH) every matcher call receives formatPath(request path), or formatPath(interceptAll) when InterceptAll is set. (C06-ALLOW) the allowed set is computed by the dispatch matcher on the same path over a range of anyMethods, skipping exactly the request's method, recording a method iff it matched. (C06-DISPATCH) the dispatcher maps route / non-empty allowed set / nothing to the route, not-allowed (set stored first) and not-found chains on every path; default handlers: http.NotFound; sorted Allow header, 200 iff OPTIONS else 405. A stage that a path skips (and no earlier stage made moot) must have its own option decided off on that path.",
			NotDecided:  []string{"which routes match (C01)", "exact bytes of the Allow header"},
			Assumptions: []string{"option flags are fixed after registration (C13-GATE)"},
		},
		Rules: []ruleFn{{"C06-STAGES", ruleC06Stages}, {"C06-ALLOW", ruleC06Allow}, {"C06-DISPATCH", ruleC06Dispatch}, {"C04-SEQ", ruleC04Seq}, {"C07-KEY", ruleCacheKey("C07-KEY")}, {"C07-NODE", ruleCacheStruct("C07")}},
	})
}
