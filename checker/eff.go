package main

// eff.go — E-EFF: shared vs request-local classification of values and
// addresses (DESIGN 3.2), phases and request-phase reachability.

import (
	"go/token"
	"go/types"
	"strings"

	"golang.org/x/tools/go/ssa"
)

type class int

const (
	cLocal class = iota
	cShared
	cUnknown
)

func (c class) String() string {
	switch c {
	case cLocal:
		return "request-local"
	case cShared:
		return "shared"
	}
	return "unknown"
}

func join(a, b class) class {
	if a == cUnknown || b == cUnknown {
		return cUnknown
	}
	if a == cShared || b == cShared {
		return cShared
	}
	return cLocal
}

type effEngine struct {
	w       *World
	cg      *CallGraph
	callers map[*ssa.Function][]ssa.CallInstruction
	memo    map[ssa.Value]class
	why     map[ssa.Value]string
	active  map[ssa.Value]bool
	// Context fields that may hold a reference into shared memory
	ctxAlias map[*types.Var]string
}

func newEff(w *World, cg *CallGraph) *effEngine {
	e := &effEngine{w: w, cg: cg, callers: map[*ssa.Function][]ssa.CallInstruction{}, memo: map[ssa.Value]class{}, why: map[ssa.Value]string{}, active: map[ssa.Value]bool{}, ctxAlias: map[*types.Var]string{}}
	for _, f := range w.Funcs {
		eachInstr(f, func(in ssa.Instruction) {
			if c, ok := in.(ssa.CallInstruction); ok {
				if sc := staticCallee(c); sc != nil && w.InModule(sc) {
					e.callers[sc] = append(e.callers[sc], c)
				}
			}
		})
	}
	// which Context fields may alias shared memory: any store of a
	// shared-classified reference value into a field of Context
	ctxT := w.Named("rux", "Context")
	for iter := 0; iter < 3; iter++ {
		for _, f := range w.Funcs {
			eachInstr(f, func(in ssa.Instruction) {
				st, ok := in.(*ssa.Store)
				if !ok {
					return
				}
				fa, ok := st.Addr.(*ssa.FieldAddr)
				if !ok || !isNamedPtr(fa.X.Type(), ctxT) {
					return
				}
				if !isRefType(st.Val.Type()) {
					return
				}
				fv := fieldVar(fa.X.Type(), fa.Field)
				if _, done := e.ctxAlias[fv]; done {
					return
				}
				if c, why := e.classify(st.Val); c == cShared {
					e.ctxAlias[fv] = FuncName(f) + ": " + why
					e.memo = map[ssa.Value]class{}
				}
			})
		}
	}
	return e
}

// reqPhaseParent: the enclosing function of a closure itself runs per request
// (then its locals are request-local, e.g. the deferred recover closure of the dispatcher).
func (e *effEngine) reqPhaseParent(f *ssa.Function) bool {
	if f.Signature.Recv() != nil {
		rt := types.TypeString(f.Signature.Recv().Type(), nil)
		if rt == "*"+modPath+".Context" || rt == "*"+modPath+".responseWriter" {
			return true
		}
	}
	switch FuncName(f) {
	case "(*Router).handleHTTPRequest", "(*Router).ServeHTTP", "(*Router).HandleContext", "(*Router).QuickMatch", "(*Router).match", "(*Router).Match":
		return true
	}
	return false
}

func isNamedPtr(t types.Type, n *types.Named) bool {
	if p, ok := t.Underlying().(*types.Pointer); ok {
		t = p.Elem()
	}
	return types.Identical(t, n)
}

func isRefType(t types.Type) bool {
	switch t.Underlying().(type) {
	case *types.Slice, *types.Map, *types.Pointer, *types.Chan, *types.Interface, *types.Signature:
		return true
	}
	return false
}

// sharedByType: values of these types are router-shared wherever they occur.
func (e *effEngine) sharedByType(t types.Type) bool {
	for i := 0; i < 4; i++ {
		switch u := t.(type) {
		case *types.Pointer:
			t = u.Elem()
			continue
		case *types.Slice:
			t = u.Elem()
			continue
		case *types.Map:
			t = u.Elem()
			continue
		case *types.Named:
			if u.Obj().Pkg() != nil && u.Obj().Pkg().Path() == modPath {
				switch u.Obj().Name() {
				case "Router", "Route", "cachedRoutes", "cacheNode":
					return true
				case "routes", "methodRoutes":
					return true
				}
			}
			if _, ok := u.Underlying().(*types.Struct); ok {
				return false
			}
			t = u.Underlying()
			continue
		}
		break
	}
	return false
}

// localByType: per-request objects handed to rux by net/http or created per request.
func (e *effEngine) localByType(t types.Type) bool {
	s := types.TypeString(t, nil)
	switch s {
	case "*github.com/gookit/rux.Context", "*github.com/gookit/rux.responseWriter", "net/http.ResponseWriter", "*net/http.Request",
		"github.com/gookit/rux.Context", "github.com/gookit/rux.responseWriter", "io.Writer", "io.Reader", "io.ReadSeeker",
		"net/http.Header", "net/url.Values", "*net/url.URL", "*mime/multipart.FileHeader":
		return true
	}
	return false
}

// classify returns the class of the memory a reference value may point to
// (for addresses: the memory written by a store through it).
func (e *effEngine) classify(v ssa.Value) (class, string) {
	if v == nil {
		return cLocal, "nil"
	}
	if c, ok := e.memo[v]; ok {
		return c, e.why[v]
	}
	if e.active[v] {
		return cLocal, "cycle"
	}
	e.active[v] = true
	c, why := e.classify1(v)
	delete(e.active, v)
	e.memo[v] = c
	e.why[v] = why
	return c, why
}

func (e *effEngine) classify1(v ssa.Value) (class, string) {
	switch x := v.(type) {
	case *ssa.Const, *ssa.Function, *ssa.Builtin:
		return cLocal, "constant"
	case *ssa.Global:
		if x.Pkg != nil && !(x.Pkg.Pkg.Path() == modPath || strings.HasPrefix(x.Pkg.Pkg.Path(), modPath+"/")) {
			// sentinel values of other packages (io.EOF, http.ErrNotMultipart, ...): library state is not rux's to verify
			return cLocal, "value of another package (" + x.Pkg.Pkg.Path() + "." + x.Name() + ")"
		}
		return cShared, "package variable " + x.Name()
	case *ssa.MakeSlice, *ssa.MakeMap, *ssa.MakeChan, *ssa.MakeClosure:
		return cLocal, "fresh allocation"
	case *ssa.Alloc:
		return cLocal, "local allocation"
	case *ssa.Parameter:
		if e.sharedByType(x.Type()) {
			return cShared, "parameter " + x.Name() + " of router-shared type " + types.TypeString(x.Type(), shortQual)
		}
		if e.localByType(x.Type()) {
			return cLocal, "per-request parameter " + x.Name()
		}
		if !isRefType(x.Type()) {
			return cLocal, "value parameter"
		}
		fn := x.Parent()
		idx := -1
		for i, p := range fn.Params {
			if p == x {
				idx = i
			}
		}
		res := cLocal
		why := "parameter " + x.Name() + " (caller-supplied)"
		for _, call := range e.callers[fn] {
			args := call.Common().Args
			if idx >= 0 && idx < len(args) {
				c, w := e.classify(args[idx])
				if c != cLocal {
					why = "argument at " + e.w.Pos(e.w.InstrPos(call)) + ": " + w
				}
				res = join(res, c)
			}
		}
		return res, why
	case *ssa.FreeVar:
		// a handler-shaped closure built by a registration-time constructor runs once per request,
		// but what it captured exists once: captured state is shared between all requests
		if cl := x.Parent(); cl != nil && isHandlerShaped(cl) && cl.Parent() != nil && !isHandlerShaped(cl.Parent()) && !e.reqPhaseParent(cl.Parent()) {
			return cShared, "variable " + x.Name() + " captured when the handler was constructed (one instance for all requests)"
		}
		if b := freeVarBinding(x); b != nil {
			return e.classify(b)
		}
		if e.sharedByType(x.Type()) {
			return cShared, "captured " + x.Name()
		}
		return cLocal, "captured variable"
	case *ssa.FieldAddr:
		return e.classify(x.X)
	case *ssa.Field:
		if e.sharedByType(x.Type()) {
			return cShared, "field of router-shared type"
		}
		return e.classify(x.X)
	case *ssa.IndexAddr:
		return e.classify(x.X)
	case *ssa.Index:
		if e.sharedByType(x.Type()) {
			return cShared, "element of router-shared type"
		}
		return e.classify(x.X)
	case *ssa.Lookup:
		if e.sharedByType(x.Type()) {
			return cShared, "map element of router-shared type"
		}
		if !isRefType(x.Type()) {
			if t, ok := x.Type().(*types.Tuple); !ok || !isRefType(t.At(0).Type()) {
				return cLocal, "scalar"
			}
		}
		return e.classify(x.X)
	case *ssa.Slice:
		return e.classify(x.X)
	case *ssa.ChangeType:
		return e.classify(x.X)
	case *ssa.ChangeInterface:
		return e.classify(x.X)
	case *ssa.MakeInterface:
		if !isRefType(x.X.Type()) {
			return cLocal, "boxed scalar"
		}
		return e.classify(x.X)
	case *ssa.TypeAssert:
		if e.sharedByType(x.AssertedType) {
			return cShared, "asserted to router-shared type"
		}
		return e.classify(x.X)
	case *ssa.Convert:
		// string <-> []byte conversions copy
		return cLocal, "conversion copies"
	case *ssa.BinOp:
		return cLocal, "computed value"
	case *ssa.Phi:
		res := cLocal
		why := "phi"
		for _, ed := range x.Edges {
			c, w := e.classify(ed)
			if c != cLocal {
				why = w
			}
			res = join(res, c)
		}
		return res, why
	case *ssa.Extract:
		if e.sharedByType(x.Type()) {
			return cShared, "result of router-shared type"
		}
		if call, ok := x.Tuple.(*ssa.Call); ok {
			return e.classifyCall(call, x.Index)
		}
		if !isRefType(x.Type()) {
			return cLocal, "scalar"
		}
		return e.classify(x.Tuple)
	case *ssa.Next:
		return e.classify(x.Iter)
	case *ssa.Range:
		return e.classify(x.X)
	case *ssa.UnOp:
		if x.Op != token.MUL {
			return cLocal, "computed value"
		}
		// load
		if e.sharedByType(x.Type()) {
			return cShared, "loaded value of router-shared type " + types.TypeString(x.Type(), shortQual)
		}
		if !isRefType(x.Type()) {
			if _, isStruct := x.Type().Underlying().(*types.Struct); !isStruct {
				return cLocal, "scalar"
			}
		}
		switch a := x.X.(type) {
		case *ssa.Alloc:
			return e.classifyCell(a)
		case *ssa.FreeVar:
			if b := freeVarBinding(a); b != nil {
				if al, ok := b.(*ssa.Alloc); ok {
					return e.classifyCell(al)
				}
			}
		case *ssa.FieldAddr:
			fv := fieldVar(a.X.Type(), a.Field)
			// a field of an object this function has just allocated and fills field by field (no whole-struct
			// copy into it): the loaded value is whatever this function stored into that field
			if al, fresh := a.X.(*ssa.Alloc); fresh {
				whole := false
				var vals []ssa.Value
				for _, ref := range *al.Referrers() {
					switch y := ref.(type) {
					case *ssa.Store:
						if y.Addr == ssa.Value(al) {
							whole = true
						}
					case *ssa.FieldAddr:
						if y.Field != a.Field {
							continue
						}
						for _, r2 := range *y.Referrers() {
							if st, isSt := r2.(*ssa.Store); isSt && st.Addr == ssa.Value(y) {
								vals = append(vals, st.Val)
							}
						}
					}
				}
				if !whole {
					res := cLocal
					why := "field of an object allocated here (zero or locally stored value)"
					for _, sv := range vals {
						c, w := e.classify(sv)
						if c != cLocal {
							why = w
						}
						res = join(res, c)
					}
					return res, why
				}
			}
			if why, ok := e.ctxAlias[fv]; ok {
				return cShared, "Context." + fv.Name() + " may hold shared memory (" + why + ")"
			}
		}
		return e.classify(x.X)
	case *ssa.Call:
		return e.classifyCall(x, -1)
	}
	return cUnknown, "unrecognised value " + v.String()
}

// classifyCell: a local variable cell; the loaded value is whatever was stored.
func (e *effEngine) classifyCell(a *ssa.Alloc) (class, string) {
	res := cLocal
	why := "local variable"
	visit := func(refs []ssa.Instruction, addr ssa.Value) {
		for _, ref := range refs {
			if st, ok := ref.(*ssa.Store); ok && st.Addr == addr {
				c, w := e.classify(st.Val)
				if c != cLocal {
					why = w
				}
				res = join(res, c)
			}
		}
	}
	visit(*a.Referrers(), a)
	for _, ref := range *a.Referrers() {
		if mc, ok := ref.(*ssa.MakeClosure); ok {
			fn := mc.Fn.(*ssa.Function)
			for i, b := range mc.Bindings {
				if b == a && i < len(fn.FreeVars) {
					visit(*fn.FreeVars[i].Referrers(), fn.FreeVars[i])
				}
			}
		}
	}
	return res, why
}

func shortQual(p *types.Package) string { return p.Name() }

// classifyCall: class of a call result (idx = tuple index, -1 for single).
func (e *effEngine) classifyCall(call *ssa.Call, idx int) (class, string) {
	var rt types.Type = call.Type()
	if t, ok := rt.(*types.Tuple); ok && idx >= 0 && idx < t.Len() {
		rt = t.At(idx).Type()
	}
	if e.sharedByType(rt) {
		return cShared, "result of router-shared type " + types.TypeString(rt, shortQual)
	}
	if !isRefType(rt) {
		if _, isStruct := rt.Underlying().(*types.Struct); !isStruct {
			return cLocal, "scalar result"
		}
	}
	name := calleeName(call)
	if isBuiltin(call, "append") {
		return e.classify(call.Call.Args[0])
	}
	if strings.HasPrefix(name, "builtin ") {
		return cLocal, "builtin"
	}
	switch name {
	case "(*sync.Pool).Get":
		return cLocal, "pooled object (ownership: C03-POOL)"
	case "strings.Split", "strings.SplitN", "strings.Fields", "(*regexp.Regexp).FindAllString", "(*regexp.Regexp).FindAllStringSubmatch",
		"(*regexp.Regexp).FindStringSubmatch", "strings.NewReplacer", "errors.New", "fmt.Errorf", "fmt.Sprintf", "net/http.FileServer",
		"net/http.StripPrefix", "context.WithValue", "(*net/http.Request).WithContext", "(*net/url.URL).Query",
		"github.com/gookit/goutil/netutil/httpreq.ParseAccept", "encoding/json.NewEncoder", "encoding/xml.NewEncoder",
		"encoding/json.NewDecoder", "encoding/xml.NewDecoder", "strings.NewReader", "bytes.NewBuffer",
		"encoding/json.Marshal", "reflect.ValueOf", "time.Now", "io.ReadAll":
		return cLocal, "fresh result of " + name
	}
	if sc := staticCallee(call); sc != nil && e.w.InModule(sc) && sc.Blocks != nil {
		res := cLocal
		why := "result of " + FuncName(sc)
		for _, b := range sc.Blocks {
			if len(b.Instrs) == 0 {
				continue
			}
			ret, ok := b.Instrs[len(b.Instrs)-1].(*ssa.Return)
			if !ok {
				continue
			}
			i := idx
			if i < 0 {
				i = 0
			}
			if i < len(ret.Results) {
				c, w := e.classify(ret.Results[i])
				if c != cLocal {
					why = FuncName(sc) + " returns " + w
				}
				res = join(res, c)
			}
		}
		return res, why
	}
	cc := call.Common()
	if cc.IsInvoke() {
		// interface method result: derived from the receiver
		return e.classify(cc.Value)
	}
	if name == "" {
		return cLocal, "result of a user-supplied function value"
	}
	// external function: result derived from its reference arguments
	res := cLocal
	why := "result of external " + name
	for _, a := range cc.Args {
		if !isRefType(a.Type()) {
			continue
		}
		c, w := e.classify(a)
		if c != cLocal {
			why = name + " applied to " + w
		}
		res = join(res, c)
	}
	return res, why
}

// ---------------------------------------------------------------------------
// phases

type phases struct {
	ReqRoots []*ssa.Function
	RegRoots []*ssa.Function
	Req      map[*ssa.Function]bool
	Reg      map[*ssa.Function]bool
}

func isHandlerShaped(f *ssa.Function) bool {
	sig := f.Signature
	if sig.Recv() != nil || sig.Results().Len() != 0 {
		return false
	}
	ps := sig.Params()
	if ps.Len() == 1 && types.TypeString(ps.At(0).Type(), nil) == "*"+modPath+".Context" {
		return true
	}
	if ps.Len() == 2 && types.TypeString(ps.At(0).Type(), nil) == "net/http.ResponseWriter" && types.TypeString(ps.At(1).Type(), nil) == "*net/http.Request" {
		return true
	}
	return false
}

// configFuncs are package-level configuration entry points of the helper
// packages: they are registration-phase by documentation (one reason each).
var configFuncs = map[string]string{
	"binding.Register":         "registry configuration, called at start-up",
	"binding.Remove":           "registry configuration, called at start-up",
	"binding.DisableValidator": "package setting, called at start-up",
	"binding.ResetValidator":   "package setting, called at start-up",
	"rux.SetGlobalVar":         "pattern variable configuration, registration phase",
	"rux.Debug":                "debug switch, start-up",
}

func (w *World) Phases(cg *CallGraph) *phases {
	p := &phases{}
	rootNames := []string{"Router.ServeHTTP", "Router.HandleContext", "Router.Match", "Router.QuickMatch", "HandlerFunc.ServeHTTP"}
	for _, n := range rootNames {
		p.ReqRoots = append(p.ReqRoots, w.Fn("rux", n))
	}
	for _, f := range w.Funcs {
		if f.Parent() != nil || f.Name() == "init" {
			// closures: handler-shaped ones run per request
			if f.Parent() != nil && isHandlerShaped(f) {
				p.ReqRoots = append(p.ReqRoots, f)
			}
			continue
		}
		recv := f.Signature.Recv()
		pk := f.Pkg.Pkg.Path()
		if recv != nil {
			rt := types.TypeString(recv.Type(), nil)
			switch rt {
			case "*" + modPath + ".Context", "*" + modPath + ".responseWriter":
				if rt == "*"+modPath+".responseWriter" || f.Object() != nil && f.Object().Exported() {
					p.ReqRoots = append(p.ReqRoots, f)
				}
			}
			if strings.HasPrefix(pk, modPath+"/pkg/render") || strings.HasPrefix(pk, modPath+"/pkg/binding") {
				if f.Object() != nil && f.Object().Exported() {
					p.ReqRoots = append(p.ReqRoots, f)
				}
			}
			continue
		}
		short := strings.TrimPrefix(strings.TrimPrefix(pk, modPath+"/pkg/"), modPath)
		if short == "" {
			short = "rux"
		}
		if _, isCfg := configFuncs[short+"."+f.Name()]; isCfg {
			continue
		}
		if (short == "render" || short == "binding") && f.Object() != nil && f.Object().Exported() {
			p.ReqRoots = append(p.ReqRoots, f)
		}
	}
	p.Req = cg.Reach(p.ReqRoots...)

	regNames := []string{"New", "Router.WithOptions", "Router.Add", "Router.AddNamed", "Router.AddRoute", "Router.GET", "Router.HEAD", "Router.POST",
		"Router.PUT", "Router.PATCH", "Router.TRACE", "Router.OPTIONS", "Router.DELETE", "Router.CONNECT", "Router.Any", "Router.Group",
		"Router.Controller", "Router.Resource", "Router.Use", "Router.NotFound", "Router.NotAllowed", "Router.StaticFile", "Router.StaticFunc",
		"Router.StaticFS", "Router.StaticDir", "Router.StaticFiles", "Route.Use", "Route.AttachTo", "Route.NamedTo", "NewRoute", "NewNamedRoute", "NamedRoute"}
	for _, n := range regNames {
		if f := w.FnOpt("rux", n); f != nil {
			p.RegRoots = append(p.RegRoots, f)
		}
	}
	// option functions: package-level funcs / closures of type func(*Router)
	for _, f := range w.Funcs {
		sig := f.Signature
		if sig.Recv() == nil && sig.Params().Len() == 1 && sig.Results().Len() == 0 &&
			types.TypeString(sig.Params().At(0).Type(), nil) == "*"+modPath+".Router" && f.Pkg != nil || (f.Parent() != nil && sig.Params().Len() == 1 && sig.Results().Len() == 0 && types.TypeString(sig.Params().At(0).Type(), nil) == "*"+modPath+".Router") {
			p.RegRoots = append(p.RegRoots, f)
		}
	}
	// registration closures are not handler-shaped; cut handler-shaped closures
	p.Reg = map[*ssa.Function]bool{}
	var walk func(f *ssa.Function)
	walk = func(f *ssa.Function) {
		if f == nil || p.Reg[f] || !w.InModule(f) || f.Blocks == nil {
			return
		}
		if f.Parent() != nil && isHandlerShaped(f) {
			return
		}
		p.Reg[f] = true
		for _, t := range cg.Edges[f] {
			walk(t)
		}
	}
	for _, r := range p.RegRoots {
		walk(r)
	}
	return p
}
