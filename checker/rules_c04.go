package main

// rules_c04.go — C04 (onion order), C05 (abort), C12 (groups).

import (
	"fmt"
	"go/token"
	"go/types"
	"strings"

	"golang.org/x/tools/go/ssa"
)

type chainModel struct {
	w                                       *World
	rHandlers, rGroup, rNoRoute, rNoAllowed *types.Var // Router.*
	rPrefix                                 *types.Var
	rtHandlers, rtHandler                   *types.Var // Route.*
	cHandlers, cIndex                       *types.Var // Context.*
	abortIndex                              int64
}

func newChainModel(w *World) *chainModel {
	m := &chainModel{w: w}
	m.rHandlers = w.Field("rux", "Router", "handlers")
	m.rGroup = w.Field("rux", "Router", "currentGroupHandlers")
	m.rPrefix = w.Field("rux", "Router", "currentGroupPrefix")
	m.rNoRoute = w.Field("rux", "Router", "noRoute")
	m.rNoAllowed = w.Field("rux", "Router", "noAllowed")
	m.rtHandlers = w.Field("rux", "Route", "handlers")
	m.rtHandler = w.Field("rux", "Route", "handler")
	m.cHandlers = w.Field("rux", "Context", "handlers")
	m.cIndex = w.Field("rux", "Context", "index")
	m.abortIndex, _ = constInt(w.Const("rux", "abortIndex").Value)
	return m
}

func isF(a atom, fv *types.Var) bool { return a.Kind == 'F' && a.Field == fv }
func isP(a atom) bool                { return a.Kind == 'P' }

func dropped(v seqVal, fv *types.Var) bool {
	for _, a := range v.Dropped {
		if a.Field == fv {
			return true
		}
	}
	return false
}

// ---------------------------------------------------------------------------
// C04-SEQ

func ruleC04Seq(r *Run) {
	w := r.W
	rule := "C04-SEQ"
	r.Floor(rule, 8)
	m := newChainModel(w)
	e := &seqEngine{w}

	// (1) the request-time chain
	disp := w.Dispatcher()
	setH := w.Fn("rux", "Context.SetHandlers")
	sinks := callsToFn(disp, setH)
	r.Exists(rule, "(*Router).handleHTTPRequest:SetHandlers sinks", disp.Pos(), len(sinks) >= 1, fmt.Sprintf("%d SetHandlers call(s) in the dispatcher", len(sinks)))
	g404 := w.Global("rux", "internal404Handler")
	g405 := w.Global("rux", "internal405Handler")
	// every request runs a chain: no path through the dispatcher answers on its own and returns before the chain
	// (with the global middleware in front) was installed and started — found route, 404 and 405 alike
	{
		nextFn := w.Fn("rux", "Context.Next")
		isNext := func(x ssa.Instruction) bool {
			c, ok := x.(*ssa.Call)
			return ok && staticCallee(c) == nextFn
		}
		isSet := func(x ssa.Instruction) bool {
			c, ok := x.(*ssa.Call)
			return ok && staticCallee(c) == setH
		}
		okSet, badRet := allPathsHit(disp, nil, isSet)
		okNext := false
		if okSet {
			okNext = true
			for _, sk := range sinks {
				if okN, br := allPathsHit(disp, sk, isNext); !okN {
					okNext, badRet = false, br
				}
			}
		}
		pos := disp.Pos()
		if badRet != nil {
			pos = w.InstrPos(badRet)
		}
		r.Check(rule, "(*Router).handleHTTPRequest:every path runs the chain", pos, okSet && okNext, map[bool]string{true: "every normal path through the dispatcher installs a chain and starts it with Next()", false: "a path through the dispatcher returns without installing and starting a handler chain: the request is answered by the dispatcher itself and the global middleware (logging, auth, recovery of the application) does not run for it"}[okSet && okNext])
	}
	for si, sk := range sinks {
		alts, why := e.at(disp, sk, sk.Common().Args[1])
		if why != "" {
			r.Undecided(rule, fmt.Sprintf("(*Router).handleHTTPRequest:SetHandlers#%d", si+1), w.InstrPos(sk), why)
			continue
		}
		kinds := map[string]int{}
		for _, alt := range alts {
			v := alt.Val
			construct := fmt.Sprintf("(*Router).handleHTTPRequest:SetHandlers#%d chain %s", si+1, v.String())
			if v.Unknown != "" {
				r.Undecided(rule, construct, w.InstrPos(sk), v.Unknown)
				continue
			}
			at := v.Atoms
			// global middleware first (or known empty on this path)
			if len(at) > 0 && isF(at[0], m.rHandlers) {
				at = at[1:]
			} else if !dropped(v, m.rHandlers) {
				r.Check(rule, construct, w.InstrPos(sk), false, "the per-request chain does not start with the global middleware read at request time")
				continue
			}
			kind := ""
			switch {
			case len(at) == 2 && isF(at[0], m.rtHandlers) && at[1].Kind == 'E' && at[1].Field == m.rtHandler && at[0].Base == at[1].Base:
				kind = "route"
			case len(at) == 1 && at[0].Kind == 'E' && at[0].Field == m.rtHandler && dropped(v, m.rtHandlers):
				kind = "route"
			case len(at) == 1 && isF(at[0], m.rNoAllowed):
				kind = "not-allowed(custom)"
			case len(at) == 1 && at[0].Kind == 'E' && at[0].Name == canon(loadOfGlobal(g405)) && pathKnowsEmpty(alt.Path, disp, m.rNoAllowed):
				kind = "not-allowed(default)"
			case len(at) == 1 && isF(at[0], m.rNoRoute):
				kind = "not-found(custom)"
			case len(at) == 1 && at[0].Kind == 'E' && at[0].Name == canon(loadOfGlobal(g404)) && pathKnowsEmpty(alt.Path, disp, m.rNoRoute):
				kind = "not-found(default)"
			}
			if kind == "" {
				r.Check(rule, construct, w.InstrPos(sk), false, "chain shape is none of: global ++ route middleware ++ [main handler]; global ++ not-allowed chain; global ++ not-found chain")
				continue
			}
			kinds[strings.SplitN(kind, "(", 2)[0]]++
		}
		for _, k := range []string{"route", "not-allowed", "not-found"} {
			r.Check(rule, fmt.Sprintf("(*Router).handleHTTPRequest:SetHandlers#%d %s chain", si+1, k), w.InstrPos(sk), kinds[k] > 0,
				fmt.Sprintf("%d path(s) build global ++ %s chain in that order (all %d paths to the sink evaluated)", kinds[k], k, len(alts)))
		}
	}

	// (2) registration-time stores into chain-typed fields of Router / Route
	allowedFields := map[*types.Var]string{m.rtHandlers: "Route.handlers", m.rGroup: "Router.currentGroupHandlers", m.rHandlers: "Router.handlers", m.rNoRoute: "Router.noRoute", m.rNoAllowed: "Router.noAllowed"}
	for _, f := range w.Funcs {
		for fv, fname := range allowedFields {
			for i, st := range storesToField(f, fv) {
				base := ""
				for _, lf := range valueLeaves(st.Addr) {
					if fa, ok := lf.(*ssa.FieldAddr); ok && fieldVar(fa.X.Type(), fa.Field) == fv {
						base = canon(fa.X)
					}
				}
				construct := fmt.Sprintf("%s:store %s#%d", FuncName(f), fname, i+1)
				if constructionCopy(st) {
					r.Check(rule, construct, w.InstrPos(st), true, "a new object is initialised with the list of the object it copies (field-wise struct copy)")
					continue
				}
				alts, why := e.at(f, st, st.Val)
				if why != "" {
					r.Undecided(rule, construct, w.InstrPos(st), why)
					continue
				}
				ok := true
				detail := ""
				shapes := distinctSeqs(alts)
				for _, alt := range alts {
					v := alt.Val
					if fa, isFA := resolvePhi(st.Addr, alt.Path).(*ssa.FieldAddr); isFA && fieldVar(fa.X.Type(), fa.Field) != fv {
						continue // on this path the selected address is another field's (checked under that field)
					}
					if v.Unknown != "" {
						// whole-struct copies (copyWithParams, Copy) assign the field through a struct store, not here
						ok, detail = false, "cannot evaluate the stored chain: "+v.Unknown
						break
					}
					good := false
					a := v.Atoms
					switch fv {
					case m.rtHandlers:
						// own ++ new middleware | group ++ own
						good = (len(a) == 2 && isF(a[0], m.rtHandlers) && a[0].Base == base && isP(a[1])) ||
							(len(a) == 2 && isF(a[0], m.rGroup) && isF(a[1], m.rtHandlers) && a[1].Base == base) ||
							(len(a) == 1 && isP(a[0]) && dropped(v, m.rtHandlers)) ||
							(len(a) == 1 && isF(a[0], m.rGroup) && dropped(v, m.rtHandlers))
					case m.rGroup:
						good = (len(a) == 2 && isF(a[0], m.rGroup) && a[0].Base == base && isP(a[1])) ||
							(len(a) == 1 && isF(a[0], m.rGroup) && (a[0].Base == base || f.Parent() != nil)) ||
							(len(a) == 1 && isP(a[0]) && dropped(v, m.rGroup)) ||
							(len(a) == 0 && dropped(v, m.rGroup))
						if !good && len(a) == 1 && isP(a[0]) {
							// `else { cur = middles }` branch of `if len(prev) > 0`: prev is known empty on this path
							good = pathKnowsEmpty(alt.Path, f, m.rGroup)
						}
					case m.rHandlers:
						good = len(a) == 2 && isF(a[0], m.rHandlers) && a[0].Base == base && isP(a[1])
					case m.rNoRoute, m.rNoAllowed:
						good = len(a) == 1 && isP(a[0])
					}
					if !good {
						ok, detail = false, "stored chain "+v.String()+" is not an allowed concatenation for "+fname+" (expected: existing list first, then the new middleware; group list before the route's own)"
						break
					}
				}
				if ok {
					detail = "stored chain: " + strings.Join(shapes, " | ")
				}
				r.Check(rule, construct, w.InstrPos(st), ok, detail)
				// call-site instantiation: where the stored chain ends in a parameter of f ("own ++ new middleware"),
				// what module callers pass for that parameter must be caller-supplied middleware too — not one of the
				// router's own lists (the group list belongs before the route's own middleware, never after it)
				if !ok || fv != m.rtHandlers {
					continue
				}
				for _, alt := range alts {
					a := alt.Val.Atoms
					if len(a) != 2 || !isF(a[0], m.rtHandlers) || !isP(a[1]) {
						continue
					}
					prm, _ := a[1].Val.(*ssa.Parameter)
					k := -1
					for i, q := range f.Params {
						if q == prm {
							k = i
						}
					}
					if k < 0 {
						continue
					}
					for _, g := range w.Funcs {
						for ci, c := range callsToFn(g, f) {
							args := c.Common().Args
							if k >= len(args) {
								continue
							}
							cons := fmt.Sprintf("%s:call %s#%d appended middleware", FuncName(g), FuncName(f), ci+1)
							okC, dC := true, "the appended list is caller-supplied middleware (it does not derive from the router's or a route's own lists)"
							for _, lf := range []*types.Var{m.rGroup, m.rHandlers, m.rtHandlers} {
								lf := lf
								if flowsFromDeep(args[k], func(x ssa.Value) bool { return isLoadOfField(x, lf) }) {
									okC = false
									dC = "the route's list is extended with (a list derived from) " + lf.Name() + " AFTER the route's own middleware: group/global middleware would run inside the route's middleware (expected order: global, groups outer to inner, route, handler)"
								}
							}
							r.Check(rule, cons, w.InstrPos(c.(ssa.Instruction)), okC, dC)
						}
					}
					break
				}
			}
		}
	}
}

func loadOfGlobal(g *ssa.Global) ssa.Value {
	// canonical form of "load of global g": build the same string canon() gives for *g
	return &ssa.UnOp{Op: token.MUL, X: g}
}

// pathKnowsEmpty: some load of field fv (any base) in f is known empty on p.
func pathKnowsEmpty(p *pathCtx, f *ssa.Function, fv *types.Var) bool {
	for _, ld := range loadsOfField(f, fv) {
		if p.knownEmpty(ld) {
			return true
		}
	}
	return false
}

// ---------------------------------------------------------------------------
// C04-CURSOR / C05-NOSKIP

func ruleC04Cursor(r *Run) {
	w := r.W
	rule := "C04-CURSOR"
	r.Floor(rule, 8)
	m := newChainModel(w)
	// (1) writers of Context.index
	initFn := w.Fn("rux", "Context.Init")
	hc := w.Fn("rux", "Router.HandleContext")
	callers := map[*ssa.Function][]*ssa.Function{}
	for _, f := range w.Funcs {
		eachInstr(f, func(in ssa.Instruction) {
			if c, ok := in.(ssa.CallInstruction); ok {
				if sc := staticCallee(c); sc != nil {
					callers[sc] = append(callers[sc], f)
				}
			}
		})
	}
	var execFns []*ssa.Function
	for _, f := range w.Funcs {
		for i, st := range storesToField(f, m.cIndex) {
			construct := fmt.Sprintf("%s:store index#%d", FuncName(f), i+1)
			if c, ok := constInt(st.Val); ok {
				switch {
				case c == m.abortIndex:
					r.Check(rule, construct, w.InstrPos(st), true, "parks the cursor at the sentinel")
				case c == -1:
					// only where a request starts: reset function called only from Init / HandleContext, or the pool constructor
					okW := true
					root := f
					for root.Parent() != nil {
						root = root.Parent()
					}
					if FuncName(root) != "rux.New" {
						for _, cf := range callers[f] {
							if cf != initFn && cf != hc {
								okW = false
							}
						}
						if len(callers[f]) == 0 && f != initFn {
							// exported Reset may be called by users; that is their own request
						}
					}
					r.Check(rule, construct, w.InstrPos(st), okW, map[bool]string{true: "cursor rewound only where a request starts (Init / HandleContext / pool constructor)", false: "cursor rewound inside the request path: handlers can run twice"}[okW])
				default:
					r.Check(rule, construct, w.InstrPos(st), false, fmt.Sprintf("cursor set to constant %d (neither -1, the sentinel, nor an increment)", c))
				}
				continue
			}
			inc := false
			if b, ok := st.Val.(*ssa.BinOp); ok && b.Op == token.ADD && isLoadOfField(b.X, m.cIndex) {
				if c, ok := constInt(b.Y); ok && c == 1 {
					inc = true
				}
			}
			if inc {
				execFns = append(execFns, f)
			}
			r.Check(rule, construct, w.InstrPos(st), inc, map[bool]string{true: "cursor moves forward by one", false: "cursor written with a value that is not index+1: 'at most once, in order' is lost"}[inc])
		}
	}
	// struct copies of a Context (Copy) must re-park the copy: handled in C05-SENTINEL
	// (2) the dynamic call through the handler list
	type hcall struct {
		f  *ssa.Function
		in ssa.CallInstruction
	}
	var hcalls []hcall
	for _, f := range w.Funcs {
		for _, c := range callsIn(f, func(c ssa.CallInstruction) bool {
			cc := c.Common()
			if cc.IsInvoke() || staticCallee(c) != nil {
				return false
			}
			acc := unwrapAddr(cc.Value)
			return acc.hasField(m.cHandlers) && acc.Elem
		}) {
			hcalls = append(hcalls, hcall{f, c})
		}
	}
	r.Check(rule, "handler invocation sites", token.NoPos, len(hcalls) == 1, fmt.Sprintf("%d place(s) invoke an element of Context.handlers (exactly one executor expected)", len(hcalls)))
	for _, h := range hcalls {
		f, in := h.f, h.in.(ssa.Instruction)
		name := FuncName(f)
		isInc := func(x ssa.Instruction) bool {
			st, ok := x.(*ssa.Store)
			if !ok {
				return false
			}
			fa, ok := st.Addr.(*ssa.FieldAddr)
			if !ok || fieldVar(fa.X.Type(), fa.Field) != m.cIndex {
				return false
			}
			b, ok := st.Val.(*ssa.BinOp)
			if !ok || b.Op != token.ADD || !isLoadOfField(b.X, m.cIndex) {
				return false
			}
			c, okc := constInt(b.Y)
			return okc && c == 1
		}
		isCall := func(x ssa.Instruction) bool { return x == in }
		// the invoked element is handlers[index]
		idxOK := false
		switch cv := h.in.Common().Value.(type) {
		case *ssa.UnOp:
			if ia, ok := cv.X.(*ssa.IndexAddr); ok && isLoadOfField(ia.X, m.cHandlers) {
				iv := ia.Index
				if cvt, ok := iv.(*ssa.Convert); ok {
					iv = cvt.X
				}
				idxOK = isLoadOfField(iv, m.cIndex)
			}
		}
		r.Check(rule, name+":invokes handlers[index]", w.InstrPos(in), idxOK, "the executor calls the element at the cursor")
		// the handler receives the same context
		argOK := len(h.in.Common().Args) == 1 && len(f.Params) > 0 && h.in.Common().Args[0] == ssa.Value(f.Params[0])
		r.Check(rule, name+":passes its context", w.InstrPos(in), argOK, "the handler is called with the executor's own context")
		first := pathExists(f, nil, isCall, isInc, nil)
		r.Check(rule, name+":increment before first call", w.InstrPos(in), !first, map[bool]string{true: "every path from entry to the handler call passes index+1", false: "a path reaches the handler call without advancing the cursor (a nested Next() would re-run the current handler)"}[!first])
		again := pathExists(f, in, isCall, isInc, nil)
		r.Check(rule, name+":increment between calls", w.InstrPos(in), !again, map[bool]string{true: "every path from one handler call to the next passes index+1", false: "the loop can call handlers without advancing the cursor"}[!again])
		r.Check(rule, name+":loop", w.InstrPos(in), inLoop(in), map[bool]string{true: "the handler call sits in a loop: a handler that returns is followed by the next one", false: "the handler call is not in a loop: a middleware that returns without calling Next() is not followed by the rest of the chain"}[inLoop(in)])
		// loop guard: index < len(handlers), index re-read after each call
		var guard *ssa.BinOp
		var guardTruth bool
		for _, ft := range factsAt(in) {
			c, pos := stripNot(ft.Cond)
			b, ok := c.(*ssa.BinOp)
			if !ok {
				continue
			}
			truth := ft.True == pos
			if (b.Op == token.LSS && truth || b.Op == token.GEQ && !truth) && isLoadOfField(b.X, m.cIndex) && derivesFromLen(b.Y, m.cHandlers) {
				guard, guardTruth = b, truth
			}
			if (b.Op == token.GTR && truth || b.Op == token.LEQ && !truth) && isLoadOfField(b.Y, m.cIndex) && derivesFromLen(b.X, m.cHandlers) {
				guard, guardTruth = b, truth
			}
		}
		_ = guardTruth
		r.Check(rule, name+":loop guard", w.InstrPos(in), guard != nil, map[bool]string{true: "handler call guarded by index < len(handlers)", false: "no 'index < len(handlers)' guard dominates the handler call"}[guard != nil])
		if guard != nil {
			var ld ssa.Instruction
			if x, ok := guard.X.(ssa.Instruction); ok && isLoadOfField(guard.X, m.cIndex) {
				ld = x
			} else if y, ok := guard.Y.(ssa.Instruction); ok {
				ld = y
			}
			reread := ld != nil && canReach(in, ld) && canReach(ld, in)
			r.Check("C05-NOSKIP", name+":cursor re-read", w.InstrPos(in), reread, map[bool]string{true: "the loop condition re-reads the cursor after every handler call, so Abort() inside a handler ends every enclosing loop", false: "the cursor is hoisted out of the loop: an Abort() inside a handler is not seen by the running loop"}[reread])
			// the only way out of the loop after a handler call is the guard turning false
			cut := func(b *ssa.BasicBlock, si int) bool {
				if len(b.Instrs) == 0 {
					return false
				}
				iff, ok := b.Instrs[len(b.Instrs)-1].(*ssa.If)
				if !ok {
					return false
				}
				c, pos := stripNot(iff.Cond)
				if c != ssa.Value(guard) {
					return false
				}
				// cut the edge on which "index < len" is false
				lessTrueEdge := 0
				if !pos {
					lessTrueEdge = 1
				}
				if guard.Op == token.GEQ || guard.Op == token.LEQ {
					lessTrueEdge = 1 - lessTrueEdge
				}
				return si != lessTrueEdge
			}
			early := pathExists(f, in, isReturnInstr, nil, cut)
			r.Check(rule, name+":no early exit", w.InstrPos(in), !early, map[bool]string{true: "after a handler returns the loop can only end by the guard becoming false", false: "the loop can end after a handler although handlers remain"}[!early])
		}
	}
	r.Floor("C05-NOSKIP", 1)
	ruleC05Outside(r, m, func(in ssa.Instruction) bool {
		for _, h := range hcalls {
			if h.in.(ssa.Instruction) == in {
				return true
			}
		}
		return false
	})
}

// C05-OUTSIDE: the abort cursor is consulted in exactly one place, the executor loop. A handler that the
// request core starts in any other way — a direct call of a func(*Context) value from the dispatcher, one of
// its callers or a function they reach by static calls — runs whether or not the chain was aborted. The only
// dynamic func(*Context) calls allowed there are the executor's own and the OnError / OnPanic hooks (which
// are not part of the chain).
func ruleC05Outside(r *Run, m *chainModel, isExec func(ssa.Instruction) bool) {
	w := r.W
	rule := "C05-OUTSIDE"
	ctxN := w.Named("rux", "Context")
	hooks := []*types.Var{w.Field("rux", "Router", "OnError"), w.Field("rux", "Router", "OnPanic")}
	isHandlerSig := func(t types.Type) bool {
		sg, ok := t.Underlying().(*types.Signature)
		return ok && sg.Recv() == nil && sg.Params().Len() == 1 && sg.Results().Len() == 0 && isNamedPtr(sg.Params().At(0).Type(), ctxN)
	}
	// the request core: entry points and everything they reach by static calls inside the root package,
	// with the closures declared in those functions
	scope := map[*ssa.Function]bool{}
	var add func(f *ssa.Function)
	add = func(f *ssa.Function) {
		if f == nil || scope[f] || f.Blocks == nil || !w.InModule(f) || f.Pkg == nil || f.Pkg != w.Dispatcher().Pkg {
			return
		}
		scope[f] = true
		eachInstr(f, func(in ssa.Instruction) {
			if c, ok := in.(ssa.CallInstruction); ok {
				add(staticCallee(c))
			}
			if mc, ok := in.(*ssa.MakeClosure); ok {
				if g, ok := mc.Fn.(*ssa.Function); ok {
					add(g)
				}
			}
		})
	}
	add(w.Dispatcher())
	add(w.Fn("rux", "Router.ServeHTTP"))
	add(w.Fn("rux", "Router.HandleContext"))
	usedAsValue := func(f *ssa.Function) bool {
		used := false
		for _, g := range w.Funcs {
			eachInstr(g, func(in ssa.Instruction) {
				for _, op := range in.Operands(nil) {
					if *op != ssa.Value(f) {
						continue
					}
					if c, ok := in.(ssa.CallInstruction); ok && c.Common().Value == ssa.Value(f) {
						own := false
						for _, a := range c.Common().Args {
							if a == ssa.Value(f) {
								own = true
							}
						}
						if !own {
							continue
						}
					}
					used = true
				}
			})
		}
		return used
	}
	n := 0
	var fns []*ssa.Function
	for _, f := range w.Funcs {
		if scope[f] {
			fns = append(fns, f)
		}
	}
	for _, f := range fns {
		k := 0
		eachInstr(f, func(in ssa.Instruction) {
			c, ok := in.(ssa.CallInstruction)
			if !ok || c.Common().IsInvoke() {
				return
			}
			cc := c.Common()
			if !isHandlerSig(cc.Value.Type()) {
				return
			}
			if sc := staticCallee(c); sc != nil {
				// a named function or literal called directly: a handler only when it also travels as a value
				if sc.Parent() != nil || !usedAsValue(sc) {
					return
				}
			}
			n++
			k++
			construct := fmt.Sprintf("%s:handler call#%d", FuncName(f), k)
			if isExec(in) {
				r.Check(rule, construct, w.InstrPos(in), true, "the executor loop: guarded by the cursor (C04-CURSOR, C05-NOSKIP)")
				return
			}
			hook := true
			what := ""
			for _, lf := range valueLeaves(cc.Value) {
				okL := false
				for _, hf := range hooks {
					if isLoadOfField(lf, hf) {
						okL = true
					}
				}
				if !okL {
					hook = false
					what = canon(lf)
				}
			}
			r.Check(rule, construct, w.InstrPos(in), hook, map[bool]string{true: "an OnError / OnPanic hook: not a member of the chain", false: "the request core starts a handler (" + what + ") outside the executor loop: the abort cursor is not consulted for it, so it runs after Abort / AbortThen / AbortWithStatus and can replace the status the aborting handler chose"}[hook])
		})
	}
	r.Exists(rule, "handler calls in the request core", token.NoPos, n >= 1, fmt.Sprintf("%d dynamic func(*Context) call(s) in %d function(s) of the request core", n, len(fns)))
}

func derivesFromLen(v ssa.Value, fv *types.Var) bool {
	for i := 0; i < 4; i++ {
		switch x := v.(type) {
		case *ssa.Convert:
			v = x.X
			continue
		case *ssa.ChangeType:
			v = x.X
			continue
		case *ssa.Call:
			return isBuiltin(x, "len") && isLoadOfField(x.Call.Args[0], fv)
		}
		break
	}
	return false
}

// C04-VERBS
func ruleC04Verbs(r *Run) {
	w := r.W
	rule := "C04-VERBS"
	r.Floor(rule, 10)
	use := w.Fn("rux", "Route.Use")
	addRoute := w.Fn("rux", "Router.AddRoute")
	add := w.Fn("rux", "Router.Add")
	for _, n := range []string{"GET", "HEAD", "POST", "PUT", "PATCH", "TRACE", "OPTIONS", "DELETE", "CONNECT", "Any"} {
		f := w.Fn("rux", "Router."+n)
		sig := f.Signature
		if !sig.Variadic() {
			r.Check(rule, FuncName(f), f.Pos(), false, "verb helper lost its variadic middleware parameter")
			continue
		}
		vp := f.Params[len(f.Params)-1]
		uses := callsToFn(f, use)
		ok := len(uses) == 1
		detail := fmt.Sprintf("%d Route.Use call(s)", len(uses))
		if ok {
			u := uses[0]
			args := u.Common().Args
			// middleware argument is exactly the variadic parameter
			if len(args) != 2 || args[1] != ssa.Value(vp) {
				ok, detail = false, "Route.Use does not receive the helper's variadic middleware"
			} else {
				// the route is the one being registered: result of Add(...) or the argument of AddRoute
				route := args[0]
				reg := false
				if c, isCall := route.(*ssa.Call); isCall && (staticCallee(c) == add || staticCallee(c) == addRoute) {
					reg = true
				}
				for _, ar := range callsToFn(f, addRoute) {
					if len(ar.Common().Args) == 2 && ar.Common().Args[1] == route {
						reg = true
					}
				}
				if !reg {
					ok, detail = false, "the route that receives the middleware is not the one registered"
				} else {
					detail = "route middleware = group list ++ variadic (Use on the registered route with the helper's own variadic)"
				}
			}
		}
		r.Check(rule, FuncName(f), f.Pos(), ok, detail)
	}
}

// ---------------------------------------------------------------------------
// C05

func ruleC05Sentinel(r *Run) {
	w := r.W
	rule := "C05-SENTINEL"
	r.Floor(rule, 6)
	m := newChainModel(w)
	aborts := abortFns(w)
	for _, n := range []string{"Abort", "AbortThen", "AbortWithStatus"} {
		f := w.Fn("rux", "Context."+n)
		r.Check(rule, FuncName(f)+":parks", f.Pos(), aborts[f], map[bool]string{true: "stores the sentinel into the cursor on every path", false: "a path returns without parking the cursor at the sentinel"}[aborts[f]])
		// abort does not unwind
		unw := false
		eachInstr(f, func(in ssa.Instruction) {
			if panicsAt(in) {
				unw = true
			}
			if c, ok := in.(ssa.CallInstruction); ok && calleeName(c) == "runtime.Goexit" {
				unw = true
			}
		})
		r.Check("C05-NOSKIP", FuncName(f)+":no unwinding", f.Pos(), !unw, "abort does not panic or exit the goroutine: suspended callers resume")
	}
	// AbortWithStatus: the status is written with the code parameter before Abort
	aws := w.Fn("rux", "Context.AbortWithStatus")
	respF := w.Field("rux", "Context", "Resp")
	code := aws.Params[1]
	isStatusWrite := func(in ssa.Instruction) bool {
		c, ok := in.(*ssa.Call)
		if !ok {
			return false
		}
		cc := c.Common()
		if cc.IsInvoke() && cc.Method.Name() == "WriteHeader" && isLoadOfField(cc.Value, respF) && len(cc.Args) == 1 && cc.Args[0] == ssa.Value(code) {
			return true
		}
		if calleeName(c) == "net/http.Error" && len(cc.Args) == 3 && isLoadOfField(cc.Args[0], respF) && cc.Args[2] == ssa.Value(code) {
			return true
		}
		if sc := staticCallee(c); sc != nil && (FuncName(sc) == "(*Context).SetStatus" || FuncName(sc) == "(*Context).SetStatusCode") && len(cc.Args) == 2 && cc.Args[1] == ssa.Value(code) {
			return true
		}
		return false
	}
	okSW, bad := allPathsHit(aws, nil, isStatusWrite)
	d := "every path records the status given by the caller"
	if !okSW {
		d = "a path reaches return at " + w.Pos(w.InstrPos(bad)) + " without writing the given status"
	}
	r.Check(rule, "(*Context).AbortWithStatus:status", aws.Pos(), okSW, d)
	// IsAborted compares against the same sentinel
	ia := w.Fn("rux", "Context.IsAborted")
	okIA := false
	eachInstr(ia, func(in ssa.Instruction) {
		if ret, ok := in.(*ssa.Return); ok && len(ret.Results) == 1 {
			if b, ok := ret.Results[0].(*ssa.BinOp); ok && isLoadOfField(b.X, m.cIndex) {
				if c, okc := constInt(b.Y); okc && ((b.Op == token.GEQ && c == m.abortIndex) || (b.Op == token.GTR && c == m.abortIndex-1)) {
					okIA = true
				}
			}
		}
	})
	r.Check(rule, "(*Context).IsAborted:compare", ia.Pos(), okIA, map[bool]string{true: "IsAborted() == (index >= abortIndex)", false: "IsAborted does not compare the cursor against the sentinel with >="}[okIA])
	// a copied context is parked
	cp := w.Fn("rux", "Context.Copy")
	okCP := false
	for _, st := range storesToField(cp, m.cIndex) {
		if c, ok := constInt(st.Val); ok && c == m.abortIndex {
			if okAll, _ := allPathsHit(cp, nil, func(x ssa.Instruction) bool { return x == ssa.Instruction(st) }); okAll {
				okCP = true
			}
		}
	}
	if !okCP {
		// parked through one of the abort functions applied to the copy itself
		parkers := abortFns(w)
		retVals := map[ssa.Value]bool{}
		eachInstr(cp, func(in ssa.Instruction) {
			if ret, ok := in.(*ssa.Return); ok && len(ret.Results) == 1 {
				for _, lf := range valueLeaves(ret.Results[0]) {
					retVals[lf] = true
				}
			}
		})
		if okAll, _ := allPathsHit(cp, nil, func(x ssa.Instruction) bool {
			c, ok := x.(*ssa.Call)
			if !ok {
				return false
			}
			sc := staticCallee(c)
			return sc != nil && parkers[sc] && len(c.Call.Args) > 0 && retVals[c.Call.Args[0]]
		}); okAll && len(retVals) > 0 {
			okCP = true
		}
	}
	r.Check(rule, "(*Context).Copy:parked", cp.Pos(), okCP, "a copied context cannot run handlers")
	// one sentinel: the executor's bound and the sentinel leave room: int8 conversion of len(handlers) is safe only under the limit (C05-LIMIT)
}

// limitCheck: does function f contain a comparison that panics when the
// length of the chain stored by `st` reaches the sentinel?
func hasLimitCheck(w *World, m *chainModel, f *ssa.Function, st *ssa.Store, stored seqVal) (bool, string) {
	found := false
	detail := "no comparison of the resulting length against abortIndex that panics"
	for _, b := range f.Blocks {
		if len(b.Instrs) == 0 {
			continue
		}
		iff, ok := b.Instrs[len(b.Instrs)-1].(*ssa.If)
		if !ok {
			continue
		}
		c, pos := stripNot(iff.Cond)
		bo, ok := c.(*ssa.BinOp)
		if !ok {
			continue
		}
		lim, okc := constInt(bo.Y)
		if !okc {
			continue
		}
		// which edge is taken when X >= lim (or stricter)?
		var panicEdge int
		switch {
		case bo.Op == token.GEQ && lim <= m.abortIndex:
			panicEdge = 0
		case bo.Op == token.GTR && lim <= m.abortIndex-1:
			panicEdge = 0
		case bo.Op == token.LSS && lim <= m.abortIndex:
			panicEdge = 1
		case bo.Op == token.LEQ && lim <= m.abortIndex-1:
			panicEdge = 1
		default:
			continue
		}
		if !pos {
			panicEdge = 1 - panicEdge
		}
		// that edge must lead to a panic on all paths
		target := b.Succs[panicEdge]
		allPanic := !pathExists(f, target.Instrs[0], isReturnInstr, nil, nil)
		if _, isRet := target.Instrs[0].(*ssa.Return); isRet {
			allPanic = false
		}
		if !allPanic {
			continue
		}
		// the compared expression is the length of the stored chain
		x := canon(bo.X)
		var lens []string
		for _, a := range stored.Atoms {
			if a.Val != nil && (a.Kind == 'F' || a.Kind == 'P') {
				lens = append(lens, "call builtin len("+canon(a.Val)+")")
			} else {
				lens = append(lens, "1")
			}
		}
		matches := sameSum(x, lens)
		if !matches {
			// len(<load of the stored field>) evaluated after the store
			fa := fieldAddrOf(st)
			fv := fieldVar(fa.X.Type(), fa.Field)
			if call, ok := bo.X.(*ssa.Call); ok && isBuiltin(call, "len") && isLoadOfField(call.Call.Args[0], fv) {
				if ld, ok := call.Call.Args[0].(ssa.Instruction); ok && dominates(st, ld) {
					matches = true
				}
			}
		}
		if !matches {
			continue
		}
		// position: the check dominates the store, or every path from the store passes it
		if dominates(iff, st) {
			found, detail = true, "limit check dominates the store"
		} else if ok, _ := allPathsHit(f, st, func(in ssa.Instruction) bool { return in == ssa.Instruction(iff) }); ok {
			found, detail = true, "every path from the store passes the limit check"
		}
	}
	return found, detail
}

func ruleC05Limit(r *Run)      { c05Limit(r, false) }
func ruleC05LimitRoute(r *Run) { c05Limit(r, true) }

func c05Limit(r *Run, onlyRoute bool) {
	w := r.W
	rule := "C05-LIMIT"
	r.Floor(rule, 2)
	m := newChainModel(w)
	e := &seqEngine{w}
	// every field that contributes a whole list to an executed chain
	fields := []struct {
		fv   *types.Var
		name string
	}{{m.rtHandlers, "Route.handlers"}, {m.rHandlers, "Router.handlers"}, {m.rNoRoute, "Router.noRoute"}, {m.rNoAllowed, "Router.noAllowed"}}
	if onlyRoute {
		fields = fields[:1]
	}
	for _, fd := range fields {
		for _, f := range w.Funcs {
			for i, st := range storesToField(f, fd.fv) {
				if constructionCopy(st) {
					continue // a new object takes over the list of the object it copies: nothing grows
				}
				alts, why := e.at(f, st, st.Val)
				construct := fmt.Sprintf("%s:grow %s#%d", FuncName(f), fd.name, i+1)
				if why != "" || len(alts) == 0 {
					r.Undecided(rule, construct, w.InstrPos(st), "cannot evaluate the stored chain: "+why)
					continue
				}
				ok := true
				detail := ""
				for _, alt := range alts {
					if alt.Val.Unknown != "" {
						ok, detail = false, "cannot evaluate the stored chain: "+alt.Val.Unknown
						break
					}
					if len(alt.Val.Atoms) == 0 {
						continue
					}
					has, d := hasLimitCheck(w, m, f, st, alt.Val)
					if !has {
						ok = false
						detail = "list that becomes part of the executed handler chain grows without a bound: " + d + " (the cursor of a non-aborted request can reach the abort sentinel; IsAborted() turns true and Abort() stops nothing beyond it)"
						break
					}
					detail = d
				}
				r.Check(rule, construct, w.InstrPos(st), ok, detail)
			}
		}
	}
	if onlyRoute {
		return
	}
	// the executed sum global + route + 1 must be covered where it is assembled or by the parts
	disp := w.Dispatcher()
	setH := w.Fn("rux", "Context.SetHandlers")
	for i, sk := range callsToFn(disp, setH) {
		// is there a panic-guard on len(chain) before SetHandlers?
		covered := false
		for _, ft := range factsAt(sk) {
			c, pos := stripNot(ft.Cond)
			bo, ok := c.(*ssa.BinOp)
			if !ok {
				continue
			}
			lim, okc := constInt(bo.Y)
			if !okc {
				continue
			}
			truth := ft.True == pos
			if call, ok := bo.X.(*ssa.Call); ok && isBuiltin(call, "len") && canon(call.Call.Args[0]) == canon(sk.Common().Args[1]) {
				if (bo.Op == token.LSS && truth && lim <= m.abortIndex+1) || (bo.Op == token.GEQ && !truth && lim <= m.abortIndex+1) || (bo.Op == token.LEQ && truth && lim <= m.abortIndex) || (bo.Op == token.GTR && !truth && lim <= m.abortIndex) {
					covered = true
				}
			}
		}
		r.Check(rule, fmt.Sprintf("(*Router).handleHTTPRequest:executed sum#%d", i+1), w.InstrPos(sk), covered,
			map[bool]string{true: "the assembled chain length is checked against the sentinel before it runs", false: "len(global)+len(route middleware)+1 is never compared with abortIndex: e.g. 3 global + 62 route middleware + handler = 66 runs handlers past the sentinel (Abort() in the first one does not stop the last two; IsAborted() is true in handler 64 without abort)"}[covered])
	}
}

// ---------------------------------------------------------------------------
// C12

func ruleC12Bracket(r *Run) {
	w := r.W
	rule := "C12-BRACKET"
	r.Floor(rule, 6)
	m := newChainModel(w)
	grp := w.Fn("rux", "Router.Group")
	// the callback invocation
	var cb ssa.Instruction
	ncb := 0
	eachInstr(grp, func(in ssa.Instruction) {
		if c, ok := in.(*ssa.Call); ok && !c.Call.IsInvoke() && staticCallee(c) == nil {
			if p, ok := c.Call.Value.(*ssa.Parameter); ok && p.Parent() == grp {
				cb = in
				ncb++
			}
		}
	})
	r.Check(rule, "(*Router).Group:callback", grp.Pos(), ncb == 1, fmt.Sprintf("%d invocation(s) of the register callback", ncb))
	if cb == nil {
		return
	}
	for _, fd := range []struct {
		fv   *types.Var
		name string
	}{{m.rPrefix, "currentGroupPrefix"}, {m.rGroup, "currentGroupHandlers"}} {
		stores := storesToField(grp, fd.fv)
		// saved value: a load of the field that no store to it can precede
		isSaved := func(v ssa.Value) bool {
			if !isLoadOfField(v, fd.fv) {
				return false
			}
			ld := v.(ssa.Instruction)
			for _, st := range stores {
				if canReach(st, ld) {
					return false
				}
			}
			return !canReach(cb, ld)
		}
		isRestore := func(in ssa.Instruction) bool {
			st, ok := in.(*ssa.Store)
			if !ok {
				return false
			}
			fa, ok := st.Addr.(*ssa.FieldAddr)
			return ok && fieldVar(fa.X.Type(), fa.Field) == fd.fv && fa.X == ssa.Value(grp.Params[0]) && isSaved(st.Val)
		}
		// restore in a deferred closure installed before the callback: runs on every exit, panics included
		deferredRestore := false
		eachInstr(grp, func(in ssa.Instruction) {
			d, ok := in.(*ssa.Defer)
			if !ok || !dominates(d, cb) {
				return
			}
			mc, ok := d.Call.Value.(*ssa.MakeClosure)
			if !ok {
				return
			}
			cl := mc.Fn.(*ssa.Function)
			for _, st := range storesToField(cl, fd.fv) {
				if canon(fieldAddrOf(st).X) != canon(grp.Params[0]) {
					continue
				}
				if ld, ok := st.Val.(*ssa.UnOp); ok {
					if fvv, ok := ld.X.(*ssa.FreeVar); ok {
						if b := freeVarBinding(fvv); b != nil {
							if cell, ok := b.(*ssa.Alloc); ok {
								if sv := singleStore(cell); sv != nil && isSaved(sv) {
									if okAll, _ := allPathsHit(cl, nil, func(x ssa.Instruction) bool { return x == ssa.Instruction(st) }); okAll {
										deferredRestore = true
									}
								}
							}
						}
					}
				}
			}
		})
		okR, bad := allPathsHit(grp, cb, isRestore)
		if deferredRestore {
			okR = true
		}
		d := "every path from the callback to return restores the value saved on entry"
		if !okR {
			d = "a path from the callback reaches return at " + w.Pos(w.InstrPos(bad)) + " without restoring " + fd.name + " to the value saved on entry (sibling groups and later routes inherit the residue)"
		}
		r.Check(rule, "(*Router).Group:restore "+fd.name, w.InstrPos(cb), okR, d)
		// nothing overwrites it after the restore
		clobber := false
		for _, st := range stores {
			if isRestore(st) {
				for _, st2 := range stores {
					if st2 != st && canReach(st, st2) && !isRestore(st2) {
						clobber = true
					}
				}
			}
		}
		r.Check(rule, "(*Router).Group:no store after restore "+fd.name, w.InstrPos(cb), !clobber, "the restored value is final")
		// the scope is extended before the callback, never after
		late := false
		for _, st := range stores {
			if !isRestore(st) && canReach(cb, st) {
				late = true
			}
		}
		r.Check(rule, "(*Router).Group:extend before callback "+fd.name, w.InstrPos(cb), !late, "the scope is only extended before the callback runs")
	}
	// no other Router field written in Group
	routerT := w.Named("rux", "Router")
	okOnly := true
	what := ""
	eachInstr(grp, func(in ssa.Instruction) {
		if st, ok := in.(*ssa.Store); ok {
			if fa, ok := st.Addr.(*ssa.FieldAddr); ok && isNamedPtr(fa.X.Type(), routerT) {
				fv := fieldVar(fa.X.Type(), fa.Field)
				if fv != m.rPrefix && fv != m.rGroup {
					okOnly, what = false, fv.Name()
				}
			}
		}
	})
	r.Check(rule, "(*Router).Group:writes only the scope", grp.Pos(), okOnly, map[bool]string{true: "Group writes only currentGroupPrefix and currentGroupHandlers", false: "Group also writes Router." + what + ", which is not restored"}[okOnly])
	// who-may-write the two scope fields
	for _, f := range w.Funcs {
		for _, st := range storesToField(f, m.rPrefix) {
			r.Check(rule, FuncName(f)+":writes currentGroupPrefix", w.InstrPos(st), f == grp || f.Parent() == grp, "the group prefix is written only by Group")
		}
		for _, st := range storesToField(f, m.rGroup) {
			okW := f == grp || f.Parent() == grp || f == w.Fn("rux", "Router.Use")
			r.Check(rule, FuncName(f)+":writes currentGroupHandlers", w.InstrPos(st), okW, "the group middleware list is written only by Group and Router.Use")
		}
	}
	// C12-EXTEND: new prefix = saved + formatPath(prefix parameter)
	fp := w.Fn("rux", "Router.formatPath")
	for i, st := range storesToField(grp, m.rPrefix) {
		if canReach(cb, st) {
			continue
		}
		ok := false
		wantPrev := "*&" + canon(grp.Params[0]) + "." + m.rPrefix.Name()
		if b, isB := st.Val.(*ssa.BinOp); isB && b.Op == token.ADD && (isLoadOfField(b.X, m.rPrefix) || canon(b.X) == wantPrev) {
			if c, isC := b.Y.(*ssa.Call); isC && staticCallee(c) == fp && len(c.Call.Args) == 2 && canon(c.Call.Args[0]) == canon(grp.Params[0]) && canon(c.Call.Args[1]) == canon(grp.Params[1]) {
				ok = true
			}
		}
		r.Check("C12-EXTEND", fmt.Sprintf("(*Router).Group:extend prefix#%d", i+1), w.InstrPos(st), ok, map[bool]string{true: "new prefix = previous prefix + formatPath(prefix)", false: "the extended prefix is not 'previous + formatPath(prefix)'"}[ok])
	}
	r.Floor("C12-EXTEND", 1)
}

func ruleC12CopyUse(r *Run) {
	w := r.W
	m := newChainModel(w)
	e := &seqEngine{w}
	// C12-COPY: what appendGroupInfo (or any registration code) stores into route.handlers from the group list is a fresh slice
	r.Floor("C12-COPY", 1)
	n := 0
	for _, f := range w.Funcs {
		for i, st := range storesToField(f, m.rtHandlers) {
			alts, _ := e.at(f, st, st.Val)
			for _, alt := range alts {
				hasGroup := false
				for _, a := range alt.Val.Atoms {
					if isF(a, m.rGroup) {
						hasGroup = true
					}
				}
				if !hasGroup {
					continue
				}
				n++
				r.Check("C12-COPY", fmt.Sprintf("%s:store Route.handlers#%d", FuncName(f), i+1), w.InstrPos(st), alt.Val.Fresh && alt.Val.Unknown == "",
					map[bool]string{true: "the route takes a private copy (fresh backing array) of the group middleware", false: "the route's list shares a backing array with " + alt.Val.AliasOf + ": later Use/Group calls and the restore in Group can change routes already registered"}[alt.Val.Fresh && alt.Val.Unknown == ""])
			}
		}
	}
	// the path is a string (immutable): route.path store takes the formatted path — C11
	// C12-USE
	use := w.Fn("rux", "Router.Use")
	r.Floor("C12-USE", 2)
	prefixNonEmpty := func(cond ssa.Value, truth bool) bool {
		b, ok := cond.(*ssa.BinOp)
		if !ok || !isLoadOfField(b.X, m.rPrefix) {
			return false
		}
		s, okc := constString(b.Y)
		if !okc || s != "" {
			return false
		}
		return (b.Op == token.NEQ && truth) || (b.Op == token.EQL && !truth)
	}
	// the stores of Use, also through a selected field address (target := &r.handlers / &r.currentGroupHandlers)
	ng, nh := 0, 0
	eachInstr(use, func(in ssa.Instruction) {
		st, isSt := in.(*ssa.Store)
		if !isSt {
			return
		}
		phiLeaves(st.Addr, st, func(leaf ssa.Value, fact factOracle) {
			fa, isFA := leaf.(*ssa.FieldAddr)
			if !isFA {
				return
			}
			switch fieldVar(fa.X.Type(), fa.Field) {
			case m.rGroup:
				ng++
				ok := fact(prefixNonEmpty)
				r.Check("C12-USE", fmt.Sprintf("(*Router).Use:group branch#%d", ng), w.InstrPos(st), ok, map[bool]string{true: "the group list is extended only inside a group (prefix != \"\")", false: "Use extends the group list outside a group scope"}[ok])
			case m.rHandlers:
				nh++
				ok := fact(func(c ssa.Value, t bool) bool { return prefixNonEmpty(c, !t) })
				r.Check("C12-USE", fmt.Sprintf("(*Router).Use:global branch#%d", nh), w.InstrPos(st), ok, map[bool]string{true: "the global list is extended only outside a group (prefix == \"\")", false: "Use inside a group leaks into the global middleware list"}[ok])
			}
		})
	})
	// inside every Group callback the scope marker (the prefix) has been extended: Use relies on it
	grpFn := w.Fn("rux", "Router.Group")
	var cbIn ssa.Instruction
	eachInstr(grpFn, func(in ssa.Instruction) {
		if c, ok := in.(*ssa.Call); ok && !c.Call.IsInvoke() && staticCallee(c) == nil {
			if p, ok := c.Call.Value.(*ssa.Parameter); ok && p.Parent() == grpFn {
				cbIn = in
			}
		}
	})
	if cbIn != nil {
		isExtend := func(in ssa.Instruction) bool {
			st, ok := in.(*ssa.Store)
			if !ok {
				return false
			}
			fa, ok := st.Addr.(*ssa.FieldAddr)
			if !ok || fieldVar(fa.X.Type(), fa.Field) != m.rPrefix {
				return false
			}
			// previous + a formatPath result (non-empty by C11-TOTAL's post-condition)
			b, ok := st.Val.(*ssa.BinOp)
			if !ok || b.Op != token.ADD {
				return false
			}
			c, ok := b.Y.(*ssa.Call)
			return ok && staticCallee(c) == w.Fn("rux", "Router.formatPath")
		}
		skip := pathExists(grpFn, nil, func(x ssa.Instruction) bool { return x == cbIn }, isExtend, nil)
		r.Check("C12-USE", "(*Router).Group:prefix extended on every path to the callback", w.InstrPos(cbIn), !skip,
			map[bool]string{true: "the callback always runs with a non-empty group prefix (previous + formatPath(prefix)), which is what Router.Use tests to tell group from global", false: "a path reaches the callback without extending the group prefix (e.g. for a root group): inside it the prefix can be empty, so Router.Use appends to the global list — the middleware runs for every route and before the group's own"}[!skip])
	}
	// C12-VIA
	r.Floor("C12-VIA", 2)
	cg := w.BuildCG()
	appendRoute := w.Fn("rux", "Router.appendRoute")
	grp := w.Fn("rux", "Router.Group")
	for _, n := range []string{"Controller", "Resource"} {
		f := w.Fn("rux", "Router."+n)
		okV := len(callsToFn(f, grp)) == 1
		d := "registers only through Group"
		eachInstr(f, func(in ssa.Instruction) {
			c, ok := in.(ssa.CallInstruction)
			if !ok {
				return
			}
			sc := staticCallee(c)
			if sc == nil || sc == grp {
				if sc == nil && c.Common().IsInvoke() && c.Common().Method.Name() == "AddRoutes" {
					okV, d = false, "controller routes are added outside the Group callback"
				}
				return
			}
			if cg.Reach(sc)[appendRoute] {
				okV, d = false, "calls "+FuncName(sc)+" (which registers routes) outside the function literal passed to Group"
			}
		})
		r.Check("C12-VIA", FuncName(f), f.Pos(), okV, d)
	}
}

func init() {
	register(&property{
		Meta: propertyMeta{
			ID:          "C04",
			Explanation: "(C04-SEQ) path-sensitive sequence-shape evaluation (E-SEQ) of every chain-typed value at its sink: on every path of the dispatcher the argument of SetHandlers is global ++ route middleware ++ [main handler], global ++ not-allowed chain or global ++ not-found chain (defaults only when the configured chain is empty), with the global list read at request time; every store into Route.handlers, Router.currentGroupHandlers, Router.handlers, noRoute, noAllowed is 'existing list, then the new middleware' / 'group list, then the route's own' (combineHandlers is evaluated from its body: make + two copies). (C04-CURSOR) the cursor is written only with -1 where a request starts, the sentinel, or index+1; exactly one place invokes handlers[index], in a loop guarded by index < len(handlers), every path to the call and between two calls passes index+1, and after a handler returns the loop can only end through the guard: each handler at most once, in order, automatically continued. (C04-VERBS) every verb helper attaches its variadic middleware to the route it registers. Every normal path of the dispatcher passes SetHandlers and then Next().",
			NotDecided:  []string{"that code after Next() runs in reverse order (consequence of Go's call stack plus C04-CURSOR; argued)", "response bodies", "behaviour of user handlers that replace the chain through the exported SetHandlers mid-request"},
			Assumptions: []string{"handlers do not call SetHandlers/Reset on their own context mid-chain", "go/ssa lowering of append / composite literals / copy"},
		},
		Rules: []ruleFn{{"C04-SEQ", ruleC04Seq}, {"C04-CURSOR", ruleC04Cursor}, {"C04-VERBS", ruleC04Verbs}, {"C12-USE", ruleC12CopyUse}, {"C06-DISPATCH", ruleC06Dispatch}, {"C07-COPY", ruleC07Copy}},
	})
	register(&property{
		Meta: propertyMeta{
			ID:          "C05",
			Explanation: "(C05-SENTINEL) Abort/AbortThen/AbortWithStatus store the one sentinel constant into the cursor on every path; AbortWithStatus records the caller's status on every path; IsAborted is index >= sentinel; Copy parks the copy. (C05-NOSKIP) the executor's loop condition re-reads the cursor after every handler call, abort functions do not unwind, and (C04-CURSOR) the cursor only moves forward, so a parked cursor ends every enclosing loop while suspended callers resume. (C05-LIMIT) every list that becomes part of an executed chain must be bounded below the sentinel where it grows and the executed sum must be covered. (C05-OUTSIDE) every dynamic func(*Context) call in the request core — dispatcher, ServeHTTP, HandleContext and what they reach by static calls, closures included — is either the executor's call or a call of the Router.OnError / OnPanic field: no handler is started where the abort cursor is not consulted.",
			NotDecided:  []string{"the response status after AbortWithStatus once something was committed (C08's machine plus run-time order)", "user handler behaviour"},
			Assumptions: []string{"handlers do not write the unexported cursor (they cannot: other package)"},
		},
		Rules: []ruleFn{{"C05-SENTINEL", ruleC05Sentinel}, {"C04-CURSOR", ruleC04Cursor}, {"C05-LIMIT", ruleC05Limit}},
	})
	register(&property{
		Meta: propertyMeta{
			ID:          "C12",
			Explanation: "(C12-BRACKET) Group is a save/extend/run/restore bracket on exactly currentGroupPrefix and currentGroupHandlers: the value loaded before any store is stored back on every path from the callback to return, nothing overwrites it afterwards, the scope is extended only before the callback, no other Router field is written, and only Group/Use write the scope fields. (C12-EXTEND) new prefix = previous + formatPath(prefix); new list = previous ++ middles (C04-SEQ shapes). (C12-COPY) the chain stored into a route from the group list is freshly allocated (E-SEQ alias bit through combineHandlers' body), so later Use calls, sibling groups and the restore cannot affect registered routes. (C12-USE) Use extends the group list iff the prefix is non-empty. (C12-VIA) Controller and Resource register only inside the function literal passed to Group. (C12-DERIVED) every Route field whose stored value depends on route.path (regex, start, a fixed-path flag ...) is computed after appendRoute applied the group prefix and normalised the path.",
			NotDecided:  []string{"a panic inside the callback leaves the scope extended (no defer; outside the property's quantifier)", "reachability 'exactly under the concatenated prefixes' as a string fact (C11)"},
			Assumptions: []string{"registration is single-threaded"},
		},
		Rules: []ruleFn{{"C12-BRACKET", ruleC12Bracket}, {"C12-COPY", ruleC12CopyUse}, {"C04-SEQ", ruleC04Seq}, {"C11-SAME", ruleC11Same}, {"C12-DERIVED", ruleC12Derived}},
	})
}
