package main

// ssah.go — SSA helpers shared by all rules: callee resolution, dominance
// and path queries, canonical value form, module call graph.

import (
	"fmt"
	"go/constant"
	"go/token"
	"go/types"
	"sort"
	"strings"

	"golang.org/x/tools/go/ssa"
)

// ---------------------------------------------------------------------------
// iteration

func eachInstr(f *ssa.Function, fn func(ssa.Instruction)) {
	for _, b := range f.Blocks {
		for _, in := range b.Instrs {
			fn(in)
		}
	}
}

// withAnon yields f and all functions nested in it.
func withAnon(f *ssa.Function) []*ssa.Function {
	out := []*ssa.Function{f}
	for _, a := range f.AnonFuncs {
		out = append(out, withAnon(a)...)
	}
	return out
}

func idxIn(in ssa.Instruction) int {
	for i, x := range in.Block().Instrs {
		if x == in {
			return i
		}
	}
	return -1
}

// ---------------------------------------------------------------------------
// calls

// calleeName returns the fully qualified name of the statically known callee
// of a call ("net/http.Error", "(*sync.RWMutex).Lock", "strings.IndexByte"),
// or for interface invokes "invoke <iface>.<method>"; "" for dynamic calls.
func calleeName(c ssa.CallInstruction) string {
	cc := c.Common()
	if cc.IsInvoke() {
		return "invoke " + types.TypeString(cc.Value.Type(), nil) + "." + cc.Method.Name()
	}
	if f := cc.StaticCallee(); f != nil {
		return fullName(f)
	}
	if b, ok := cc.Value.(*ssa.Builtin); ok {
		return "builtin " + b.Name()
	}
	return ""
}

func fullName(f *ssa.Function) string {
	if f == nil {
		return ""
	}
	if o := f.Origin(); o != nil {
		f = o
	}
	return f.String()
}

func staticCallee(c ssa.CallInstruction) *ssa.Function {
	f := c.Common().StaticCallee()
	if f != nil && f.Origin() != nil {
		return f.Origin()
	}
	return f
}

func isBuiltin(c ssa.CallInstruction, name string) bool {
	b, ok := c.Common().Value.(*ssa.Builtin)
	return ok && b.Name() == name
}

// callsIn lists call instructions (call, go, defer) in f matching pred.
func callsIn(f *ssa.Function, pred func(ssa.CallInstruction) bool) []ssa.CallInstruction {
	var out []ssa.CallInstruction
	eachInstr(f, func(in ssa.Instruction) {
		if c, ok := in.(ssa.CallInstruction); ok && pred(c) {
			out = append(out, c)
		}
	})
	return out
}

// callsToFn: plain (not deferred, not go) static calls of callee in f.
func callsToFn(f *ssa.Function, callee *ssa.Function) []ssa.CallInstruction {
	return callsIn(f, func(c ssa.CallInstruction) bool {
		if _, ok := c.(*ssa.Call); !ok {
			return false
		}
		return staticCallee(c) == callee
	})
}

func callsToName(f *ssa.Function, name string) []ssa.CallInstruction {
	return callsIn(f, func(c ssa.CallInstruction) bool { return calleeName(c) == name })
}

// invokeOf: interface method call with given method name.
func isInvoke(c ssa.CallInstruction, method string) bool {
	cc := c.Common()
	return cc.IsInvoke() && cc.Method.Name() == method
}

// callArgs returns the arguments including the receiver as arg 0 for
// static method calls and invokes.
func callArgs(c ssa.CallInstruction) []ssa.Value {
	cc := c.Common()
	if cc.IsInvoke() {
		return append([]ssa.Value{cc.Value}, cc.Args...)
	}
	return cc.Args
}

// ---------------------------------------------------------------------------
// dominance and paths

// dominates reports whether instruction a is executed before b on every
// path from function entry to b.
func dominates(a, b ssa.Instruction) bool {
	if a.Parent() != b.Parent() {
		return false
	}
	ba, bb := a.Block(), b.Block()
	if ba == bb {
		return idxIn(a) < idxIn(b)
	}
	return ba.Dominates(bb)
}

// reachableFrom: the set of blocks reachable from the point just after
// instruction `from` (including from's own block if it can loop back).
func blocksAfter(from ssa.Instruction) map[*ssa.BasicBlock]bool {
	seen := map[*ssa.BasicBlock]bool{}
	var walk func(b *ssa.BasicBlock)
	walk = func(b *ssa.BasicBlock) {
		if seen[b] {
			return
		}
		seen[b] = true
		for _, s := range b.Succs {
			walk(s)
		}
	}
	for _, s := range from.Block().Succs {
		walk(s)
	}
	return seen
}

// canReach reports whether there is a CFG path from just after a to b.
func canReach(a, b ssa.Instruction) bool {
	if a.Parent() != b.Parent() {
		return false
	}
	if a.Block() == b.Block() && idxIn(a) < idxIn(b) {
		return true
	}
	return blocksAfter(a)[b.Block()]
}

// exitKind of a block's terminator.
func isReturn(b *ssa.BasicBlock) bool {
	if len(b.Instrs) == 0 {
		return false
	}
	_, ok := b.Instrs[len(b.Instrs)-1].(*ssa.Return)
	return ok
}

func isPanicBlock(b *ssa.BasicBlock) bool {
	if len(b.Instrs) == 0 {
		return false
	}
	_, ok := b.Instrs[len(b.Instrs)-1].(*ssa.Panic)
	return ok
}

// blockAlwaysPanics: the block ends in panic, or in a call to a function
// known never to return normally (goutil.Panicf, ...), possibly followed by
// an unconditional jump chain that ends in such. Used so that
// "goutil.Panicf(...)" counts as a panic exit.
func neverReturns(c ssa.CallInstruction) bool {
	switch calleeName(c) {
	case "github.com/gookit/goutil.Panicf", "github.com/gookit/goutil.PanicErr", "github.com/gookit/goutil.PanicIfErr",
		"github.com/gookit/goutil.MustOK", "os.Exit", "log.Fatal", "log.Fatalf", "log.Panicf", "log.Panic":
		return calleeName(c) != "github.com/gookit/goutil.PanicErr" && calleeName(c) != "github.com/gookit/goutil.PanicIfErr" && calleeName(c) != "github.com/gookit/goutil.MustOK"
	}
	return false
}

// panicsAt: instruction is an explicit panic or a call to a never-returning
// panic helper.
func panicsAt(in ssa.Instruction) bool {
	if _, ok := in.(*ssa.Panic); ok {
		return true
	}
	if c, ok := in.(ssa.CallInstruction); ok {
		if _, isDefer := in.(*ssa.Defer); isDefer {
			return false
		}
		return neverReturns(c)
	}
	return false
}

// allPathsHit: starting just after `from` (or at function entry when from is
// nil), does every path that reaches a *normal return* pass through an
// instruction satisfying hit? Paths ending in panic are ignored. Returns the
// offending return instruction when not.
func allPathsHit(f *ssa.Function, from ssa.Instruction, hit func(ssa.Instruction) bool) (bool, ssa.Instruction) {
	type key struct {
		b *ssa.BasicBlock
	}
	seen := map[*ssa.BasicBlock]bool{}
	var bad ssa.Instruction
	var scan func(b *ssa.BasicBlock, start int) bool
	scan = func(b *ssa.BasicBlock, start int) bool {
		for i := start; i < len(b.Instrs); i++ {
			in := b.Instrs[i]
			if hit(in) {
				return true
			}
			if panicsAt(in) {
				return true
			}
			if _, ok := in.(*ssa.Return); ok {
				bad = in
				return false
			}
		}
		for _, s := range b.Succs {
			if seen[s] {
				continue
			}
			seen[s] = true
			if !scan(s, 0) {
				return false
			}
		}
		return true
	}
	if from == nil {
		if len(f.Blocks) == 0 {
			return true, nil
		}
		seen[f.Blocks[0]] = true
		ok := scan(f.Blocks[0], 0)
		return ok, bad
	}
	ok := scan(from.Block(), idxIn(from)+1)
	return ok, bad
}

// pathAvoiding: is there a path from just after `from` to `to` that does not
// execute any instruction satisfying avoid?
func pathAvoiding(from, to ssa.Instruction, avoid func(ssa.Instruction) bool) bool {
	seen := map[*ssa.BasicBlock]bool{}
	var scan func(b *ssa.BasicBlock, start int) bool
	scan = func(b *ssa.BasicBlock, start int) bool {
		for i := start; i < len(b.Instrs); i++ {
			in := b.Instrs[i]
			if in == to {
				return true
			}
			if avoid(in) || panicsAt(in) {
				return false
			}
		}
		for _, s := range b.Succs {
			if seen[s] {
				continue
			}
			seen[s] = true
			if scan(s, 0) {
				return true
			}
		}
		return false
	}
	return scan(from.Block(), idxIn(from)+1)
}

// entryPathAvoiding: is there a path from function entry to `to` avoiding
// instructions satisfying avoid?
func entryPathAvoiding(f *ssa.Function, to ssa.Instruction, avoid func(ssa.Instruction) bool) bool {
	seen := map[*ssa.BasicBlock]bool{}
	var scan func(b *ssa.BasicBlock) bool
	scan = func(b *ssa.BasicBlock) bool {
		for _, in := range b.Instrs {
			if in == to {
				return true
			}
			if avoid(in) || panicsAt(in) {
				return false
			}
		}
		for _, s := range b.Succs {
			if seen[s] {
				continue
			}
			seen[s] = true
			if scan(s) {
				return true
			}
		}
		return false
	}
	if len(f.Blocks) == 0 {
		return false
	}
	seen[f.Blocks[0]] = true
	return scan(f.Blocks[0])
}

// edgeDominates: is block target unreachable from entry once the edge
// from->from.Succs[succ] is removed? (Then every path to target takes it.)
func edgeDominates(from *ssa.BasicBlock, succ int, target *ssa.BasicBlock) bool {
	f := from.Parent()
	if len(f.Blocks) == 0 {
		return false
	}
	seen := map[*ssa.BasicBlock]bool{}
	var walk func(b *ssa.BasicBlock)
	walk = func(b *ssa.BasicBlock) {
		if seen[b] {
			return
		}
		seen[b] = true
		for i, s := range b.Succs {
			if b == from && i == succ {
				continue
			}
			walk(s)
		}
	}
	walk(f.Blocks[0])
	if from.Succs[0] == from.Succs[len(from.Succs)-1] && len(from.Succs) == 2 {
		return false
	}
	return !seen[target]
}

// Cond describes a branch fact known at an instruction: value v compared.
type Fact struct {
	If   *ssa.If
	Cond ssa.Value
	True bool // the fact is that Cond is true (else false)
}

// factsAt returns the branch conditions that are decided on every path to
// instruction in (edge-dominance).
func factsAt(in ssa.Instruction) []Fact {
	var out []Fact
	f := in.Parent()
	for _, b := range f.Blocks {
		if len(b.Instrs) == 0 {
			continue
		}
		iff, ok := b.Instrs[len(b.Instrs)-1].(*ssa.If)
		if !ok {
			continue
		}
		if b == in.Block() {
			continue
		}
		if !b.Dominates(in.Block()) {
			continue
		}
		for s := 0; s < 2; s++ {
			if edgeDominates(b, s, in.Block()) {
				out = append(out, Fact{iff, iff.Cond, s == 0})
			}
		}
	}
	return out
}

// ---------------------------------------------------------------------------
// constants

func constString(v ssa.Value) (string, bool) {
	if c, ok := v.(*ssa.Const); ok && c.Value != nil && c.Value.Kind() == constant.String {
		return constant.StringVal(c.Value), true
	}
	return "", false
}

func constInt(v ssa.Value) (int64, bool) {
	if c, ok := v.(*ssa.Const); ok && c.Value != nil && c.Value.Kind() == constant.Int {
		i, ok := constant.Int64Val(c.Value)
		return i, ok
	}
	// conversion of a constant
	switch x := v.(type) {
	case *ssa.Convert:
		return constInt(x.X)
	case *ssa.ChangeType:
		return constInt(x.X)
	}
	return 0, false
}

func isNilConst(v ssa.Value) bool {
	c, ok := v.(*ssa.Const)
	return ok && c.Value == nil
}

// ---------------------------------------------------------------------------
// canonical value form (DESIGN 3.4)

type canonCtx struct {
	depth int
	seen  map[ssa.Value]bool
	pred  map[*ssa.BasicBlock]*ssa.BasicBlock // optional: resolve phis along this path
	subst map[ssa.Value]ssa.Value             // optional: replace these values (parameters by call arguments)
}

// canonSubst renders v (a value of a callee) with the callee's parameters replaced by the
// arguments of one call: the value as the caller sees it.
func canonSubst(v ssa.Value, params []*ssa.Parameter, args []ssa.Value) string {
	sub := map[ssa.Value]ssa.Value{}
	for i, p := range params {
		if i < len(args) {
			sub[p] = args[i]
		}
	}
	return (&canonCtx{seen: map[ssa.Value]bool{}, subst: sub}).c(v)
}

// canonAlong is canon with phis resolved through the predecessors of a path.
func canonAlong(v ssa.Value, pred map[*ssa.BasicBlock]*ssa.BasicBlock) string {
	return (&canonCtx{seen: map[ssa.Value]bool{}, pred: pred}).c(v)
}

// canon renders a value structurally so that two SSA values computed by the
// same expression over the same inputs get the same string (go/ssa does no
// value numbering). Unknown shapes are rendered opaquely with their identity,
// hence unequal to everything else.
func canon(v ssa.Value) string {
	return (&canonCtx{seen: map[ssa.Value]bool{}}).c(v)
}

func (cx *canonCtx) c(v ssa.Value) string {
	if v == nil {
		return "_"
	}
	if cx.depth > 40 || cx.seen[v] {
		return fmt.Sprintf("opaque<%s@%p>", v.Name(), v)
	}
	cx.depth++
	defer func() { cx.depth-- }()
	if cx.subst != nil {
		if rv, ok := cx.subst[v]; ok {
			return canon(rv)
		}
	}
	switch x := v.(type) {
	case *ssa.Parameter:
		return "param:" + x.Name()
	case *ssa.FreeVar:
		// resolve through the enclosing MakeClosure binding
		if b := freeVarBinding(x); b != nil {
			return cx.c(b)
		}
		return "free:" + x.Name()
	case *ssa.Const:
		if x.Value == nil {
			return "nil"
		}
		return x.Value.ExactString()
	case *ssa.Global:
		return "global:" + x.Pkg.Pkg.Path() + "." + x.Name()
	case *ssa.Function:
		return "func:" + x.String()
	case *ssa.Builtin:
		return "builtin:" + x.Name()
	case *ssa.Alloc:
		// a spilled variable with a single store is that value's cell
		if s := singleStore(x); s != nil {
			return "&cell(" + cx.c(s) + ")"
		}
		return fmt.Sprintf("alloc<%s@%s>", x.Comment, posKey(x))
	case *ssa.UnOp:
		if x.Op == token.MUL {
			if a, ok := x.X.(*ssa.Alloc); ok {
				if s := singleStore(a); s != nil {
					return cx.c(s)
				}
			}
			if fv, ok := x.X.(*ssa.FreeVar); ok {
				if b := freeVarBinding(fv); b != nil {
					if a, ok := b.(*ssa.Alloc); ok {
						if s := singleStore(a); s != nil {
							return cx.c(s)
						}
					}
				}
			}
			return "*" + cx.c(x.X)
		}
		return x.Op.String() + "(" + cx.c(x.X) + ")"
	case *ssa.FieldAddr:
		return "&" + cx.c(x.X) + "." + fieldName(x.X.Type(), x.Field)
	case *ssa.Field:
		return cx.c(x.X) + "." + fieldName(x.X.Type(), x.Field)
	case *ssa.IndexAddr:
		return "&" + cx.c(x.X) + "[" + cx.c(x.Index) + "]"
	case *ssa.Index:
		return cx.c(x.X) + "[" + cx.c(x.Index) + "]"
	case *ssa.Lookup:
		return cx.c(x.X) + "[" + cx.c(x.Index) + "]"
	case *ssa.BinOp:
		return "(" + cx.c(x.X) + " " + x.Op.String() + " " + cx.c(x.Y) + ")"
	case *ssa.Slice:
		return "slice(" + cx.c(x.X) + "," + cx.c(x.Low) + "," + cx.c(x.High) + "," + cx.c(x.Max) + ")"
	case *ssa.Extract:
		return fmt.Sprintf("extract%d(%s)", x.Index, cx.c(x.Tuple))
	case *ssa.ChangeType:
		return cx.c(x.X)
	case *ssa.Convert:
		return "conv<" + x.Type().String() + ">(" + cx.c(x.X) + ")"
	case *ssa.MakeInterface:
		return cx.c(x.X)
	case *ssa.ChangeInterface:
		return cx.c(x.X)
	case *ssa.TypeAssert:
		return "assert<" + x.AssertedType.String() + ">(" + cx.c(x.X) + ")"
	case *ssa.Call:
		name := calleeName(x)
		if name == "" {
			return fmt.Sprintf("dyncall<%s>", posKey(x))
		}
		if !pureCallee(name) && !pureModuleFn(staticCallee(x), 0) {
			return fmt.Sprintf("call<%s@%s>", name, posKey(x))
		}
		parts := []string{}
		for _, a := range callArgs(x) {
			parts = append(parts, cx.c(a))
		}
		return "call " + name + "(" + strings.Join(parts, ",") + ")"
	case *ssa.Phi:
		if cx.pred != nil {
			if rv := resolveAlong(x, cx.pred); rv != ssa.Value(x) {
				return cx.c(rv)
			}
		}
		cx.seen[v] = true
		parts := []string{}
		for _, e := range x.Edges {
			parts = append(parts, cx.c(e))
		}
		delete(cx.seen, v)
		sort.Strings(parts)
		uniq := parts[:0]
		for i, p := range parts {
			if i == 0 || p != parts[i-1] {
				uniq = append(uniq, p)
			}
		}
		if len(uniq) == 1 {
			return uniq[0]
		}
		return "phi(" + strings.Join(uniq, "|") + ")"
	case *ssa.MakeClosure:
		return "closure:" + x.Fn.String()
	}
	return fmt.Sprintf("opaque<%T %s@%s>", v, v.Name(), posKey(v))
}

func posKey(v ssa.Value) string {
	if in, ok := v.(ssa.Instruction); ok && in.Block() != nil {
		return fmt.Sprintf("%s#b%di%d", in.Parent().Name(), in.Block().Index, idxIn(in))
	}
	return v.Name()
}

// pureCallee: functions whose result depends only on their arguments (so
// two calls with canonically equal arguments are the same value).
func pureCallee(name string) bool {
	switch name {
	case "strings.IndexByte", "strings.Index", "strings.ToUpper", "strings.ToLower", "strings.TrimSpace",
		"strings.TrimRight", "strings.TrimLeft", "strings.HasPrefix", "strings.HasSuffix", "strings.Contains",
		"strings.Replace", "strings.ReplaceAll", "strings.Join", "strings.Count", "strings.LastIndexByte",
		"strings.TrimPrefix", "strings.TrimSuffix", "strings.LastIndex",
		"builtin len", "builtin cap":
		return true
	}
	// pure helpers of the module (no writes; checked by E-EFF separately)
	switch {
	case strings.HasSuffix(name, "rux.Router).formatPath"), strings.HasSuffix(name, "rux.simpleFmtPath"),
		strings.HasSuffix(name, "rux.quotePointChar"), strings.HasSuffix(name, "rux.isFixedPath"):
		return true
	}
	return false
}

func fieldName(t types.Type, i int) string {
	if p, ok := t.Underlying().(*types.Pointer); ok {
		t = p.Elem()
	}
	if st, ok := t.Underlying().(*types.Struct); ok && i < st.NumFields() {
		return st.Field(i).Name()
	}
	return fmt.Sprintf("f%d", i)
}

func fieldVar(t types.Type, i int) *types.Var {
	if p, ok := t.Underlying().(*types.Pointer); ok {
		t = p.Elem()
	}
	if st, ok := t.Underlying().(*types.Struct); ok && i < st.NumFields() {
		return st.Field(i)
	}
	return nil
}

// singleStore returns the unique value stored into an Alloc cell when the
// cell is only ever stored once (parameter/variable spilled for a closure or
// for address-taking) and never has its address escape to a callee.
func singleStore(a *ssa.Alloc) ssa.Value {
	var stored ssa.Value
	n := 0
	for _, ref := range *a.Referrers() {
		switch r := ref.(type) {
		case *ssa.Store:
			if r.Addr == a {
				stored = r.Val
				n++
			}
		}
	}
	// stores inside closures capturing the cell
	for _, ref := range *a.Referrers() {
		if mc, ok := ref.(*ssa.MakeClosure); ok {
			fn := mc.Fn.(*ssa.Function)
			for i, b := range mc.Bindings {
				if b == a && i < len(fn.FreeVars) {
					for _, r2 := range *fn.FreeVars[i].Referrers() {
						if st, ok := r2.(*ssa.Store); ok && st.Addr == fn.FreeVars[i] {
							n += 2
						}
					}
				}
			}
		}
	}
	if n == 1 {
		return stored
	}
	return nil
}

// freeVarBinding maps a closure's free variable to the value bound in the
// (unique) MakeClosure of the parent.
func freeVarBinding(fv *ssa.FreeVar) ssa.Value {
	fn := fv.Parent()
	parent := fn.Parent()
	if parent == nil {
		return nil
	}
	idx := -1
	for i, x := range fn.FreeVars {
		if x == fv {
			idx = i
		}
	}
	if idx < 0 {
		return nil
	}
	var found ssa.Value
	n := 0
	eachInstr(parent, func(in ssa.Instruction) {
		if mc, ok := in.(*ssa.MakeClosure); ok && mc.Fn == fn && idx < len(mc.Bindings) {
			found = mc.Bindings[idx]
			n++
		}
	})
	if n == 1 {
		return found
	}
	return nil
}

// ---------------------------------------------------------------------------
// address decomposition

// Access describes an address or value as base + path of field objects.
type Access struct {
	Base   ssa.Value    // root value (Parameter, Alloc, Global, Call, ...)
	Fields []*types.Var // struct fields traversed, outermost first
	Elem   bool         // passes through an element (index / map lookup / deref of loaded pointer)
}

// unwrapAddr walks an address (or value) back to its root, collecting fields.
func unwrapAddr(v ssa.Value) Access {
	var acc Access
	var fields []*types.Var
	depth := 0
	for v != nil && depth < 64 {
		depth++
		switch x := v.(type) {
		case *ssa.FieldAddr:
			fields = append(fields, fieldVar(x.X.Type(), x.Field))
			v = x.X
		case *ssa.Field:
			fields = append(fields, fieldVar(x.X.Type(), x.Field))
			v = x.X
		case *ssa.IndexAddr:
			acc.Elem = true
			v = x.X
		case *ssa.Index:
			acc.Elem = true
			v = x.X
		case *ssa.Lookup:
			acc.Elem = true
			v = x.X
		case *ssa.Slice:
			v = x.X
		case *ssa.ChangeType:
			v = x.X
		case *ssa.MakeInterface:
			v = x.X
		case *ssa.ChangeInterface:
			v = x.X
		case *ssa.TypeAssert:
			v = x.X
		case *ssa.Extract:
			v = x.Tuple
		case *ssa.UnOp:
			if x.Op != token.MUL {
				acc.Base = v
				goto done
			}
			// load: through a spilled cell go to the stored value
			if a, ok := x.X.(*ssa.Alloc); ok {
				if s := singleStore(a); s != nil {
					v = s
					continue
				}
			}
			if fv, ok := x.X.(*ssa.FreeVar); ok {
				if b := freeVarBinding(fv); b != nil {
					if a, ok := b.(*ssa.Alloc); ok {
						if s := singleStore(a); s != nil {
							v = s
							continue
						}
					}
					v = b
					continue
				}
			}
			v = x.X
		case *ssa.FreeVar:
			if b := freeVarBinding(x); b != nil {
				v = b
				continue
			}
			acc.Base = v
			goto done
		default:
			acc.Base = v
			goto done
		}
	}
	acc.Base = v
done:
	// reverse to outermost-first
	for i := len(fields) - 1; i >= 0; i-- {
		acc.Fields = append(acc.Fields, fields[i])
	}
	return acc
}

// hasField reports whether the access path goes through field fv.
func (a Access) hasField(fv *types.Var) bool {
	for _, f := range a.Fields {
		if f == fv {
			return true
		}
	}
	return false
}

func (a Access) firstField() *types.Var {
	if len(a.Fields) > 0 {
		return a.Fields[0]
	}
	return nil
}

func (a Access) lastField() *types.Var {
	if len(a.Fields) > 0 {
		return a.Fields[len(a.Fields)-1]
	}
	return nil
}

func (a Access) String() string {
	s := ""
	if a.Base != nil {
		s = a.Base.Name()
	}
	for _, f := range a.Fields {
		if f != nil {
			s += "." + f.Name()
		}
	}
	if a.Elem {
		s += "[]"
	}
	return s
}

// storesToField lists Store instructions in f whose address is a FieldAddr of fv.
func storesToField(f *ssa.Function, fv *types.Var) []*ssa.Store {
	var out []*ssa.Store
	eachInstr(f, func(in ssa.Instruction) {
		if st, ok := in.(*ssa.Store); ok {
			for _, lf := range valueLeaves(st.Addr) {
				if fa, ok := lf.(*ssa.FieldAddr); ok && fieldVar(fa.X.Type(), fa.Field) == fv {
					out = append(out, st)
					break
				}
			}
		}
	})
	return out
}

// valueLeaves expands phis: the non-phi values v can be (v itself when it is not a phi).
func valueLeaves(v ssa.Value) []ssa.Value {
	var out []ssa.Value
	seen := map[ssa.Value]bool{}
	var rec func(v ssa.Value)
	rec = func(v ssa.Value) {
		if seen[v] {
			return
		}
		seen[v] = true
		if ph, ok := v.(*ssa.Phi); ok {
			for _, e := range ph.Edges {
				rec(e)
			}
			return
		}
		out = append(out, v)
	}
	rec(v)
	return out
}

// loadsOfField lists loads (UnOp MUL of FieldAddr fv, or Field fv) in f.
func loadsOfField(f *ssa.Function, fv *types.Var) []ssa.Value {
	var out []ssa.Value
	eachInstr(f, func(in ssa.Instruction) {
		switch x := in.(type) {
		case *ssa.UnOp:
			if x.Op == token.MUL {
				if fa, ok := x.X.(*ssa.FieldAddr); ok && fieldVar(fa.X.Type(), fa.Field) == fv {
					out = append(out, x)
				}
			}
		case *ssa.Field:
			if fieldVar(x.X.Type(), x.Field) == fv {
				out = append(out, x)
			}
		}
	})
	return out
}

// fieldAddrsOf lists every FieldAddr/Field instruction referring to fv in f.
func fieldRefs(f *ssa.Function, fv *types.Var) []ssa.Instruction {
	var out []ssa.Instruction
	eachInstr(f, func(in ssa.Instruction) {
		switch x := in.(type) {
		case *ssa.FieldAddr:
			if fieldVar(x.X.Type(), x.Field) == fv {
				out = append(out, x)
			}
		case *ssa.Field:
			if fieldVar(x.X.Type(), x.Field) == fv {
				out = append(out, x)
			}
		}
	})
	return out
}

// isLoadOfField: v is a load of field fv (of anything).
func isLoadOfField(v ssa.Value, fv *types.Var) bool {
	switch x := v.(type) {
	case *ssa.UnOp:
		if x.Op == token.MUL {
			if fa, ok := x.X.(*ssa.FieldAddr); ok {
				return fieldVar(fa.X.Type(), fa.Field) == fv
			}
		}
	case *ssa.Field:
		return fieldVar(x.X.Type(), x.Field) == fv
	case *ssa.ChangeType:
		return isLoadOfField(x.X, fv)
	}
	return false
}

// ---------------------------------------------------------------------------
// module call graph (static callees + closures + interface dispatch inside
// the module). Dynamic calls through function values are user code and cut.

type CallGraph struct {
	w     *World
	Edges map[*ssa.Function][]*ssa.Function
	// Dyn: dynamic call sites (func-value calls) per function
	Dyn map[*ssa.Function][]ssa.CallInstruction
}

func (w *World) BuildCG() *CallGraph {
	g := &CallGraph{w: w, Edges: map[*ssa.Function][]*ssa.Function{}, Dyn: map[*ssa.Function][]ssa.CallInstruction{}}
	// index of module methods by name for interface dispatch
	byName := map[string][]*ssa.Function{}
	for _, f := range w.Funcs {
		if f.Signature.Recv() != nil {
			byName[f.Name()] = append(byName[f.Name()], f)
		}
	}
	for _, f := range w.Funcs {
		add := func(t *ssa.Function) {
			if t == nil {
				return
			}
			for _, e := range g.Edges[f] {
				if e == t {
					return
				}
			}
			g.Edges[f] = append(g.Edges[f], t)
		}
		eachInstr(f, func(in ssa.Instruction) {
			switch x := in.(type) {
			case *ssa.MakeClosure:
				add(x.Fn.(*ssa.Function))
			case ssa.CallInstruction:
				cc := x.Common()
				if cc.IsInvoke() {
					iface, _ := cc.Value.Type().Underlying().(*types.Interface)
					for _, m := range byName[cc.Method.Name()] {
						rt := m.Signature.Recv().Type()
						if iface != nil && (types.Implements(rt, iface) || types.Implements(types.NewPointer(rt), iface)) {
							add(m)
						}
					}
					return
				}
				if sc := staticCallee(x); sc != nil {
					add(sc)
					return
				}
				if _, ok := cc.Value.(*ssa.Builtin); ok {
					return
				}
				g.Dyn[f] = append(g.Dyn[f], x)
			}
		})
	}
	return g
}

// Reach computes the functions of the module reachable from roots.
func (g *CallGraph) Reach(roots ...*ssa.Function) map[*ssa.Function]bool {
	seen := map[*ssa.Function]bool{}
	var walk func(f *ssa.Function)
	walk = func(f *ssa.Function) {
		if f == nil || seen[f] || !g.w.InModule(f) || f.Blocks == nil {
			return
		}
		seen[f] = true
		for _, t := range g.Edges[f] {
			walk(t)
		}
	}
	for _, r := range roots {
		walk(r)
	}
	return seen
}

// PathTo returns a call path root→…→target for messages.
func (g *CallGraph) PathTo(roots []*ssa.Function, target *ssa.Function) string {
	type item struct {
		f    *ssa.Function
		prev *item
	}
	seen := map[*ssa.Function]bool{}
	var q []*item
	for _, r := range roots {
		q = append(q, &item{r, nil})
		seen[r] = true
	}
	for len(q) > 0 {
		it := q[0]
		q = q[1:]
		if it.f == target {
			var names []string
			for x := it; x != nil; x = x.prev {
				names = append([]string{FuncName(x.f)}, names...)
			}
			return strings.Join(names, " -> ")
		}
		for _, t := range g.Edges[it.f] {
			if !seen[t] {
				seen[t] = true
				q = append(q, &item{t, it})
			}
		}
	}
	return ""
}

func sortedFuncs(m map[*ssa.Function]bool) []*ssa.Function {
	var out []*ssa.Function
	for f := range m {
		out = append(out, f)
	}
	sort.Slice(out, func(i, j int) bool { return FuncName(out[i]) < FuncName(out[j]) })
	return out
}

// ---------------------------------------------------------------------------
// general path search

// pathExists: is there a CFG path starting just after `from` (function entry
// when nil) that reaches an instruction satisfying `to`, never executing an
// instruction satisfying `avoid` first and never taking an edge for which
// cut(block, succIndex) is true? Panicking instructions end a path.
func pathExists(f *ssa.Function, from ssa.Instruction, to, avoid func(ssa.Instruction) bool, cut func(*ssa.BasicBlock, int) bool) bool {
	if len(f.Blocks) == 0 {
		return false
	}
	seen := map[*ssa.BasicBlock]bool{}
	var scan func(b *ssa.BasicBlock, start int) bool
	scan = func(b *ssa.BasicBlock, start int) bool {
		for i := start; i < len(b.Instrs); i++ {
			in := b.Instrs[i]
			if to(in) {
				return true
			}
			if avoid != nil && avoid(in) {
				return false
			}
			if panicsAt(in) {
				return false
			}
		}
		for si, s := range b.Succs {
			if cut != nil && cut(b, si) {
				continue
			}
			if seen[s] {
				continue
			}
			seen[s] = true
			if scan(s, 0) {
				return true
			}
		}
		return false
	}
	if from == nil {
		seen[f.Blocks[0]] = true
		return scan(f.Blocks[0], 0)
	}
	return scan(from.Block(), idxIn(from)+1)
}

func isReturnInstr(in ssa.Instruction) bool { _, ok := in.(*ssa.Return); return ok }

// condInfo normalises a branch condition: strips negations, returns the
// comparison and whether the *true* edge means the comparison holds.
func stripNot(v ssa.Value) (ssa.Value, bool) {
	pos := true
	for {
		if u, ok := v.(*ssa.UnOp); ok && u.Op == token.NOT {
			v = u.X
			pos = !pos
			continue
		}
		return v, pos
	}
}

// ifEdges lists (block, succIndex) edges on which predicate holds(cond, polarity) is satisfied.
func cutEdges(f *ssa.Function, holds func(cond ssa.Value, truth bool) bool) func(*ssa.BasicBlock, int) bool {
	type e struct {
		b *ssa.BasicBlock
		i int
	}
	set := map[e]bool{}
	for _, b := range f.Blocks {
		if len(b.Instrs) == 0 {
			continue
		}
		iff, ok := b.Instrs[len(b.Instrs)-1].(*ssa.If)
		if !ok {
			continue
		}
		c, pos := stripNot(iff.Cond)
		if holds(c, pos) {
			set[e{b, 0}] = true
		}
		if holds(c, !pos) {
			set[e{b, 1}] = true
		}
	}
	return func(b *ssa.BasicBlock, i int) bool { return set[e{b, i}] }
}

// factHolds: is there a dominating branch fact at `in` for which
// holds(cond, truth) is true?
func factHolds(in ssa.Instruction, holds func(cond ssa.Value, truth bool) bool) bool {
	for _, ft := range factsAt(in) {
		c, pos := stripNot(ft.Cond)
		truth := ft.True
		if !pos {
			truth = !truth
		}
		if holds(c, truth) {
			return true
		}
	}
	return pathFactHolds(in, holds)
}

// pathFactHolds is the path-sensitive fallback of factHolds: the fact is not a single
// dominating branch, but every path to the instruction takes some branch that
// establishes it (conditions merged through phis — a || b, an inlined predicate, a
// flag variable — are resolved along each path; branches whose condition folds on
// the path are pruned).
func pathFactHolds(in ssa.Instruction, holds func(cond ssa.Value, truth bool) bool) bool {
	f := in.Parent()
	if f == nil || len(f.Blocks) == 0 || len(f.Blocks) > 400 {
		return false
	}
	paths, complete := enumPaths(f, in, 3000)
	if !complete || len(paths) == 0 {
		return false
	}
	for _, p := range paths {
		ok := false
		for _, d := range p.decs {
			if holds(d.Cond, d.Truth) {
				ok = true
				break
			}
		}
		if !ok {
			return false
		}
	}
	return true
}

// isLoopHeader: the block has a back edge coming in.
func isLoopHeader(b *ssa.BasicBlock) bool {
	for _, p := range b.Preds {
		if b.Dominates(p) {
			return true
		}
	}
	return false
}

// inLoop: can the instruction reach itself again?
func inLoop(in ssa.Instruction) bool {
	return blocksAfter(in)[in.Block()]
}

// resolveSpill: go/ssa spills results into local cells when a function has a
// defer ("defer-spilled returns"). For a load of such a cell, return the value
// of the last store to the cell before the load in the same block (or the
// unique dominating store).
func resolveSpill(v ssa.Value) ssa.Value {
	ld, ok := v.(*ssa.UnOp)
	if !ok || ld.Op != token.MUL {
		return v
	}
	cell, ok := ld.X.(*ssa.Alloc)
	if !ok {
		return v
	}
	b := ld.Block()
	var last ssa.Value
	for _, in := range b.Instrs {
		if in == ssa.Instruction(ld) {
			break
		}
		if st, ok := in.(*ssa.Store); ok && st.Addr == ssa.Value(cell) {
			last = st.Val
		}
	}
	if last != nil {
		return last
	}
	var dom ssa.Value
	n := 0
	for _, ref := range *cell.Referrers() {
		if st, ok := ref.(*ssa.Store); ok && st.Addr == ssa.Value(cell) && dominates(st, ld) {
			dom = st.Val
			n++
		}
	}
	if n == 1 {
		return dom
	}
	return v
}

// isRecoverBlock: the synthetic block go/ssa adds for functions with defers.
func isRecoverBlock(b *ssa.BasicBlock) bool { return b.Parent().Recover == b }

// pureModuleFn: a function of the analysed module whose body only computes
// (no stores except to its own locals, no map updates, no calls other than
// pure ones): two calls with canonically equal arguments yield the same value.
var pureMemo = map[*ssa.Function]bool{}

func pureModuleFn(f *ssa.Function, depth int) bool {
	if f == nil || f.Blocks == nil || depth > 3 {
		return false
	}
	if v, ok := pureMemo[f]; ok {
		return v
	}
	pureMemo[f] = false
	if f.Pkg == nil || !(f.Pkg.Pkg.Path() == modPath || strings.HasPrefix(f.Pkg.Pkg.Path(), modPath+"/")) {
		return false
	}
	pure := true
	eachInstr(f, func(in ssa.Instruction) {
		switch x := in.(type) {
		case *ssa.Store:
			if _, ok := unwrapAddr(x.Addr).Base.(*ssa.Alloc); !ok {
				pure = false
			}
		case *ssa.MapUpdate, *ssa.Send, *ssa.Go, *ssa.Defer, *ssa.Panic, *ssa.MakeClosure:
			pure = false
		case *ssa.Call:
			n := calleeName(x)
			if n == "" || !(pureCallee(n) || strings.HasPrefix(n, "builtin len") || pureModuleFn(staticCallee(x), depth+1)) {
				pure = false
			}
		case *ssa.UnOp:
			if x.Op == token.MUL {
				// reading memory is allowed only from parameters' fields that registration fixed; keep it simple:
				if _, ok := unwrapAddr(x.X).Base.(*ssa.Global); ok {
					pure = false
				}
			}
		}
	})
	pureMemo[f] = pure
	return pure
}

// lowerBoundFact: the branch fact (cond, truth) implies v >= the returned constant.
func lowerBoundFact(cond ssa.Value, truth bool, v ssa.Value) (int64, bool) {
	b, ok := cond.(*ssa.BinOp)
	if !ok {
		return 0, false
	}
	op := b.Op
	var cv ssa.Value
	if b.X == v {
		cv = b.Y
	} else if b.Y == v {
		cv = b.X
		op = flipOp(op)
	} else {
		return 0, false
	}
	c, okc := constInt(cv)
	if !okc {
		return 0, false
	}
	if !truth {
		op = negOp(op)
	}
	switch op {
	case token.GTR:
		return c + 1, true
	case token.GEQ, token.EQL:
		return c, true
	}
	return 0, false
}

// flowsFromConstInt: an integer constant c occurs among the values v is computed from.
func flowsFromConstInt(v ssa.Value, c int64) bool {
	return flowsFrom(v, func(x ssa.Value) bool {
		k, ok := constInt(x)
		return ok && k == c
	})
}

// loopNest returns, for every block, the set of natural-loop headers whose loop contains it.
func loopNest(f *ssa.Function) map[*ssa.BasicBlock]map[*ssa.BasicBlock]bool {
	out := map[*ssa.BasicBlock]map[*ssa.BasicBlock]bool{}
	for _, b := range f.Blocks {
		out[b] = map[*ssa.BasicBlock]bool{}
	}
	for _, t := range f.Blocks {
		for _, h := range t.Succs {
			if !h.Dominates(t) {
				continue
			}
			// natural loop of back edge t->h
			body := map[*ssa.BasicBlock]bool{h: true}
			var stack []*ssa.BasicBlock
			if !body[t] {
				body[t] = true
				stack = append(stack, t)
			}
			for len(stack) > 0 {
				x := stack[len(stack)-1]
				stack = stack[:len(stack)-1]
				for _, p := range x.Preds {
					if !body[p] {
						body[p] = true
						stack = append(stack, p)
					}
				}
			}
			for b := range body {
				out[b][h] = true
			}
		}
	}
	return out
}

// pairedPerExecution: every execution of b is preceded, in the same iteration of
// every enclosing loop, by an execution of a (a dominates b and both sit in the
// same loop nest).
func pairedPerExecution(a, b ssa.Instruction) bool {
	if a.Parent() != b.Parent() || !dominates(a, b) {
		return false
	}
	ln := loopNest(a.Parent())
	la, lb := ln[a.Block()], ln[b.Block()]
	if len(la) != len(lb) {
		return false
	}
	for h := range la {
		if !lb[h] {
			return false
		}
	}
	return true
}

// factOracle answers whether a branch fact holds where a value flows in.
type factOracle func(holds func(cond ssa.Value, truth bool) bool) bool

// phiLeaves calls fn for every non-phi value that v can be at instruction at,
// with a fact oracle valid for that alternative: the facts at the end of the
// predecessor the value comes in from, plus that predecessor's own branch
// decision towards the join.
func phiLeaves(v ssa.Value, at ssa.Instruction, fn func(leaf ssa.Value, fact factOracle)) {
	phiLeavesA(v, at, func(leaf ssa.Value, fact factOracle, _ []ssa.Value) { fn(leaf, fact) })
}

// phiLeavesA also passes the merges the leaf flows through on its way to v (a fact
// stated about one of them at the use holds for the leaf on that alternative).
func phiLeavesA(v ssa.Value, at ssa.Instruction, fn func(leaf ssa.Value, fact factOracle, aliases []ssa.Value)) {
	at0 := at
	seen := map[*ssa.Phi]bool{}
	var chain []ssa.Value
	var rec func(v ssa.Value, at ssa.Instruction, extra []Fact)
	rec = func(v ssa.Value, at ssa.Instruction, extra []Fact) {
		ph, ok := v.(*ssa.Phi)
		if !ok || seen[ph] {
			fn(v, func(holds func(cond ssa.Value, truth bool) bool) bool {
				for _, e := range extra {
					if holds(e.Cond, e.True) {
						return true
					}
				}
				return factHolds(at, holds) || (at0 != at && factHolds(at0, holds))
			}, append([]ssa.Value(nil), chain...))
			return
		}
		chain = append(chain, ph)
		defer func() { chain = chain[:len(chain)-1] }()
		seen[ph] = true
		b := ph.Block()
		for i, e := range ph.Edges {
			if i >= len(b.Preds) || len(b.Preds[i].Instrs) == 0 {
				rec(e, at, extra)
				continue
			}
			pb := b.Preds[i]
			term := pb.Instrs[len(pb.Instrs)-1]
			var ex []Fact
			if iff, isIf := term.(*ssa.If); isIf && len(pb.Succs) == 2 && pb.Succs[0] != pb.Succs[1] {
				c, pos := stripNot(iff.Cond)
				ex = []Fact{{iff, c, (pb.Succs[0] == b) == pos}}
			}
			// the decisions of the outer merges stay true for this alternative: it flows through all of them
			rec(e, term, append(append([]Fact(nil), extra...), ex...))
		}
		seen[ph] = false
	}
	rec(v, at, nil)
}

// fieldAddrOf: the field address a store writes through (the first one when the
// address is selected among several by a phi).
func fieldAddrOf(st *ssa.Store) *ssa.FieldAddr {
	for _, lf := range valueLeaves(st.Addr) {
		if fa, ok := lf.(*ssa.FieldAddr); ok {
			return fa
		}
	}
	panic("store does not write through a field address")
}

// allPathsTo: pred holds on every (acyclic, feasible) path from the function entry to the instruction.
func allPathsTo(in ssa.Instruction, pred func(p *pathCtx) bool) bool {
	f := in.Parent()
	if f == nil || len(f.Blocks) == 0 || len(f.Blocks) > 400 {
		return false
	}
	paths, complete := enumPaths(f, in, 3000)
	if !complete || len(paths) == 0 {
		return false
	}
	for _, p := range paths {
		if !pred(p) {
			return false
		}
	}
	return true
}

// constructionCopy: the store initialises a field of an object that this function has just
// allocated (composite literal / new) with the value of the same field of another object of
// the same type — the field-wise spelling of a struct copy. Such a store creates no new
// writer of existing state.
func constructionCopy(st *ssa.Store) bool {
	dst := unwrapAddr(st.Addr)
	if _, fresh := dst.Base.(*ssa.Alloc); !fresh || len(dst.Fields) == 0 || dst.Elem {
		return false
	}
	ld, ok := st.Val.(*ssa.UnOp)
	if !ok || ld.Op != token.MUL {
		return false
	}
	src := unwrapAddr(ld.X)
	if _, alsoFresh := src.Base.(*ssa.Alloc); alsoFresh || src.Elem || len(src.Fields) != len(dst.Fields) {
		return false
	}
	for i := range src.Fields {
		if src.Fields[i] != dst.Fields[i] {
			return false
		}
	}
	return true
}

// underConstruction: the store writes a field of an object this function has just allocated.
func underConstruction(st *ssa.Store) bool {
	dst := unwrapAddr(st.Addr)
	_, fresh := dst.Base.(*ssa.Alloc)
	return fresh && len(dst.Fields) > 0 && !dst.Elem
}
