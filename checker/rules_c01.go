package main

// rules_c01.go — C01 (route selection) and C02 (path parameters).

import (
	"fmt"
	"go/ast"
	"go/constant"
	"go/token"
	"go/types"
	"regexp"
	"regexp/syntax"
	"strings"

	"golang.org/x/tools/go/ast/astutil"
	"golang.org/x/tools/go/ssa"
)

type tierModel struct {
	w                        *World
	stable, regular, irreg   *types.Var
	cached                   *types.Var
	methods, path, start     *types.Var
	regex, matches, params   *types.Var
	appendRoute, matchFn     *ssa.Function
	parse, matchRegex        *ssa.Function
	scanFns                  map[*ssa.Function]bool // matchRegex and wrappers that return its verdict unchanged
	cacheDyn, copyWithParams *ssa.Function
	quick                    *ssa.Function
}

func newTierModel(w *World) *tierModel {
	m := &tierModel{w: w}
	m.stable = w.Field("rux", "Router", "stableRoutes")
	m.regular = w.Field("rux", "Router", "regularRoutes")
	m.irreg = w.Field("rux", "Router", "irregularRoutes")
	m.cached = w.Field("rux", "Router", "cachedRoutes")
	m.methods = w.Field("rux", "Route", "methods")
	m.path = w.Field("rux", "Route", "path")
	m.start = w.Field("rux", "Route", "start")
	m.regex = w.Field("rux", "Route", "regex")
	m.matches = w.Field("rux", "Route", "matches")
	m.params = w.Field("rux", "Route", "params")
	m.appendRoute = w.Fn("rux", "Router.appendRoute")
	m.matchFn = w.Fn("rux", "Router.match")
	m.parse = w.Fn("rux", "Router.parseParamRoute")
	m.matchRegex = w.Fn("rux", "Route.matchRegex")
	m.scanFns = map[*ssa.Function]bool{m.matchRegex: true}
	// wrappers: a method that returns either "no match" or exactly what a scan function returns for its own
	// receiver and path (Route.match adds the literal-prefix pre-filter in front of matchRegex)
	for changed := true; changed; {
		changed = false
		for _, f := range w.Funcs {
			if m.scanFns[f] || f.Parent() != nil || len(f.Params) != 2 || f.Signature.Results().Len() != 2 || !isNamedPtr(f.Params[0].Type(), w.Named("rux", "Route")) {
				continue
			}
			ok, nCall := true, 0
			eachInstr(f, func(in ssa.Instruction) {
				ret, isRet := in.(*ssa.Return)
				if !isRet {
					return
				}
				if len(ret.Results) != 2 {
					ok = false
					return
				}
				if isNilConst(ret.Results[0]) {
					if k, isC := ret.Results[1].(*ssa.Const); isC && k.Value != nil && k.Value.Kind() == constant.Bool && !constant.BoolVal(k.Value) {
						return
					}
				}
				e0, ok0 := ret.Results[0].(*ssa.Extract)
				e1, ok1 := ret.Results[1].(*ssa.Extract)
				if !ok0 || !ok1 || e0.Tuple != e1.Tuple || e0.Index != 0 || e1.Index != 1 {
					ok = false
					return
				}
				c, isCall := e0.Tuple.(*ssa.Call)
				if !isCall || !m.scanFns[staticCallee(c)] || c.Call.Args[0] != ssa.Value(f.Params[0]) || c.Call.Args[1] != ssa.Value(f.Params[1]) {
					ok = false
					return
				}
				nCall++
			})
			if ok && nCall > 0 {
				m.scanFns[f] = true
				changed = true
			}
		}
	}
	m.cacheDyn = w.FnOpt("rux", "Router.cacheDynamicRoute")   // optional: the store may be written in line
	m.copyWithParams = w.FnOpt("rux", "Route.copyWithParams") // optional: the copy may be written where it is used
	m.quick = w.Fn("rux", "Router.QuickMatch")
	return m
}

func (m *tierModel) tierName(fv *types.Var) string {
	switch fv {
	case m.stable:
		return "static"
	case m.regular:
		return "first-segment"
	case m.irreg:
		return "residual"
	}
	return ""
}

// rangeElemOf: v is the element of a `range` over a slice (lowered by go/ssa
// to an index loop with a phi marked #rangeindex); returns the ranged slice.
func rangeElemOf(v ssa.Value) (ssa.Value, bool) {
	ld, ok := v.(*ssa.UnOp)
	if !ok || ld.Op != token.MUL {
		return nil, false
	}
	ia, ok := ld.X.(*ssa.IndexAddr)
	if !ok {
		return nil, false
	}
	if isRangeIndex(ia.Index) {
		return ia.X, true
	}
	return nil, false
}

func isRangeIndex(v ssa.Value) bool {
	b, ok := v.(*ssa.BinOp)
	if !ok || b.Op != token.ADD {
		return false
	}
	ph, ok := b.X.(*ssa.Phi)
	if !ok || ph.Comment != "rangeindex" {
		return false
	}
	c, okc := constInt(b.Y)
	return okc && c == 1
}

// tierUpdates lists map updates on the three route tables in the module.
type tierUpdate struct {
	f   *ssa.Function
	mu  *ssa.MapUpdate
	fv  *types.Var
	ord int
}

func (m *tierModel) tierUpdates() []tierUpdate {
	var out []tierUpdate
	for _, f := range m.w.Funcs {
		ord := map[*types.Var]int{}
		eachInstr(f, func(in ssa.Instruction) {
			mu, ok := in.(*ssa.MapUpdate)
			if !ok {
				return
			}
			fv := unwrapAddr(mu.Map).lastField()
			if fv == m.stable || fv == m.regular || fv == m.irreg {
				ord[fv]++
				out = append(out, tierUpdate{f, mu, fv, ord[fv]})
			}
		})
	}
	return out
}

func ruleC01Accum(r *Run) {
	w := r.W
	rule := "C01-ACCUM"
	r.Floor(rule, 3)
	m := newTierModel(w)
	e := &seqEngine{w}
	for _, tu := range m.tierUpdates() {
		construct := fmt.Sprintf("%s:%s tier insert#%d", FuncName(tu.f), m.tierName(tu.fv), tu.ord)
		if tu.fv == m.stable {
			// single-valued: the stored value is the route being registered
			ok := len(tu.f.Params) > 1 && tu.mu.Value == ssa.Value(tu.f.Params[1])
			r.Check(rule, construct, w.InstrPos(tu.mu), ok, "the static table maps the key to the route being registered")
			continue
		}
		alts, why := e.at(tu.f, tu.mu, tu.mu.Value)
		if why != "" || len(alts) == 0 {
			r.Undecided(rule, construct, w.InstrPos(tu.mu), "cannot enumerate paths: "+why)
			continue
		}
		ok := true
		detail := ""
		keyC := canon(tu.mu.Key)
		for _, alt := range alts {
			v := alt.Val
			if v.Unknown != "" {
				ok, detail = false, "cannot evaluate the stored list: "+v.Unknown
				break
			}
			n := len(v.Atoms)
			if n == 0 || v.Atoms[n-1].Kind != 'E' || v.Atoms[n-1].Val != ssa.Value(tu.f.Params[1]) {
				ok, detail = false, "the stored list "+v.String()+" does not end with the route being registered"
				break
			}
			if n == 2 && v.Atoms[0].Kind == 'M' && v.Atoms[0].Field == tu.fv && v.Atoms[0].Name == keyC {
				continue // existing list ++ [route]
			}
			if n == 1 {
				// a fresh list is allowed only on a path where the lookup said "absent"
				absent := false
				for _, d := range alt.Path.decs {
					if ex, isEx := d.Cond.(*ssa.Extract); isEx && ex.Index == 1 {
						if lk, isLk := ex.Tuple.(*ssa.Lookup); isLk && unwrapAddr(lk.X).lastField() == tu.fv && canon(lk.Index) == keyC && !d.Truth {
							absent = true
						}
					}
				}
				if absent {
					continue
				}
				ok, detail = false, "on a path where the key is already present the stored list is "+v.String()+": the routes registered before under this key are forgotten"
				break
			}
			ok, detail = false, "unexpected list shape "+v.String()
			break
		}
		if ok {
			detail = "existing list ++ [route] (fresh list only when the key is absent); shapes: " + strings.Join(distinctSeqs(alts), " | ")
		}
		r.Check(rule, construct, w.InstrPos(tu.mu), ok, detail)
	}
	ruleC01Order(r, m)
}

// C01-ORDER: "the earliest registered route wins" is carried by the order of the bucket slices in the two dynamic
// tables and by nothing else. Registration appends (C01-ACCUM); no other code may reorder or overwrite the elements
// of a bucket it got from a table — an in-place sort for a stable listing in String()/Routes() changes which of two
// overlapping patterns answers from then on.
func ruleC01Order(r *Run, m *tierModel) {
	w := r.W
	rule := "C01-ORDER"
	var tierTypes []types.Type
	for _, fv := range []*types.Var{m.regular, m.irreg} {
		if fv != nil {
			tierTypes = append(tierTypes, fv.Type())
		}
	}
	isTier := func(t types.Type) bool {
		for _, tt := range tierTypes {
			if types.Identical(t, tt) || types.Identical(t.Underlying(), tt.Underlying()) {
				return true
			}
		}
		return false
	}
	mutators := map[string]int{"sort.Slice": 0, "sort.SliceStable": 0, "sort.Sort": 0, "sort.Stable": 0, "slices.Sort": 0, "slices.SortFunc": 0, "slices.SortStableFunc": 0, "slices.Reverse": 0, "builtin copy": 0}
	n := 0
	for _, f := range w.Funcs {
		if f.Pkg == nil || f.Pkg.Pkg.Path() != modPath {
			continue
		}
		// bucket values: lookups in / ranges over a table-typed map, and what is derived from them
		bucket := map[ssa.Value]bool{}
		var mark func(v ssa.Value)
		mark = func(v ssa.Value) {
			if bucket[v] {
				return
			}
			bucket[v] = true
			if rs := v.Referrers(); rs != nil {
				for _, ref := range *rs {
					switch x := ref.(type) {
					case *ssa.Extract:
						if _, isLk := x.Tuple.(*ssa.Lookup); isLk && x.Index == 0 {
							mark(x)
						}
					case *ssa.Phi:
						mark(x)
					case *ssa.Slice:
						mark(x)
					case *ssa.ChangeType:
						mark(x)
					case *ssa.MakeInterface:
						mark(x)
					case *ssa.Store:
						// spilled into a local cell (captured by a closure): the loads of the cell
						if al, isAl := x.Addr.(*ssa.Alloc); isAl && x.Val == v {
							for _, r2 := range *al.Referrers() {
								if ld, isLd := r2.(*ssa.UnOp); isLd && ld.Op == token.MUL {
									mark(ld)
								}
							}
							// and the loads inside closures that capture the cell
							for _, r2 := range *al.Referrers() {
								if mc, isMC := r2.(*ssa.MakeClosure); isMC {
									g := mc.Fn.(*ssa.Function)
									for bi, b := range mc.Bindings {
										if b == ssa.Value(al) && bi < len(g.FreeVars) {
											for _, r3 := range *g.FreeVars[bi].Referrers() {
												if ld, isLd := r3.(*ssa.UnOp); isLd && ld.Op == token.MUL {
													bucket[ld] = true
												}
											}
										}
									}
								}
							}
						}
					}
				}
			}
		}
		eachInstr(f, func(in ssa.Instruction) {
			switch x := in.(type) {
			case *ssa.Lookup:
				if isTier(x.X.Type()) {
					if x.CommaOk {
						mark(x)
					} else {
						mark(x)
					}
				}
			case *ssa.Next:
				if rg, ok := x.Iter.(*ssa.Range); ok && isTier(rg.X.Type()) {
					for _, ref := range *x.Referrers() {
						if ex, isEx := ref.(*ssa.Extract); isEx && ex.Index == 2 {
							mark(ex)
						}
					}
				}
			}
		})
		if len(bucket) == 0 {
			continue
		}
		n++
		bad := ""
		var badPos token.Pos
		eachInstr(f, func(in ssa.Instruction) {
			if bad != "" {
				return
			}
			switch x := in.(type) {
			case *ssa.Store:
				if ia, ok := x.Addr.(*ssa.IndexAddr); ok && bucket[ia.X] {
					bad, badPos = "an element of a bucket taken from a dynamic table is overwritten", w.InstrPos(in)
				}
			case *ssa.Call:
				name := calleeName(x)
				if ai, ok := mutators[name]; ok && ai < len(x.Call.Args) && bucket[x.Call.Args[ai]] {
					bad, badPos = "a bucket taken from a dynamic table is passed to "+name+", which reorders / overwrites it in place", w.InstrPos(in)
				}
				if name == "builtin append" && len(x.Call.Args) > 0 {
					if sl, ok := x.Call.Args[0].(*ssa.Slice); ok && bucket[sl] && sl.High != nil {
						bad, badPos = "append onto a shortened bucket (b[:i]) overwrites the elements behind it in place", w.InstrPos(in)
					}
				}
			}
		})
		// closures declared here that capture a bucket cell are scanned with the marks made above
		for _, g := range f.AnonFuncs {
			eachInstr(g, func(in ssa.Instruction) {
				if bad != "" {
					return
				}
				if st, ok := in.(*ssa.Store); ok {
					if ia, ok := st.Addr.(*ssa.IndexAddr); ok && bucket[ia.X] {
						bad, badPos = "an element of a bucket taken from a dynamic table is overwritten (in a closure)", w.InstrPos(in)
					}
				}
			})
		}
		r.Check(rule, FuncName(f)+":buckets read-only", func() token.Pos {
			if bad != "" {
				return badPos
			}
			return f.Pos()
		}(), bad == "", map[bool]string{true: "the function reads buckets of the dynamic tables and neither reorders nor overwrites their elements", false: bad + ": the order of a bucket IS the registration order that decides between overlapping patterns; after this call the earliest registered route no longer wins"}[bad == ""])
	}
	r.Exists(rule, "functions reading dynamic-table buckets", token.NoPos, n >= 2, fmt.Sprintf("%d function(s) take buckets out of the dynamic tables", n))
}

func ruleC01Methods(r *Run) {
	w := r.W
	rule := "C01-METHODS"
	r.Floor(rule, 3)
	m := newTierModel(w)
	for _, tu := range m.tierUpdates() {
		construct := fmt.Sprintf("%s:%s tier key#%d", FuncName(tu.f), m.tierName(tu.fv), tu.ord)
		key := tu.mu.Key
		var methodPart, rest ssa.Value
		if b, ok := key.(*ssa.BinOp); ok && b.Op == token.ADD {
			methodPart, rest = b.X, b.Y
		} else {
			methodPart = key
		}
		sl, isElem := rangeElemOf(methodPart)
		okM := isElem && isLoadOfField(sl, m.methods) && len(tu.f.Params) > 1 && unwrapAddr(sl).Base == ssa.Value(tu.f.Params[1])
		d := "key = <each element of route.methods> + ..."
		if !okM {
			d = "the method component of the table key is not the element of a range over route.methods: not every allowed method is registered (or a foreign one is)"
		}
		r.Check(rule, construct, w.InstrPos(tu.mu), okM, d)
		switch tu.fv {
		case m.stable:
			okR := rest != nil && isLoadOfField(rest, m.path) && unwrapAddr(rest).Base == ssa.Value(tu.f.Params[1])
			r.Check("C01-KEYS", construct+" path part", w.InstrPos(tu.mu), okR, "static key = method + whole normalised route path")
		case m.irreg:
			r.Check("C01-KEYS", construct+" path part", w.InstrPos(tu.mu), rest == nil, "residual key = method alone")
		}
	}
	r.Floor("C01-KEYS", 5)
}

// segForm renders the first-segment expression with the subject string
// abstracted to X, so writer and reader can be compared.
func segForm(v ssa.Value, subject ssa.Value) string {
	s := canon(v)
	return strings.ReplaceAll(s, canon(subject), "X")
}

func ruleC01Keys(r *Run) {
	w := r.W
	rule := "C01-KEYS"
	m := newTierModel(w)
	// reader side in match
	mf := m.matchFn
	method, path := ssa.Value(mf.Params[1]), ssa.Value(mf.Params[2])
	var readerSeg string
	nLook := 0
	eachInstr(mf, func(in ssa.Instruction) {
		lk, ok := in.(*ssa.Lookup)
		if !ok {
			return
		}
		fv := unwrapAddr(lk.X).lastField()
		switch fv {
		case m.stable:
			nLook++
			b, okb := lk.Index.(*ssa.BinOp)
			okK := okb && b.Op == token.ADD && b.X == method && b.Y == path
			r.Check(rule, "(*Router).match:static lookup key", w.InstrPos(in), okK, "static lookup key = method + whole path")
		case m.irreg:
			nLook++
			r.Check(rule, "(*Router).match:residual lookup key", w.InstrPos(in), lk.Index == method, "residual lookup key = method")
		case m.regular:
			nLook++
			b, okb := lk.Index.(*ssa.BinOp)
			if okb && b.Op == token.ADD && b.X == method {
				readerSeg = segForm(b.Y, path)
			}
			r.Check(rule, "(*Router).match:first-segment lookup key", w.InstrPos(in), readerSeg != "", "first-segment lookup key = method + seg(path)")
		}
	})
	// writer side: the value returned by parseParamRoute as "first"
	pf := m.parse
	var writerSegs []string
	var subject ssa.Value
	eachInstr(pf, func(in ssa.Instruction) {
		ret, ok := in.(*ssa.Return)
		if !ok || len(ret.Results) != 1 {
			return
		}
		var leaves []ssa.Value
		var walk func(v ssa.Value, seen map[ssa.Value]bool)
		walk = func(v ssa.Value, seen map[ssa.Value]bool) {
			if seen[v] {
				return
			}
			seen[v] = true
			if ph, ok := v.(*ssa.Phi); ok {
				for _, ed := range ph.Edges {
					walk(ed, seen)
				}
				return
			}
			leaves = append(leaves, v)
		}
		walk(ret.Results[0], map[ssa.Value]bool{})
		for _, lf := range leaves {
			if s, ok := constString(lf); ok && s == "" {
				continue
			}
			sl, ok := lf.(*ssa.Slice)
			if !ok {
				writerSegs = append(writerSegs, "?"+canon(lf))
				continue
			}
			subject = sl.X
			writerSegs = append(writerSegs, segForm(lf, sl.X))
		}
	})
	okSeg := len(writerSegs) > 0 && readerSeg != ""
	for _, ws := range writerSegs {
		if ws != readerSeg {
			okSeg = false
		}
	}
	r.Check(rule, "first-segment key agreement", pf.Pos(), okSeg, fmt.Sprintf("writer seg(X) = %v, reader seg(X) = %s", writerSegs, readerSeg))
	_ = subject
	// the first-segment table key on the writer side uses that returned value
	for _, tu := range m.tierUpdates() {
		if tu.fv != m.regular {
			continue
		}
		b, okb := tu.mu.Key.(*ssa.BinOp)
		okK := false
		if okb && b.Op == token.ADD {
			if c, isCall := b.Y.(*ssa.Call); isCall && staticCallee(c) == pf {
				okK = true
			}
		}
		r.Check(rule, fmt.Sprintf("%s:first-segment tier key uses parseParamRoute result", FuncName(tu.f)), w.InstrPos(tu.mu), okK, "writer key = method + first segment computed by parseParamRoute")
	}
}

func ruleC01Tiers(r *Run) {
	w := r.W
	rule := "C01-TIERS"
	r.Floor(rule, 8)
	m := newTierModel(w)
	mf := m.matchFn
	get := w.Fn("rux", "cachedRoutes.Get")
	var lStatic, lReg, lIrr, lCache ssa.Instruction
	eachInstr(mf, func(in ssa.Instruction) {
		switch x := in.(type) {
		case *ssa.Lookup:
			switch unwrapAddr(x.X).lastField() {
			case m.stable:
				lStatic = in
			case m.regular:
				lReg = in
			case m.irreg:
				lIrr = in
			}
		case *ssa.Call:
			if staticCallee(x) == get {
				lCache = in
			}
		}
	})
	if lStatic == nil || lReg == nil || lIrr == nil {
		r.Undecided(rule, "(*Router).match:tier lookups", mf.Pos(), "the three table lookups were not found in match")
		return
	}
	chk := func(name string, ok bool, good, bad string) {
		r.Check(rule, "(*Router).match:"+name, mf.Pos(), ok, map[bool]string{true: good, false: bad}[ok])
	}
	chk("static first", dominates(lStatic, lReg) && dominates(lStatic, lIrr), "the static lookup dominates both dynamic lookups", "a dynamic table is consulted without the static table having been tried")
	chk("first-segment before residual", !canReach(lIrr, lReg), "no path from the residual scan back to the first-segment scan", "the residual list can be scanned before the first-segment list")
	chk("no return to static", !canReach(lReg, lStatic) && !canReach(lIrr, lStatic), "tiers are visited once, in order", "tier order is not fixed")
	if lCache != nil {
		chk("cache after static", dominates(lStatic, lCache), "the cache is consulted only after the static table missed", "the cache can shadow the static table")
		chk("cache before dynamic", !canReach(lReg, lCache) && !canReach(lIrr, lCache), "the cache is consulted before dynamic matching", "dynamic matching runs before the cache lookup")
		// static hit returns without looking at the cache
		chk("static hit bypasses cache", staticHitReturns(lStatic, []ssa.Instruction{lCache, lReg, lIrr}), "a static hit returns immediately", "a static hit can continue into later tiers")
	} else {
		chk("static hit returns", staticHitReturns(lStatic, []ssa.Instruction{lReg, lIrr}), "a static hit returns immediately", "a static hit can continue into later tiers")
	}
	// a miss in one tier goes on to a later tier: every path from a tier's lookup that returns without
	// consulting a later tier took that tier's own hit decision (comma-ok true / a successful regexp match)
	{
		type tier struct {
			name string
			in   ssa.Instruction
		}
		tiers := []tier{{"static", lStatic}}
		if lCache != nil {
			tiers = append(tiers, tier{"cache", lCache})
		}
		tiers = append(tiers, tier{"first-segment", lReg}, tier{"residual", lIrr})
		routeMatch := w.FnOpt("rux", "Route.match")
		for ti := 0; ti+1 < len(tiers); ti++ {
			t := tiers[ti]
			later := map[ssa.Instruction]bool{}
			for _, l := range tiers[ti+1:] {
				later[l.in] = true
			}
			var okv ssa.Value
			if v, isV := t.in.(ssa.Value); isV {
				okv = extractOf(v, 1)
			}
			fps, complete := exploreFrom(t.in, nil, 6000)
			okFall := complete && len(fps) > 0
			lost := ""
			for _, fp := range fps {
				if fp.ret == nil {
					continue
				}
				reached := false
				type try struct {
					ok   ssa.Value
					recv string
				}
				var tries []try
				for _, x := range fp.instrs {
					if later[x] {
						reached = true
					}
					if c, isC := x.(*ssa.Call); isC && (m.scanFns[staticCallee(c)] || (routeMatch != nil && staticCallee(c) == routeMatch)) {
						tries = append(tries, try{extractOf(c, 1), canonAlong(c.Call.Args[0], fp.pc.pred)})
					}
				}
				if reached {
					continue
				}
				// a hit: the route this path returns is known to be non-nil — by this tier's comma-ok, by a
				// successful match of exactly that route, or by an explicit non-nil test of it
				var rv ssa.Value
				if len(fp.ret.Results) > 0 {
					rv = resolvePhi(fp.ret.Results[0], fp.pc)
				}
				hit := false
				for _, d := range fp.pc.decs {
					if d.If == nil {
						continue
					}
					if d.Truth && okv != nil && d.Cond == okv && (t.name == "static" || t.name == "cache") {
						hit = true
					}
					for _, tr := range tries {
						if d.Truth && tr.ok != nil && d.Cond == tr.ok && rv != nil && tr.recv == canonAlong(rv, fp.pc.pred) {
							hit = true
						}
					}
					if rv != nil {
						if is, pol := nonNilTestP(d.Cond, rv, fp.pc); is && pol == d.Truth {
							hit = true
						}
					}
				}
				if !hit {
					okFall = false
					lost = w.Pos(w.InstrPos(fp.ret))
				}
			}
			r.Check(rule, "(*Router).match:"+t.name+" miss falls through", w.InstrPos(t.in), okFall,
				map[bool]string{true: "when the " + t.name + " tier has no match the later tiers are still consulted", false: "a path returns (at " + lost + ") after the " + t.name + " tier without a hit and without consulting the later tier(s): a route registered there is never found for such a request"}[okFall])
		}
	}
	// scans: first regexp match wins, ascending registration order
	calls := callsIn(mf, func(c ssa.CallInstruction) bool {
		_, plain := c.(*ssa.Call)
		return plain && m.scanFns[staticCallee(c)]
	})
	r.Check(rule, "(*Router).match:scan sites", mf.Pos(), len(calls) == 2, fmt.Sprintf("%d regexp-match call sites (one per dynamic tier)", len(calls)))
	for i, c := range calls {
		in := c.(ssa.Instruction)
		name := fmt.Sprintf("(*Router).match:scan#%d", i+1)
		// receiver is a range element of the list looked up in a tier table
		recv := c.Common().Args[0]
		sl, isElem := rangeElemOf(recv)
		r.Check(rule, name+" ascending", w.InstrPos(in), isElem, map[bool]string{true: "candidates are visited by a range loop (ascending registration order)", false: "candidates are not visited by a plain range over the tier list (order of registration lost)"}[isElem])
		if isElem {
			okL := false
			switch x := sl.(type) {
			case *ssa.Extract:
				if lk, ok := x.Tuple.(*ssa.Lookup); ok {
					fv := unwrapAddr(lk.X).lastField()
					okL = fv == m.regular || fv == m.irreg
				}
			case *ssa.Lookup:
				fv := unwrapAddr(x.X).lastField()
				okL = fv == m.regular || fv == m.irreg
			}
			r.Check(rule, name+" list", w.InstrPos(in), okL, "the scanned list is the one looked up in the tier table")
		}
		// path argument is match's own path
		r.Check(rule, name+" subject", w.InstrPos(in), c.Common().Args[1] == ssa.Value(mf.Params[2]), "the regexp is applied to the whole normalised request path")
		// on success the function returns that route with those params, without trying another candidate
		okv := c.Value()
		var okFlag, psVal ssa.Value
		if okv != nil {
			for _, ref := range *okv.Referrers() {
				if ex, isEx := ref.(*ssa.Extract); isEx {
					if ex.Index == 1 {
						okFlag = ex
					} else {
						psVal = ex
					}
				}
			}
		}
		succ := false
		if okFlag != nil {
			// from the call, with ok == true, every path returns (route, ps) and never runs another matchRegex
			paths, complete := exploreFrom(in, []condFact{{okFlag, true}}, 4000)
			succ = complete && len(paths) > 0
			for _, fp := range paths {
				for _, x := range fp.instrs {
					if cc, isCall := x.(*ssa.Call); isCall && m.scanFns[staticCallee(cc)] {
						succ = false
					}
				}
				if fp.ret == nil {
					continue
				}
				if len(fp.ret.Results) != 2 || canon(resolvePhi(fp.ret.Results[0], fp.pc)) != canon(recv) || resolvePhi(fp.ret.Results[1], fp.pc) != psVal {
					succ = false
				}
			}
		}
		r.Check(rule, name+" first match wins", w.InstrPos(in), succ, map[bool]string{true: "on the first successful regexp match the function returns that candidate and its parameters", false: "a successful match does not return that candidate at once (a later candidate can win, or other values are returned)"}[succ])
	}
}

// staticHitReturns: on the edge where the static lookup found a route, no later tier is reachable.
func staticHitReturns(lk ssa.Instruction, later []ssa.Instruction) bool {
	f := lk.Parent()
	l := lk.(*ssa.Lookup)
	var okFlag ssa.Value
	for _, ref := range *l.Referrers() {
		if ex, isEx := ref.(*ssa.Extract); isEx && ex.Index == 1 {
			okFlag = ex
		}
	}
	if okFlag == nil {
		return false
	}
	cutMiss := cutEdges(f, func(cond ssa.Value, truth bool) bool { return cond == okFlag && !truth })
	isLater := func(x ssa.Instruction) bool {
		for _, l := range later {
			if l != nil && x == l {
				return true
			}
		}
		return false
	}
	return !pathExists(f, lk, isLater, nil, cutMiss)
}

// ---------------------------------------------------------------------------
// C01-REPR: regex-escaped text must not be compared with raw request text.

func ruleC01Repr(r *Run) {
	w := r.W
	rule := "C01-REPR"
	r.Floor(rule, 3)
	m := newTierModel(w)
	pf := m.parse
	tainted := map[ssa.Value]bool{}
	var work []ssa.Value
	nsrc := 0
	eachInstr(pf, func(in ssa.Instruction) {
		if c, ok := in.(*ssa.Call); ok {
			n := calleeName(c)
			if strings.HasSuffix(n, "rux.quotePointChar") || n == "regexp.QuoteMeta" {
				tainted[c] = true
				work = append(work, c)
				nsrc++
			}
		}
	})
	for len(work) > 0 {
		v := work[0]
		work = work[1:]
		for _, ref := range *v.Referrers() {
			rv, ok := ref.(ssa.Value)
			if !ok {
				continue
			}
			switch x := ref.(type) {
			case *ssa.Slice, *ssa.BinOp, *ssa.Phi, *ssa.Convert, *ssa.ChangeType, *ssa.Extract:
				_ = x
			case *ssa.Call:
				// results computed from escaped text (strings and offsets alike)
			default:
				continue
			}
			if !tainted[rv] {
				tainted[rv] = true
				work = append(work, rv)
			}
		}
	}
	r.Exists(rule, "(*Router).parseParamRoute:sources", pf.Pos(), nsrc >= 1, fmt.Sprintf("%d regex-escaping call(s); %d derived values", nsrc, len(tainted)))
	// sinks
	for i, st := range storesToField(pf, m.start) {
		ok := !tainted[st.Val]
		r.Check(rule, fmt.Sprintf("(*Router).parseParamRoute:store Route.start#%d", i+1), w.InstrPos(st), ok,
			map[bool]string{true: "the literal prefix compared with request paths is raw text", false: "Route.start is cut from the regex-escaped pattern ('.' became '\\.'): the prefix pre-filter compares it with the raw request path and can never match such a route"}[ok])
	}
	eachInstr(pf, func(in ssa.Instruction) {
		if ret, ok := in.(*ssa.Return); ok {
			for _, res := range ret.Results {
				bad := tainted[res]
				if ph, isPhi := res.(*ssa.Phi); isPhi {
					for _, ed := range ph.Edges {
						if tainted[ed] {
							bad = true
						}
					}
				}
				r.Check(rule, "(*Router).parseParamRoute:returned first segment", w.InstrPos(in), !bad,
					map[bool]string{true: "the first-segment table key is raw text", false: "the first-segment key is cut from the regex-escaped pattern: lookup keys are cut from the raw request path, so 'v1\\.0' never equals 'v1.0' and the route is unreachable"}[!bad])
			}
		}
	})
	// escaped text must reach the compile call (otherwise '.' would be a wildcard)
	for i, c := range callsIn(pf, func(c ssa.CallInstruction) bool {
		n := calleeName(c)
		return n == "regexp.MustCompile" || n == "regexp.Compile"
	}) {
		arg := c.Common().Args[0]
		ok := tainted[arg]
		r.Check(rule, fmt.Sprintf("(*Router).parseParamRoute:compile#%d escaped", i+1), w.InstrPos(c), ok, map[bool]string{true: "the compiled pattern is derived from the escaped path ('.' literal)", false: "the compiled pattern is not derived from the escaped path: '.' matches any character"}[ok])
	}
}

func ruleC01Anchor(r *Run) {
	w := r.W
	rule := "C01-ANCHOR"
	r.Floor(rule, 2)
	m := newTierModel(w)
	n := 0
	for _, f := range w.Funcs {
		for i, st := range storesToField(f, m.regex) {
			if isNilConst(st.Val) {
				continue
			}
			n++
			construct := fmt.Sprintf("%s:store Route.regex#%d", FuncName(f), i+1)
			c, ok := st.Val.(*ssa.Call)
			if ok && staticCallee(c) != nil && w.InModule(staticCallee(c)) {
				// a helper that does nothing but compile an anchored pattern built from its arguments
				h := staticCallee(c)
				okH := true
				nret := 0
				eachInstr(h, func(in ssa.Instruction) {
					switch x := in.(type) {
					case *ssa.Return:
						nret++
						cc, isCall := x.Results[0].(*ssa.Call)
						if !isCall || (calleeName(cc) != "regexp.MustCompile") {
							okH = false
							return
						}
						l, rr := cc.Call.Args[0], cc.Call.Args[0]
						for {
							if b, isB := l.(*ssa.BinOp); isB && b.Op == token.ADD {
								l = b.X
								continue
							}
							break
						}
						if b, isB := rr.(*ssa.BinOp); isB && b.Op == token.ADD {
							rr = b.Y
						}
						ls, _ := constString(l)
						rs, _ := constString(rr)
						if !((ls == "^" || ls == `\A`) && (rs == "$" || rs == `\z`)) {
							okH = false
						}
					case *ssa.Lookup, *ssa.MapUpdate, *ssa.Store:
						okH = false // no memo, no state
					case *ssa.UnOp:
						if x.Op == token.MUL {
							okH = false
						}
					}
				})
				r.Check(rule, construct, w.InstrPos(st), okH && nret > 0, map[bool]string{true: "compiled by a stateless helper that anchors the pattern built from its arguments", false: "Route.regex comes from " + FuncName(h) + ", which is not a stateless 'compile this anchored pattern' helper (e.g. it looks the regexp up in a table: a route can receive a regexp compiled for another pattern)"}[okH && nret > 0])
				continue
			}
			if !ok || (calleeName(c) != "regexp.MustCompile" && calleeName(c) != "regexp.Compile") {
				if ex, isEx := st.Val.(*ssa.Extract); isEx {
					if c2, ok2 := ex.Tuple.(*ssa.Call); ok2 && calleeName(c2) == "regexp.Compile" {
						c, ok = c2, true
					}
				}
			}
			if !ok {
				r.Check(rule, construct, w.InstrPos(st), false, "Route.regex is not the direct result of a compile call")
				continue
			}
			arg := c.Call.Args[0]
			left, right := arg, arg
			for {
				if b, isB := left.(*ssa.BinOp); isB && b.Op == token.ADD {
					left = b.X
					continue
				}
				break
			}
			if b, isB := right.(*ssa.BinOp); isB && b.Op == token.ADD {
				right = b.Y
			}
			ls, _ := constString(left)
			rs, _ := constString(right)
			okA := (ls == "^" || ls == `\A`) && (rs == "$" || rs == `\z`)
			r.Check(rule, construct, w.InstrPos(st), okA, map[bool]string{true: "pattern is anchored: ^ ... $ (matches the whole normalised path)", false: fmt.Sprintf("pattern is not anchored at both ends (left %q, right %q): a route could match a prefix or suffix of the path", ls, rs)}[okA])
		}
	}
}

// ---------------------------------------------------------------------------
// C02

// C02-KEYS: the parameter map has an entry for every variable of the route, also for one in an
// optional part that took no part in the match (its value is then ""): in matchRegex the store into
// the result map is executed on every iteration of the loop over the submatches / variable names.
func ruleC02Keys(r *Run) {
	w := r.W
	rule := "C02-KEYS"
	r.Floor(rule, 1)
	m := newTierModel(w)
	mr := m.matchRegex
	n := 0
	eachInstr(mr, func(in ssa.Instruction) {
		mu, ok := in.(*ssa.MapUpdate)
		if !ok || !types.Identical(mu.Map.Type(), w.Named("rux", "Params")) {
			return
		}
		n++
		// the loop the update sits in
		ln := loopNest(mr)
		var header *ssa.BasicBlock
		for h := range ln[in.Block()] {
			if header == nil || header.Dominates(h) {
				header = h // innermost
			}
		}
		if header == nil {
			r.Check(rule, fmt.Sprintf("(*Route).matchRegex:param store#%d", n), w.InstrPos(in), false, "the parameter map is not filled in a loop over the route's variables")
			return
		}
		// one iteration: from each body successor of the header back to the header, every path passes the update
		okAll := true
		for _, s := range header.Succs {
			if !ln[s][header] {
				continue
			}
			paths, complete := enumPathsGen(mr, s, nil, header, 2000)
			if !complete {
				okAll = false
			}
			for _, p := range paths {
				hit := false
				for _, b := range p.blocks {
					for _, x := range b.Instrs {
						if x == in {
							hit = true
						}
					}
				}
				last := p.blocks[len(p.blocks)-1]
				if last != header {
					continue // path leaves the loop (return)
				}
				if !hit {
					okAll = false
				}
			}
		}
		// keyed by a variable name of the route
		keyOK := flowsFromDeep(mu.Key, func(x ssa.Value) bool { return isLoadOfField(x, m.matches) })
		r.Check(rule, fmt.Sprintf("(*Route).matchRegex:param store#%d", n), w.InstrPos(in), okAll && keyOK,
			map[bool]string{true: "every iteration stores an entry under the variable's name: the key set of Params is exactly the route's variable list", false: "an iteration can skip the store (or the key is not a variable name of the route): a variable in an unmatched optional part is missing from Params instead of being \"\""}[okAll && keyOK])
	})
	r.Exists(rule, "(*Route).matchRegex:param stores", mr.Pos(), n >= 1, fmt.Sprintf("%d store(s) into the result Params map", n))
}

func ruleC02Align(r *Run) {
	w := r.W
	rule := "C02-ALIGN"
	r.Floor(rule, 2)
	m := newTierModel(w)
	pf := m.parse
	good := w.FnOpt("rux", "Route.goodRegexString")
	// the per-variable check may have been renamed, turned into a plain function or written in line: it is the
	// code that looks for '(' in the variable's regex and panics
	isVarCheck := func(f *ssa.Function) bool {
		if f == nil || !w.InModule(f) || f.Blocks == nil {
			return false
		}
		looks, panics := false, false
		eachInstr(f, func(in ssa.Instruction) {
			if c, ok := in.(*ssa.Call); ok && calleeName(c) == "strings.IndexByte" {
				if k, okc := constInt(c.Call.Args[1]); okc && k == '(' {
					looks = true
				}
			}
			if panicsAt(in) {
				panics = true
			}
		})
		return looks && panics
	}
	// one iteration of the variable loop: the block that loads the range element of the
	// variable list, up to the jump back to the loop header
	var body *ssa.BasicBlock
	var header *ssa.BasicBlock
	eachInstr(pf, func(in ssa.Instruction) {
		if ld, ok := in.(*ssa.UnOp); ok && body == nil {
			if sl, isElem := rangeElemOf(ld); isElem {
				if c, isCall := sl.(*ssa.Call); isCall && strings.Contains(calleeName(c), "FindAllString") {
					body = in.Block()
				}
			}
		}
	})
	if body == nil || len(body.Preds) != 1 {
		r.Undecided(rule, "(*Router).parseParamRoute:variable loop", pf.Pos(), "the range loop over the pattern's variables was not found")
		return
	}
	header = body.Preds[0]
	compile := body.Instrs[0]
	paths, complete := enumPathsGen(pf, body, nil, header, 4096)
	if !complete {
		r.Undecided(rule, "(*Router).parseParamRoute:paths", pf.Pos(), "too many paths")
		return
	}
	nBody := 0
	shapes := map[string]bool{}
	for _, p := range paths {
		var nameAppends, pairAppends, goods []ssa.Instruction
		var appendedName, checkedName, checkedRe, pairRe ssa.Value
		inlineCheck := false
		for _, b := range p.blocks {
			for _, in := range b.Instrs {
				switch x := in.(type) {
				case *ssa.Store:
					if fa, ok := x.Addr.(*ssa.FieldAddr); ok && fieldVar(fa.X.Type(), fa.Field) == m.matches {
						if c, ok := x.Val.(*ssa.Call); ok && isBuiltin(c, "append") && isLoadOfField(c.Call.Args[0], m.matches) {
							nameAppends = append(nameAppends, in)
							if el := litElems(c.Call.Args[1]); len(el) == 1 {
								appendedName = resolvePhi(el[0], p)
							}
						} else {
							nameAppends = append(nameAppends, in, in) // not an append: counts as wrong
						}
					}
				case *ssa.Call:
					if calleeName(x) == "strings.IndexByte" && good == nil {
						// the check written in line: IndexByte(v, '(')
						if k, okc := constInt(x.Call.Args[1]); okc && k == '(' {
							goods = append(goods, in)
							inlineCheck = true
							checkedRe = resolvePhi(x.Call.Args[0], p)
						}
					}
					if sc := staticCallee(x); sc != nil && (sc == good || (good == nil && isVarCheck(sc))) {
						goods = append(goods, in)
						// (n, v) are the last two arguments (the receiver, if any, comes first)
						if na := len(x.Call.Args); na >= 2 {
							checkedName = resolvePhi(x.Call.Args[na-2], p)
							checkedRe = resolvePhi(x.Call.Args[na-1], p)
						}
					}
					if isBuiltin(x, "append") {
						el := litElems(x.Call.Args[1])
						if len(el) == 2 {
							// replacement pair (placeholder, "(" + v + ")")
							if re, ok := groupOf(el[1]); ok {
								pairAppends = append(pairAppends, in)
								pairRe = resolvePhi(re, p)
							}
						}
					}
				}
			}
		}
		if len(nameAppends) == 0 && len(pairAppends) == 0 && len(goods) == 0 {
			continue // path that skips the loop body
		}
		nBody++
		ok := len(nameAppends) == 1 && len(pairAppends) == 1 && len(goods) == 1 && appendedName != nil && appendedName == checkedName && pairRe != nil && pairRe == checkedRe
		if inlineCheck {
			// no call that names the variable: the regex that is searched for '(' is the one that becomes the group
			ok = len(nameAppends) == 1 && len(pairAppends) == 1 && len(goods) >= 1 && appendedName != nil && pairRe != nil && pairRe == checkedRe
		}
		shape := fmt.Sprintf("names=%d pairs=%d checks=%d same-name=%v same-regex=%v", len(nameAppends), len(pairAppends), len(goods), appendedName != nil && appendedName == checkedName, pairRe != nil && pairRe == checkedRe)
		if !shapes[shape] || !ok {
			shapes[shape] = true
			r.Check(rule, "(*Router).parseParamRoute:iteration "+shape, w.InstrPos(compile), ok,
				map[bool]string{true: "one iteration of the variable loop appends exactly one name and exactly one capture group '(' + v + ')' for the same (n, v) that goodRegexString checked", false: "a path through one iteration of the variable loop does not append exactly one variable name and one capture group for the checked (n, v): group index and variable index drift apart"}[ok])
		}
	}
	r.Exists(rule, "(*Router).parseParamRoute:loop paths", pf.Pos(), nBody >= 1, fmt.Sprintf("%d path(s) through one iteration of the variable loop examined", len(paths)))
}

// litElems returns the element values of a slice literal / varargs pack.
func litElems(v ssa.Value) []ssa.Value {
	sl, ok := v.(*ssa.Slice)
	if !ok {
		return nil
	}
	al, ok := sl.X.(*ssa.Alloc)
	if !ok {
		return nil
	}
	arr, ok := al.Type().(*types.Pointer).Elem().Underlying().(*types.Array)
	if !ok {
		return nil
	}
	out := make([]ssa.Value, arr.Len())
	for _, ref := range *al.Referrers() {
		if ia, ok := ref.(*ssa.IndexAddr); ok {
			idx, okc := constInt(ia.Index)
			if !okc || idx < 0 || idx >= arr.Len() {
				return nil
			}
			for _, r2 := range *ia.Referrers() {
				if st, ok := r2.(*ssa.Store); ok && st.Addr == ssa.Value(ia) {
					out[idx] = st.Val
				}
			}
		}
	}
	for _, e := range out {
		if e == nil {
			return nil
		}
	}
	return out
}

// groupOf: v == "(" + x + ")" -> x
func groupOf(v ssa.Value) (ssa.Value, bool) {
	b, ok := v.(*ssa.BinOp)
	if !ok || b.Op != token.ADD {
		return nil, false
	}
	if s, ok := constString(b.Y); !ok || s != ")" {
		return nil, false
	}
	b2, ok := b.X.(*ssa.BinOp)
	if !ok || b2.Op != token.ADD {
		return nil, false
	}
	if s, ok := constString(b2.X); !ok || s != "(" {
		return nil, false
	}
	return b2.Y, true
}

func resolvePhi(v ssa.Value, p *pathCtx) ssa.Value {
	for i := 0; i < 8; i++ {
		ph, ok := v.(*ssa.Phi)
		if !ok {
			return v
		}
		pr := p.pred[ph.Block()]
		found := false
		for j, pb := range ph.Block().Preds {
			if pb == pr {
				v = ph.Edges[j]
				found = true
				break
			}
		}
		if !found {
			return v
		}
	}
	return v
}

// isGroupCountCheck: f panics unless regex.NumSubexp() == len(matches) (of its receiver/argument route).
func groupCountCheckers(w *World, m *tierModel) map[*ssa.Function]bool {
	out := map[*ssa.Function]bool{}
	for _, f := range w.Funcs {
		if hasGroupCountCheck(f, m, nil) {
			out[f] = true
		}
	}
	return out
}

// hasGroupCountCheck: returns true when f contains a comparison NumSubexp() vs len(matches)
// whose mismatch edge panics; when after != nil the comparison must be reachable after it on all paths.
func hasGroupCountCheck(f *ssa.Function, m *tierModel, after ssa.Instruction) bool {
	for _, b := range f.Blocks {
		if len(b.Instrs) == 0 {
			continue
		}
		iff, ok := b.Instrs[len(b.Instrs)-1].(*ssa.If)
		if !ok {
			continue
		}
		c, pos := stripNot(iff.Cond)
		bo, ok := c.(*ssa.BinOp)
		if !ok || (bo.Op != token.NEQ && bo.Op != token.EQL) {
			continue
		}
		isNum := func(v ssa.Value) bool {
			call, ok := v.(*ssa.Call)
			return ok && calleeName(call) == "(*regexp.Regexp).NumSubexp" && isLoadOfField(call.Call.Args[0], m.regex)
		}
		isLen := func(v ssa.Value) bool {
			call, ok := v.(*ssa.Call)
			return ok && isBuiltin(call, "len") && isLoadOfField(call.Call.Args[0], m.matches)
		}
		if !(isNum(bo.X) && isLen(bo.Y)) && !(isNum(bo.Y) && isLen(bo.X)) {
			continue
		}
		mismatchEdge := 0
		if bo.Op == token.EQL {
			mismatchEdge = 1
		}
		if !pos {
			mismatchEdge = 1 - mismatchEdge
		}
		target := b.Succs[mismatchEdge]
		if len(target.Instrs) == 0 {
			continue
		}
		if _, isRet := target.Instrs[0].(*ssa.Return); isRet {
			continue
		}
		if pathExists(f, target.Instrs[0], isReturnInstr, nil, nil) && !panicsAt(target.Instrs[0]) {
			continue
		}
		if after != nil {
			if ok, _ := allPathsHit(f, after, func(in ssa.Instruction) bool { return in == ssa.Instruction(iff) }); !ok {
				continue
			}
		}
		return true
	}
	return false
}

func ruleC02Groups(r *Run) {
	w := r.W
	rule := "C02-GROUPS"
	r.Floor(rule, 2)
	m := newTierModel(w)
	checkers := groupCountCheckers(w, m)
	// every store of a compiled regexp is followed on all paths by the group-count check
	for _, f := range w.Funcs {
		for i, st := range storesToField(f, m.regex) {
			if isNilConst(st.Val) {
				continue
			}
			construct := fmt.Sprintf("%s:store Route.regex#%d group count", FuncName(f), i+1)
			ok := hasGroupCountCheck(f, m, st)
			if !ok {
				ok, _ = allPathsHit(f, st, func(in ssa.Instruction) bool {
					c, isCall := in.(*ssa.Call)
					return isCall && checkers[staticCallee(c)]
				})
				if ok {
					// allPathsHit is vacuously true when nothing returns; require at least one such call after the store
					found := false
					for _, c := range callsIn(f, func(c ssa.CallInstruction) bool { return checkers[staticCallee(c)] }) {
						if canReach(st, c) {
							found = true
						}
					}
					ok = found
				}
			}
			r.Check(rule, construct, w.InstrPos(st), ok,
				map[bool]string{true: "registration panics unless regex.NumSubexp() == len(route.matches): the i-th submatch always has an i-th name", false: "no registration-time comparison of the compiled pattern's capture-group count with the number of variable names: a variable regex such as (?:a)(b) passes the textual check and matchRegex then indexes r.matches out of range (or shifts values to the wrong names)"}[ok])
		}
	}
	// the index expression in matchRegex relies on it
	mr := m.matchRegex
	n := 0
	eachInstr(mr, func(in ssa.Instruction) {
		if ia, ok := in.(*ssa.IndexAddr); ok && isLoadOfField(ia.X, m.matches) {
			n++
			// the index ranges over the submatches after the first
			r.Check(rule, fmt.Sprintf("(*Route).matchRegex:matches[i]#%d", n), w.InstrPos(in), isRangeIndex(ia.Index),
				"names are indexed by the position of the submatch (range over vs[1:])")
		}
	})
}

func ruleC02Writers(r *Run) {
	w := r.W
	rule := "C02-WRITERS"
	r.Floor(rule, 4)
	m := newTierModel(w)
	paramsF := w.Field("rux", "Context", "Params")
	disp := w.Dispatcher()
	for _, f := range w.Funcs {
		for i, st := range storesToField(f, m.matches) {
			ok := false
			if isNilConst(st.Val) {
				ok = true
			} else if c, isC := st.Val.(*ssa.Call); isC && isBuiltin(c, "append") && isLoadOfField(c.Call.Args[0], m.matches) && f == m.parse {
				ok = true
			}
			r.Check(rule, fmt.Sprintf("%s:store Route.matches#%d", FuncName(f), i+1), w.InstrPos(st), ok, "variable names are only appended during pattern parsing (or cleared on a cache copy)")
		}
		for i, st := range storesToField(f, paramsF) {
			construct := fmt.Sprintf("%s:store Context.Params#%d", FuncName(f), i+1)
			if isNilConst(st.Val) {
				r.Check(rule, construct, w.InstrPos(st), true, "cleared")
				continue
			}
			if constructionCopy(st) {
				r.Check(rule, construct, w.InstrPos(st), true, "a new Context is initialised with the source context's own Params (field-wise copy)")
				continue
			}
			ok := false
			if f == disp {
				if ex, isEx := st.Val.(*ssa.Extract); isEx && ex.Index == 1 {
					if c, isC := ex.Tuple.(*ssa.Call); isC && staticCallee(c) == m.quick {
						ok = true
					}
				}
			}
			r.Check(rule, construct, w.InstrPos(st), ok, map[bool]string{true: "Params = second result of the QuickMatch call that selected the route", false: "Params written from something other than the match that selected the route"}[ok])
		}
	}
	// the dispatched route is the first result of that same call
	setName := false
	eachInstr(disp, func(in ssa.Instruction) {
		if ex, ok := in.(*ssa.Extract); ok && ex.Index == 0 {
			if c, isC := ex.Tuple.(*ssa.Call); isC && staticCallee(c) == m.quick {
				setName = true
			}
		}
	})
	r.Check(rule, "(*Router).handleHTTPRequest:route from the same match", disp.Pos(), setName && len(callsToFn(disp, m.quick)) == 1, "one QuickMatch call yields both the route and its parameters")
}

func ruleC02Cache(rule string) func(r *Run) {
	return func(r *Run) {
		w := r.W
		r.Floor(rule, 5)
		m := newTierModel(w)
		// copyWithParams stores its parameter into .params
		okP := false
		var cpos token.Pos
		for _, rc := range findRouteCopies(w, m) {
			cpos = rc.fn.Pos()
			if rc.ps != nil && (m.copyWithParams == nil || rc.fn != m.copyWithParams || rc.ps == ssa.Value(rc.fn.Params[1])) {
				okP = true
			}
		}
		r.Check(rule, "(*Route).copyWithParams:params", cpos, okP, "the cached copy carries the parameters it was given")
		// where match fills the cache: through the wrapper cacheDynamicRoute or with Set in line
		mf := m.matchFn
		sites, problems := cacheStoreSites(w, m)
		for _, pr := range problems {
			r.Check(rule, pr.construct, w.InstrPos(pr.in), false, pr.why)
		}
		for i, site := range sites {
			if site.fn != mf {
				continue
			}
			r.Check(rule, fmt.Sprintf("(*Router).cacheDynamicRoute:Set#%d", i+1), w.InstrPos(site.in), site.route != nil && site.ps != nil, "stores route.copyWithParams(ps) of the route and parameters of this match")
			if site.route == nil || site.ps == nil {
				continue
			}
			// a[2] = parameters, a[3] = route
			a := []ssa.Value{nil, nil, site.ps, site.route}
			in := site.in
			ok := false
			detail := "the (params, route) pair handed to the cache is the pair returned to the caller"
			// every return reachable from here returns (a[3], a[2])
			fps, complete := exploreFrom(in, nil, 4000)
			ok = complete && len(fps) > 0
			for _, fp := range fps {
				if fp.ret == nil {
					continue
				}
				if len(fp.ret.Results) != 2 || canon(resolvePhi(fp.ret.Results[0], fp.pc)) != canon(a[3]) || resolvePhi(fp.ret.Results[1], fp.pc) != a[2] {
					ok = false
				}
			}
			if !ok {
				detail = "the pair stored in the cache differs from the pair returned for this request: a later hit would observe other parameters/route than the miss did"
			}
			r.Check(rule, fmt.Sprintf("(*Router).match:cacheDynamicRoute#%d pair", i+1), w.InstrPos(in), ok, detail)
			// ps comes from the matchRegex call on that same route (decided per path when the pair travels through merged locals)
			prov := func(psV, rtV ssa.Value) bool {
				if ex, isEx := psV.(*ssa.Extract); isEx && ex.Index == 0 {
					if mc, isC := ex.Tuple.(*ssa.Call); isC && m.scanFns[staticCallee(mc)] && canon(mc.Call.Args[0]) == canon(rtV) {
						return true
					}
				}
				return false
			}
			okPs := prov(a[2], a[3])
			if !okPs {
				okPs = allPathsTo(in, func(p *pathCtx) bool { return prov(resolvePhi(a[2], p), resolvePhi(a[3], p)) })
			}
			r.Check(rule, fmt.Sprintf("(*Router).match:cacheDynamicRoute#%d provenance", i+1), w.InstrPos(in), okPs, "the cached parameters are those just matched on that route")
		}
		// hit path returns (v, v.params) for the v it got from Get
		get := w.Fn("rux", "cachedRoutes.Get")
		for i, c := range callsToFn(mf, get) {
			var v ssa.Value
			var okFlag ssa.Value
			for _, ref := range *c.Value().Referrers() {
				if ex, isEx := ref.(*ssa.Extract); isEx {
					if ex.Index == 0 {
						v = ex
					} else {
						okFlag = ex
					}
				}
			}
			ok := false
			if v != nil && okFlag != nil {
				for _, b := range mf.Blocks {
					iff, isIf := b.Instrs[len(b.Instrs)-1].(*ssa.If)
					if !isIf {
						continue
					}
					c0, pos := stripNot(iff.Cond)
					if c0 != okFlag {
						continue
					}
					t := b.Succs[0]
					if !pos {
						t = b.Succs[1]
					}
					if ret, isRet := t.Instrs[len(t.Instrs)-1].(*ssa.Return); isRet && len(ret.Results) == 2 && ret.Results[0] == v && isLoadOfField(ret.Results[1], m.params) && fieldBaseIs(ret.Results[1], v) {
						ok = true
					}
				}
			}
			if !ok && v != nil && okFlag != nil {
				// the lookup may sit in a helper whose results travel through merged locals: decide on paths — every
				// path from the Get on which its ok flag was taken as true returns (v, v.params)
				fps, complete := exploreFrom(c.(ssa.Instruction), nil, 3000)
				hits, good := 0, complete
				for _, fp := range fps {
					hit := false
					for _, d := range fp.pc.decs {
						if d.Cond == okFlag && d.Truth {
							hit = true
						}
					}
					if !hit {
						continue
					}
					hits++
					if fp.ret == nil || len(fp.ret.Results) != 2 {
						good = false
						continue
					}
					r0 := resolvePhi(fp.ret.Results[0], fp.pc)
					r1 := resolvePhi(fp.ret.Results[1], fp.pc)
					baseOK := false
					if ld, isLd := r1.(*ssa.UnOp); isLd && isLoadOfField(r1, m.params) {
						if fa, isFA := ld.X.(*ssa.FieldAddr); isFA && resolvePhi(fa.X, fp.pc) == v {
							baseOK = true
						}
					}
					if r0 != v || !baseOK {
						good = false
					}
				}
				ok = good && hits > 0
			}
			r.Check(rule, fmt.Sprintf("(*Router).match:cache hit#%d", i+1), w.InstrPos(c), ok, map[bool]string{true: "a hit returns the cached route and that route's own stored parameters", false: "a cache hit does not return (v, v.params) for the v it found"}[ok])
		}
		// static path: nil params
		okS := false
		eachInstr(mf, func(in ssa.Instruction) {
			if lk, ok := in.(*ssa.Lookup); ok && unwrapAddr(lk.X).lastField() == m.stable {
				for _, ref := range *lk.Referrers() {
					if ex, isEx := ref.(*ssa.Extract); isEx && ex.Index == 0 {
						for _, r2 := range *ex.Referrers() {
							if ret, isRet := r2.(*ssa.Return); isRet && len(ret.Results) == 2 && isNilConst(ret.Results[1]) {
								okS = true
							}
						}
					}
				}
			}
		})
		r.Check(rule, "(*Router).match:static route exposes no parameters", mf.Pos(), okS, "static hit returns (route, nil)")
	}
}

// enclosing AST helpers (used by table rules)
func enclosingPath(w *World, pos token.Pos) []ast.Node {
	_, file := w.FileOf(pos)
	if file == nil {
		return nil
	}
	p, _ := astutil.PathEnclosingInterval(file, pos, pos)
	return p
}

func init() {
	register(&property{
		Meta: propertyMeta{
			ID:          "C01",
			Explanation: "The index that lookup walks is complete and ordered as the property states (not the regexp semantics of a pattern): (C01-ACCUM) path-sensitive evaluation of every insert into the two list-valued tier tables: the stored list is 'existing list ++ [route]', a fresh list only on a path where the comma-ok lookup said absent. (C01-METHODS) every tier insert is keyed by each element of a range over route.methods. (C01-KEYS) writer and reader keys agree per tier (static: method + whole path; first-segment: method + seg(X) with the same canonical form of seg on both sides; residual: method). (C01-TIERS) in match the static lookup dominates everything, a static hit returns at once, the cache sits after static and before dynamic matching, first-segment list before residual list, each scan is a range loop over the looked-up list applying the regexp to the whole path and returning the first candidate that matches with its own parameters. (C01-REPR) representation typestate: values derived from quotePointChar (regex-escaped text and offsets) flow only into the compile call, never into Route.start or the first-segment key, which are compared with raw request text; (C01-SPACE) the same separation for every literal-space sink (Route.path, Route.start, a read Route.spath, the returned table key, the URL template of ToURL) against every escaping/rewriting step. (C01-PREFILTER) the literal-prefix pre-filter in front of each regexp call (in match or in a wrapper such as Route.match) is evaluated abstractly under the two boundary scenarios of a path that begins with the route's start (equal length / longer): in neither may the candidate be given up without the regexp being tried. (C01-ANCHOR) every compiled route pattern is '^' ++ ... ++ '$'. (C01-REGEX) in Route.matchRegex every path on which the verdict can be true has run a Match*/Find* method of the receiver's own compiled pattern on the path parameter; a regex-free shortcut re-implements the grammar and is reported even where it might agree. (C01-ORDER) a function that takes a bucket out of regularRoutes / irregularRoutes (lookup or range over a map of that type, also through a receiver or a closure) neither stores into its elements nor passes it to sort.*, slices.Sort*, slices.Reverse or copy as destination.",
			NotDecided:  []string{"that the generated regexp means what the pattern grammar says ({name}, {name:regex}, [...])", "isFixedPath and the off-by-one arithmetic inside seg (only writer/reader agreement is checked)", "priority among patterns that the grammar makes overlap beyond tier and registration order"},
			Assumptions: []string{"regexp package semantics", "go/ssa range-loop lowering (#rangeindex) visits elements in ascending order"},
		},
		Rules: []ruleFn{{"C01-ACCUM", ruleC01Accum}, {"C01-METHODS", ruleC01Methods}, {"C01-KEYS", ruleC01Keys}, {"C01-TIERS", ruleC01Tiers}, {"C01-REPR", ruleC01Repr}, {"C01-ANCHOR", ruleC01Anchor}, {"C01-GRAMMAR", ruleC01Grammar}, {"C01-SPACE", ruleC01Space}, {"C01-PREFILTER", ruleC01Prefilter}, {"C01-REGEX", ruleC01Regex}, {"C07-KEY", ruleCacheKey("C07-KEY")}, {"C07-VALUE", ruleC02Cache("C07-VALUE")}, {"C07-NODE", ruleCacheStruct("C07")}},
	})
	register(&property{
		Meta: propertyMeta{
			ID:          "C02",
			Explanation: "Positional alignment 'i-th capture group <-> i-th variable name' (not the substring equality): (C02-ALIGN) on every path through one iteration of the variable loop of parseParamRoute exactly one name is appended to Route.matches and exactly one capture group '(' + v + ')' is appended for the same (n, v) that goodRegexString checked. (C02-KEYS) in matchRegex every iteration of the loop over the submatches stores an entry keyed by a variable name, so the key set of Params is the route's variable list (a variable of an unmatched optional part maps to \"\"). (C02-GROUPS) every store of a compiled pattern is followed on all paths by a registration-time panic unless regex.NumSubexp() == len(route.matches), which discharges the index r.matches[i] in matchRegex for all inputs. (C02-WRITERS) who-may-write Route.matches and Context.Params; Params is the second result of the one QuickMatch call whose first result is the dispatched route. (C02-CACHE) the cached copy carries exactly the pair the miss path returned; a hit returns (v, v.params); static routes return nil parameters. (C03-POOL, ownership clause) for every sync.Pool other than the context pool: no value that derives from Pool.Get is stored into a field of a module struct other than Context, and no argument of Pool.Put derives from a load of such a field. (C02-STATIC) every insert into the static table, in any function, is dominated (or reached on every path) by the variable-free test of the stored route's own whole path — isFixedPath(route.path) or the same test in line — because the static tier of match answers with no parameters.",
			NotDecided:  []string{"values equal the path substrings; values satisfy the variable's regex; empty string for absent optional parts (run-time regexp behaviour)"},
			Assumptions: []string{"regexp.FindAllStringSubmatch returns 1+NumSubexp entries per match (documented)"},
		},
		Rules: []ruleFn{{"C02-ALIGN", ruleC02Align}, {"C02-KEYS", ruleC02Keys}, {"C02-GROUPS", ruleC02Groups}, {"C02-WRITERS", ruleC02Writers}, {"C02-CACHE", ruleC02Cache("C02-CACHE")}, {"C07-NODE", ruleCacheStruct("C07")}, {"C07-KEY", ruleCacheKey("C07-KEY")}, {"C01-ANCHOR", ruleC01Anchor}, {"C01-GRAMMAR", ruleC01Grammar}, {"C01-REGEX", ruleC01Regex}, {"C03-POOL", ruleC03Pool}, {"C02-STATIC", ruleC02Static("C02-STATIC")}},
	})
}

// fieldBaseIs: v is a load of x.f with x == base.
func fieldBaseIs(v ssa.Value, base ssa.Value) bool {
	switch x := v.(type) {
	case *ssa.UnOp:
		if fa, ok := x.X.(*ssa.FieldAddr); ok {
			return fa.X == base
		}
	case *ssa.Field:
		return x.X == base
	}
	return false
}

// ---------------------------------------------------------------------------
// C01-GRAMMAR: the constant translation table of the pattern grammar, checked
// semantically (regexp/syntax), not textually.

func reNoSlashNonEmpty(expr string) (noSlash, nonEmpty bool, err error) {
	re, err := syntax.Parse(expr, syntax.Perl)
	if err != nil {
		return false, false, err
	}
	re = re.Simplify()
	var canSlash func(r *syntax.Regexp) bool
	canSlash = func(r *syntax.Regexp) bool {
		switch r.Op {
		case syntax.OpLiteral:
			for _, c := range r.Rune {
				if c == '/' {
					return true
				}
			}
			return false
		case syntax.OpCharClass:
			for i := 0; i+1 < len(r.Rune); i += 2 {
				if r.Rune[i] <= '/' && '/' <= r.Rune[i+1] {
					return true
				}
			}
			return false
		case syntax.OpAnyChar, syntax.OpAnyCharNotNL:
			return true
		}
		for _, s := range r.Sub {
			if canSlash(s) {
				return true
			}
		}
		return false
	}
	var canEmpty func(r *syntax.Regexp) bool
	canEmpty = func(r *syntax.Regexp) bool {
		switch r.Op {
		case syntax.OpEmptyMatch, syntax.OpStar, syntax.OpQuest, syntax.OpBeginLine, syntax.OpEndLine, syntax.OpBeginText, syntax.OpEndText, syntax.OpWordBoundary, syntax.OpNoWordBoundary:
			return true
		case syntax.OpLiteral:
			return len(r.Rune) == 0
		case syntax.OpCharClass, syntax.OpAnyChar, syntax.OpAnyCharNotNL:
			return false
		case syntax.OpPlus, syntax.OpCapture:
			return canEmpty(r.Sub[0])
		case syntax.OpRepeat:
			return r.Min == 0 || canEmpty(r.Sub[0])
		case syntax.OpConcat:
			for _, s := range r.Sub {
				if !canEmpty(s) {
					return false
				}
			}
			return true
		case syntax.OpAlternate:
			for _, s := range r.Sub {
				if canEmpty(s) {
					return true
				}
			}
			return false
		}
		return true
	}
	return !canSlash(re), !canEmpty(re), nil
}

func ruleC01Grammar(r *Run) {
	w := r.W
	rule := "C01-GRAMMAR"
	r.Floor(rule, 5)
	// {name}: one non-empty path segment
	am, _ := constString(w.Const("rux", "anyMatch").Value)
	ns, ne, err := reNoSlashNonEmpty(am)
	r.Check(rule, "rux.anyMatch", w.Const("rux", "anyMatch").Pos(), err == nil && ns && ne,
		fmt.Sprintf("default variable regex %q: cannot match '/' = %v, cannot match the empty string = %v (a plain {name} is exactly one non-empty path segment)", am, ns, ne))
	// the default is what parseParamRoute uses for variables without a regex
	pf := w.Fn("rux", "Router.parseParamRoute")
	okDef := false
	if ggv := w.FnOpt("rux", "getGlobalVar"); ggv != nil {
		for _, c := range callsToFn(pf, ggv) {
			if a := c.Common().Args; len(a) > 1 {
				if s, ok := constString(a[1]); ok && s == am {
					okDef = true
				}
			}
		}
	}
	if !okDef {
		// the lookup with default written in line: a merge of globalVars[n] (comma-ok) and the constant anyMatch
		gvar := w.Global("rux", "globalVars")
		eachInstr(pf, func(in ssa.Instruction) {
			ph, ok := in.(*ssa.Phi)
			if !ok {
				return
			}
			hasLookup, hasDef := false, false
			for _, lf := range valueLeaves(ph) {
				if s, okc := constString(lf); okc && s == am {
					hasDef = true
				}
				isGV := func(v ssa.Value) bool {
					ex, isEx := v.(*ssa.Extract)
					if !isEx || ex.Index != 0 {
						return false
					}
					lk, isLk := ex.Tuple.(*ssa.Lookup)
					if !isLk || !lk.CommaOk {
						return false
					}
					ld, isLd := lk.X.(*ssa.UnOp)
					return isLd && ld.Op == token.MUL && ld.X == ssa.Value(gvar)
				}
				if isGV(lf) {
					hasLookup = true
				}
				// ... or through a helper that returns (globalVars[name], ok)
				if ex, isEx := lf.(*ssa.Extract); isEx && ex.Index == 0 {
					if c, isCall := ex.Tuple.(*ssa.Call); isCall {
						if sc := staticCallee(c); sc != nil && w.InModule(sc) {
							all, n := true, 0
							eachInstr(sc, func(in ssa.Instruction) {
								if ret, isRet := in.(*ssa.Return); isRet && len(ret.Results) == 2 {
									n++
									if !isGV(ret.Results[0]) {
										all = false
									}
								}
							})
							if all && n > 0 {
								hasLookup = true
							}
						}
					}
				}
			}
			if hasLookup && hasDef {
				okDef = true
			}
		})
	}
	r.Check(rule, "(*Router).parseParamRoute:default regex", pf.Pos(), okDef, "variables without a custom regex use anyMatch unless a global variable of that name is defined")
	// the built-in global variables 'any' and 'num' stay inside one segment
	gv := w.Global("rux", "globalVars")
	init := w.SSA[modPath].Func("init")
	var mk *ssa.MakeMap
	eachInstr(init, func(in ssa.Instruction) {
		if st, ok := in.(*ssa.Store); ok && st.Addr == ssa.Value(gv) {
			mk, _ = st.Val.(*ssa.MakeMap)
		}
	})
	if mk != nil {
		for _, ref := range *mk.Referrers() {
			if mu, ok := ref.(*ssa.MapUpdate); ok {
				k, _ := constString(mu.Key)
				v, _ := constString(mu.Value)
				if k == "all" {
					continue // documented to span segments
				}
				ns, ne, err := reNoSlashNonEmpty(v)
				r.Check(rule, "rux.globalVars["+k+"]", w.InstrPos(mu), err == nil && ns && ne, fmt.Sprintf("built-in variable %q = %q stays inside one non-empty segment", k, v))
			}
		}
	}
	// '.' is a literal: every '.' is escaped
	qp := w.Fn("rux", "quotePointChar")
	okQ := false
	for _, c := range callsIn(qp, func(c ssa.CallInstruction) bool {
		n := calleeName(c)
		return n == "strings.Replace" || n == "strings.ReplaceAll"
	}) {
		a := c.Common().Args
		from, _ := constString(a[1])
		to, _ := constString(a[2])
		all := calleeName(c) == "strings.ReplaceAll"
		if !all && len(a) == 4 {
			n, _ := constInt(a[3])
			all = n < 0
		}
		if from == "." && to == `\.` && all && a[0] == ssa.Value(qp.Params[0]) {
			okQ = true
		}
	}
	r.Check(rule, "rux.quotePointChar", qp.Pos(), okQ, "every '.' of the pattern is replaced by an escaped dot")
	// optional parts: '[' opens a non-capturing group, ']' closes it optionally
	cpo := w.Fn("rux", "checkAndParseOptional")
	okO := false
	// the replacer whose Replace(path) result the function returns: built in place, or a package-level
	// variable assigned exactly once (in its declaration) from strings.NewReplacer
	var replacers []ssa.CallInstruction
	for _, rc := range callsToName(cpo, "(*strings.Replacer).Replace") {
		recv := rc.Common().Args[0]
		if c, ok := recv.(*ssa.Call); ok && calleeName(c) == "strings.NewReplacer" {
			replacers = append(replacers, c)
			continue
		}
		if ld, ok := recv.(*ssa.UnOp); ok && ld.Op == token.MUL {
			if g, ok := ld.X.(*ssa.Global); ok {
				var stores []*ssa.Store
				for _, f := range w.Funcs {
					eachInstr(f, func(in ssa.Instruction) {
						if st, ok := in.(*ssa.Store); ok && st.Addr == ssa.Value(g) {
							stores = append(stores, st)
						}
					})
				}
				if len(stores) == 1 && stores[0].Parent().Synthetic != "" {
					if c, ok := stores[0].Val.(*ssa.Call); ok && calleeName(c) == "strings.NewReplacer" {
						replacers = append(replacers, c)
					}
				}
			}
		}
	}
	// the same translation spelled as chained ReplaceAll calls: ReplaceAll(ReplaceAll(path, "[", open), "]", close)
	var chained [][4]string
	for _, oc := range callsIn(cpo, func(c ssa.CallInstruction) bool {
		n := calleeName(c)
		return n == "strings.ReplaceAll" || n == "strings.Replace"
	}) {
		a := oc.Common().Args
		ic, isCall := a[0].(*ssa.Call)
		if !isCall || (calleeName(ic) != "strings.ReplaceAll" && calleeName(ic) != "strings.Replace") {
			continue
		}
		full := func(c ssa.CallInstruction) bool {
			if calleeName(c) == "strings.ReplaceAll" {
				return true
			}
			n, okn := constInt(c.Common().Args[3])
			return okn && n < 0
		}
		if !full(oc) || !full(ic) {
			continue
		}
		f1, ok1 := constString(ic.Call.Args[1])
		t1, ok2 := constString(ic.Call.Args[2])
		f2, ok3 := constString(a[1])
		t2, ok4 := constString(a[2])
		// the second replacement must not touch what the first one inserted
		if ok1 && ok2 && ok3 && ok4 && !strings.Contains(t1, f2) {
			chained = append(chained, [4]string{f1, t1, f2, t2})
		}
	}
	checkPairs := func(s [4]string) bool {
		if s[0] == "]" && s[2] == "[" {
			s = [4]string{s[2], s[3], s[0], s[1]}
		}
		if s[0] != "[" || s[2] != "]" {
			return false
		}
		re, err := syntax.Parse("x"+s[1]+"y"+s[3], syntax.Perl)
		if err != nil || re.MaxCap() != 0 {
			return false
		}
		cre, err2 := regexp.Compile("^(?:" + "x" + s[1] + "y" + s[3] + ")$")
		return err2 == nil && cre.MatchString("x") && cre.MatchString("xy") && !cre.MatchString("xyy") && !cre.MatchString("") && !cre.MatchString("y")
	}
	for _, ch := range chained {
		if checkPairs(ch) {
			okO = true
		}
	}
	for _, c := range replacers {
		el := litElems(c.Common().Args[0])
		if len(el) == 4 {
			var s [4]string
			for i, e := range el {
				s[i], _ = constString(e)
			}
			// validate semantically: "x" + open + "y" + close must parse to x(?:y)? with no capture group
			if s[0] == "[" && s[2] == "]" {
				re, err := syntax.Parse("x"+s[1]+"y"+s[3], syntax.Perl)
				if err == nil && re.MaxCap() == 0 {
					re = re.Simplify()
					// must match "x" and "xy" and nothing else of length <= 3 over {x,y}
					cre, err2 := regexp.Compile("^(?:" + "x" + s[1] + "y" + s[3] + ")$")
					if err2 == nil && cre.MatchString("x") && cre.MatchString("xy") && !cre.MatchString("xyy") && !cre.MatchString("") && !cre.MatchString("y") {
						okO = true
					}
				}
			}
		}
	}
	r.Check(rule, "rux.checkAndParseOptional:translation", cpo.Pos(), okO, "'[' ... ']' is translated to an optional non-capturing group")
}

// cacheSite: one place where the matcher fills the route cache, in the matcher's own terms.
type cacheSite struct {
	fn        *ssa.Function
	in        ssa.Instruction // the wrapper call, or the Set call written in line
	key       string          // canonical form of the key as the calling function sees it
	route, ps ssa.Value       // the pair that is copied into the cache (nil: not of the form route.copyWithParams(ps))
	viaWrap   bool
}

type cacheProblem struct {
	construct string
	in        ssa.Instruction
	why       string
}

// cacheStoreSites finds every fill of the route cache from router code: calls of the wrapper
// cacheDynamicRoute (when it exists; the key/route/parameters it stores are expressed through
// the call's arguments) and direct calls of cachedRoutes.Set.
func cacheStoreSites(w *World, m *tierModel) ([]cacheSite, []cacheProblem) {
	set := w.Fn("rux", "cachedRoutes.Set")
	cw := m.copyWithParams
	cd := m.cacheDyn
	var sites []cacheSite
	var problems []cacheProblem
	copies := findRouteCopies(w, m)
	pair := func(v ssa.Value) (route, ps ssa.Value) {
		if cc, ok := v.(*ssa.Call); ok && cw != nil && staticCallee(cc) == cw && len(cc.Call.Args) == 2 {
			return cc.Call.Args[0], cc.Call.Args[1]
		}
		// the copy written in line: the stored value is a fresh Route copied from the matched one
		for _, rc := range copies {
			if v == ssa.Value(rc.cell) {
				return rc.src, rc.ps
			}
		}
		return nil, nil
	}
	for _, f := range w.Funcs {
		if cd != nil && f == cd {
			continue
		}
		if f.Pkg == nil || f.Pkg.Pkg.Path() != modPath {
			continue
		}
		if recv := f.Signature.Recv(); recv != nil && isNamedPtr(recv.Type(), w.Named("rux", "cachedRoutes")) {
			continue // the cache's own methods
		}
		for _, c := range callsToFn(f, set) {
			a := c.Common().Args
			rt, ps := pair(a[2])
			sites = append(sites, cacheSite{fn: f, in: c.(ssa.Instruction), key: canon(a[1]), route: rt, ps: ps})
		}
		if cd == nil {
			continue
		}
		for _, c := range callsToFn(f, cd) {
			inner := callsToFn(cd, set)
			if len(inner) != 1 {
				problems = append(problems, cacheProblem{"(*Router).cacheDynamicRoute:Set sites", c.(ssa.Instruction), fmt.Sprintf("the wrapper has %d Set calls (one expected)", len(inner))})
				continue
			}
			ia := inner[0].Common().Args
			site := cacheSite{fn: f, in: c.(ssa.Instruction), viaWrap: true, key: canonSubst(ia[1], cd.Params, c.Common().Args)}
			if !flowsOnlyFromParams(ia[1], cd) {
				problems = append(problems, cacheProblem{"(*Router).cacheDynamicRoute:Set key#1", inner[0].(ssa.Instruction), "the wrapper stores under a key that is not a function of the key material it was given"})
			}
			if rt, ps := pair(ia[2]); rt != nil {
				idx := func(v ssa.Value) int {
					for i, prm := range cd.Params {
						if ssa.Value(prm) == v {
							return i
						}
					}
					return -1
				}
				if ri, pi := idx(rt), idx(ps); ri >= 0 && pi >= 0 && ri < len(c.Common().Args) && pi < len(c.Common().Args) {
					site.route, site.ps = c.Common().Args[ri], c.Common().Args[pi]
				}
			}
			sites = append(sites, site)
		}
	}
	return sites, problems
}

// routeCopy: a fresh Route value initialised from another route (whole-struct copy or the field-wise
// spelling) — the copy that goes into the cache. src is the route copied from, ps the value stored
// into the copy's params field (nil if none).
type routeCopy struct {
	fn      *ssa.Function
	cell    *ssa.Alloc
	src, ps ssa.Value
	wholeSt ssa.Instruction
}

func findRouteCopies(w *World, m *tierModel) []routeCopy {
	routeT := w.Named("rux", "Route")
	var out []routeCopy
	for _, f := range w.Funcs {
		if f.Pkg == nil || f.Pkg.Pkg.Path() != modPath {
			continue
		}
		eachInstr(f, func(in ssa.Instruction) {
			cell, ok := in.(*ssa.Alloc)
			if !ok || !types.Identical(cell.Type().(*types.Pointer).Elem(), routeT) {
				return
			}
			rc := routeCopy{fn: f, cell: cell}
			for _, ref := range *cell.Referrers() {
				switch x := ref.(type) {
				case *ssa.Store:
					if x.Addr == ssa.Value(cell) {
						if ld, ok := x.Val.(*ssa.UnOp); ok && ld.Op == token.MUL && isNamedPtr(ld.X.Type(), routeT) {
							rc.src, rc.wholeSt = ld.X, x
						}
					}
				case *ssa.FieldAddr:
					for _, r2 := range *x.Referrers() {
						st, ok := r2.(*ssa.Store)
						if !ok || st.Addr != ssa.Value(x) {
							continue
						}
						if fieldVar(x.X.Type(), x.Field) == m.params {
							rc.ps = st.Val
						} else if constructionCopy(st) && rc.src == nil {
							rc.src = unwrapAddr(st.Val.(*ssa.UnOp).X).Base
						}
					}
				}
			}
			if rc.src != nil {
				out = append(out, rc)
			}
		})
	}
	return out
}

// ---------------------------------------------------------------------------
// C01-PREFILTER — the literal-prefix pre-filter never rejects a candidate the regexp would accept.
//
// Before the regexp is tried, a candidate may be skipped when the path does not begin with the
// route's literal start. The filter is sound iff "path begins with start" implies "the regexp is
// tried". It is decided by abstract evaluation of the branch conditions between the candidate
// and the regexp call under the two boundary scenarios of a path that does begin with start:
// S1 len(path) == len(start) (e.g. the pattern /api/v1[/{name}] asked for as /api/v1) and
// S2 len(path) > len(start). In each scenario len comparisons between the two, path[:len(start)]
// == start, strings.Index(path, start) and strings.HasPrefix evaluate to constants; everything
// else (is start empty? ...) is unknown and both branches are followed. Reaching a skip (return /
// next iteration without the regexp call) in either scenario is a violation.

type preScenario int

const (
	preEQ preScenario = iota // len(path) == len(start), path == start
	preGT                    // len(path) > len(start), path begins with start
)

type tri int

const (
	triUnknown tri = iota
	triTrue
	triFalse
)

func triOf(b bool) tri {
	if b {
		return triTrue
	}
	return triFalse
}

type preEval struct {
	path  string // canonical form of the path value
	start *types.Var
	recv  string // canonical form of the candidate route
	sc    preScenario
	pred  map[*ssa.BasicBlock]*ssa.BasicBlock
}

func (e *preEval) isPath(v ssa.Value) bool { return canonAlong(v, e.pred) == e.path }
func (e *preEval) isStart(v ssa.Value) bool {
	v = resolveAlong(v, e.pred)
	if !isLoadOfField(v, e.start) {
		return false
	}
	// the route whose start it is: the value the field address is taken from
	ld, _ := v.(*ssa.UnOp)
	if ld == nil {
		return false
	}
	fa, ok := ld.X.(*ssa.FieldAddr)
	if !ok {
		return false
	}
	return canonAlong(fa.X, e.pred) == e.recv
}
func (e *preEval) lenKind(v ssa.Value) string {
	v = resolveAlong(v, e.pred)
	if c, ok := v.(*ssa.Call); ok && isBuiltin(c, "len") {
		if e.isPath(c.Call.Args[0]) {
			return "P"
		}
		if e.isStart(c.Call.Args[0]) {
			return "S"
		}
	}
	return ""
}

func (e *preEval) eval(v ssa.Value, depth int) tri {
	if depth > 8 {
		return triUnknown
	}
	v = resolveAlong(v, e.pred)
	switch x := v.(type) {
	case *ssa.Const:
		if x.Value != nil && x.Value.Kind() == constant.Bool {
			return triOf(constant.BoolVal(x.Value))
		}
	case *ssa.UnOp:
		if x.Op == token.NOT {
			switch e.eval(x.X, depth+1) {
			case triTrue:
				return triFalse
			case triFalse:
				return triTrue
			}
		}
	case *ssa.Call:
		if calleeName(x) == "strings.HasPrefix" && e.isPath(x.Call.Args[0]) && e.isStart(x.Call.Args[1]) {
			return triTrue
		}
	case *ssa.BinOp:
		cmp := func(op token.Token, rel int) tri { // rel: sign of (left - right)
			switch op {
			case token.EQL:
				return triOf(rel == 0)
			case token.NEQ:
				return triOf(rel != 0)
			case token.LSS:
				return triOf(rel < 0)
			case token.LEQ:
				return triOf(rel <= 0)
			case token.GTR:
				return triOf(rel > 0)
			case token.GEQ:
				return triOf(rel >= 0)
			}
			return triUnknown
		}
		lk, rk := e.lenKind(x.X), e.lenKind(x.Y)
		rel := 0
		if e.sc == preGT {
			rel = 1
		}
		if lk == "P" && rk == "S" {
			return cmp(x.Op, rel)
		}
		if lk == "S" && rk == "P" {
			return cmp(x.Op, -rel)
		}
		// strings.Index(path, start) OP const
		for _, side := range [][2]ssa.Value{{x.X, x.Y}, {x.Y, x.X}} {
			c, ok := resolveAlong(side[0], e.pred).(*ssa.Call)
			if !ok || (calleeName(c) != "strings.Index") || !e.isPath(c.Call.Args[0]) || !e.isStart(c.Call.Args[1]) {
				continue
			}
			k, okk := constInt(side[1])
			if !okk {
				continue
			}
			op := x.Op
			if side[0] == x.Y {
				op = flipOp(op)
			}
			// the index is 0
			switch {
			case k == 0:
				return cmp(op, 0)
			case k > 0:
				return cmp(op, -1)
			default:
				return cmp(op, 1)
			}
		}
		// path[:len(start)] == start
		for _, side := range [][2]ssa.Value{{x.X, x.Y}, {x.Y, x.X}} {
			sl, ok := resolveAlong(side[0], e.pred).(*ssa.Slice)
			if !ok || !e.isPath(sl.X) || !e.isStart(side[1]) {
				continue
			}
			lowZero := sl.Low == nil
			if !lowZero {
				if k, okk := constInt(sl.Low); okk && k == 0 {
					lowZero = true
				}
			}
			if lowZero && sl.High != nil && e.lenKind(sl.High) == "S" {
				return cmp(x.Op, 0)
			}
		}
	}
	return triUnknown
}

func ruleC01Prefilter(r *Run) {
	w := r.W
	rule := "C01-PREFILTER"
	r.Floor(rule, 2)
	m := newTierModel(w)
	startF := w.Field("rux", "Route", "start")
	// every place a scan function is called from the matcher or from a wrapper of it
	type site struct {
		f    *ssa.Function
		call *ssa.Call
	}
	var sites []site
	seenF := map[*ssa.Function]bool{}
	var collect func(f *ssa.Function)
	collect = func(f *ssa.Function) {
		if seenF[f] {
			return
		}
		seenF[f] = true
		eachInstr(f, func(in ssa.Instruction) {
			c, ok := in.(*ssa.Call)
			if !ok || !m.scanFns[staticCallee(c)] {
				return
			}
			sites = append(sites, site{f, c})
			if sc := staticCallee(c); sc != m.matchRegex {
				collect(sc)
			}
		})
	}
	collect(m.matchFn)
	for i, s := range sites {
		f, call := s.f, s.call
		construct := fmt.Sprintf("%s:candidate#%d", FuncName(f), i+1)
		// region: one iteration of the innermost loop around the call, or the whole function
		ln := loopNest(f)
		var header *ssa.BasicBlock
		for h := range ln[call.Block()] {
			if header == nil || header.Dominates(h) {
				header = h
			}
		}
		var starts []*ssa.BasicBlock
		if header != nil {
			for _, sc := range header.Succs {
				if ln[sc][header] {
					starts = append(starts, sc)
				}
			}
		} else {
			starts = []*ssa.BasicBlock{f.Blocks[0]}
		}
		okAll := true
		why := ""
		for _, scn := range []preScenario{preEQ, preGT} {
			ev := &preEval{path: canon(call.Call.Args[1]), start: startF, recv: canon(call.Call.Args[0]), sc: scn}
			steps := 0
			var walk func(b *ssa.BasicBlock, pred map[*ssa.BasicBlock]*ssa.BasicBlock, seen map[*ssa.BasicBlock]bool)
			walk = func(b *ssa.BasicBlock, pred map[*ssa.BasicBlock]*ssa.BasicBlock, seen map[*ssa.BasicBlock]bool) {
				steps++
				if steps > 4000 || !okAll {
					return
				}
				for _, in := range b.Instrs {
					if in == ssa.Instruction(call) {
						return // the regexp is tried
					}
					if panicsAt(in) {
						return
					}
					if _, isRet := in.(*ssa.Return); isRet {
						okAll = false
						why = fmt.Sprintf("with len(path) %s len(start) the candidate is given up at %s without trying the regexp", map[preScenario]string{preEQ: "==", preGT: ">"}[scn], w.Pos(w.InstrPos(in)))
						return
					}
				}
				var succs []*ssa.BasicBlock
				if iff, ok := b.Instrs[len(b.Instrs)-1].(*ssa.If); ok {
					ev.pred = pred
					switch ev.eval(iff.Cond, 0) {
					case triTrue:
						succs = b.Succs[:1]
					case triFalse:
						succs = b.Succs[1:2]
					default:
						succs = b.Succs
					}
				} else {
					succs = b.Succs
				}
				for _, sc := range succs {
					if header != nil && sc == header {
						okAll = false
						why = fmt.Sprintf("with len(path) %s len(start) the loop goes on to the next candidate without trying the regexp on this one", map[preScenario]string{preEQ: "==", preGT: ">"}[scn])
						return
					}
					if header != nil && !ln[sc][header] {
						continue // leaves the loop: not this candidate's business
					}
					if seen[sc] {
						continue
					}
					np := map[*ssa.BasicBlock]*ssa.BasicBlock{}
					for k, v := range pred {
						np[k] = v
					}
					np[sc] = b
					ns := map[*ssa.BasicBlock]bool{}
					for k := range seen {
						ns[k] = true
					}
					ns[sc] = true
					walk(sc, np, ns)
				}
			}
			for _, st := range starts {
				walk(st, map[*ssa.BasicBlock]*ssa.BasicBlock{}, map[*ssa.BasicBlock]bool{st: true})
			}
		}
		r.Check(rule, construct, w.InstrPos(call), okAll, map[bool]string{true: "whenever the path begins with the route's literal start (equal length or longer) the regexp is tried on the candidate", false: "the literal-prefix pre-filter rejects a candidate whose start is a prefix of the path: " + why + " (a route such as /api/v1[/{name}] is not found for /api/v1)"}[okAll])
	}
}

// ---------------------------------------------------------------------------
// C01-REGEX: a dynamic route is reported as matching only by its compiled pattern

// ruleC01Regex: the anchored pattern that registration compiled from the route definition is the only
// statement of the pattern semantics ({name} = one NON-EMPTY segment, custom regexes, '.' literal, optional
// parts). In the scan function every path on which the verdict can be true must therefore have run a match
// method of that route's own compiled pattern on the request path; a shortcut that answers "matched" from
// string comparisons alone re-implements the grammar (and gets the corner cases — empty segment, '.',
// custom classes — wrong without any existing test noticing).
func ruleC01Regex(r *Run) {
	w := r.W
	rule := "C01-REGEX"
	r.Floor(rule, 1)
	m := newTierModel(w)
	f := m.matchRegex
	if f == nil || len(f.Params) < 2 {
		r.Undecided(rule, "(*Route).matchRegex", token.NoPos, "scan function not found")
		return
	}
	recv, pathP := f.Params[0], f.Params[1]
	isScan := func(in ssa.Instruction, pred map[*ssa.BasicBlock]*ssa.BasicBlock) bool {
		c, ok := in.(*ssa.Call)
		if !ok {
			return false
		}
		n := calleeName(c)
		if !strings.HasPrefix(n, "(*regexp.Regexp).Match") && !strings.HasPrefix(n, "(*regexp.Regexp).Find") {
			return false
		}
		if len(c.Call.Args) < 2 {
			return false
		}
		rx := resolveAlong(c.Call.Args[0], pred)
		acc := unwrapAddr(rx)
		if acc.Base != ssa.Value(recv) || len(acc.Fields) != 1 || acc.Fields[0] != m.regex {
			return false
		}
		arg := resolveAlong(c.Call.Args[1], pred)
		return flowsFromDeep(arg, func(v ssa.Value) bool { return v == ssa.Value(pathP) })
	}
	n := 0
	eachInstr(f, func(in ssa.Instruction) {
		ret, ok := in.(*ssa.Return)
		if !ok || len(ret.Results) != 2 {
			return
		}
		n++
		construct := fmt.Sprintf("%s:return#%d", FuncName(f), n)
		paths, complete := enumPaths(f, ret, 4096)
		if !complete {
			r.Undecided(rule, construct, w.InstrPos(ret), "too many paths")
			return
		}
		bad := ""
		nTrue := 0
		for _, p := range paths {
			okv := resolveAlong(ret.Results[1], p.pred)
			allFalse := true
			for _, lf := range valueLeaves(okv) {
				if c, isC := lf.(*ssa.Const); !isC || c.Value == nil || c.Value.String() != "false" {
					allFalse = false
				}
			}
			if allFalse {
				continue
			}
			nTrue++
			scanned := false
			for _, b := range p.blocks {
				for _, x := range b.Instrs {
					if x == in {
						break
					}
					if isScan(x, p.pred) {
						scanned = true
					}
				}
			}
			if !scanned && bad == "" {
				bad = fmt.Sprintf("a path (%d blocks) returns a verdict that can be true without having matched the route's compiled pattern against the path", len(p.blocks))
			}
		}
		if nTrue == 0 {
			// "no match" is the compiled pattern's verdict as well: a pre-filter in front of it (a minimum length, a
			// suffix test) is one more hand-written statement of the grammar, and wrong as soon as it is computed from
			// another spelling of the pattern (the regex-escaped text, the pattern with its optional part)
			unscanned := ""
			for _, p := range paths {
				scanned := false
				for _, b := range p.blocks {
					for _, x := range b.Instrs {
						if x == in {
							break
						}
						if isScan(x, p.pred) {
							scanned = true
						}
					}
				}
				if !scanned && unscanned == "" {
					unscanned = fmt.Sprintf("a path (%d blocks) answers 'no match' without having run the route's compiled pattern", len(p.blocks))
				}
			}
			r.Check(rule, construct, w.InstrPos(ret), unscanned == "", map[bool]string{true: "the verdict is false on every path to this return, and each of them ran the compiled pattern first", false: unscanned + ": a pre-filter inside the scan function rejects paths by a criterion of its own (length, prefix, suffix) — the pattern is the only statement of what matches"}[unscanned == ""])
			return
		}
		r.Check(rule, construct, w.InstrPos(ret), bad == "", map[bool]string{true: fmt.Sprintf("on each of the %d path(s) on which the verdict can be true, r.regex was matched against the request path", nTrue), false: bad + ": the grammar ({name} = one non-empty segment, custom regexes, '.' literal, optional parts) is stated by the compiled pattern only, a shortcut re-implements it"}[bad == ""])
	})
}
