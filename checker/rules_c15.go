package main

// rules_c15.go — C15 (name index), C16 (Resource table), C17 (static files).

import (
	"fmt"
	"go/ast"
	"go/token"
	"go/types"
	"regexp"
	"sort"
	"strconv"
	"strings"

	"golang.org/x/tools/go/ssa"
)

// ---------------------------------------------------------------------------
// C15-INDEX

func ruleC15Index(r *Run) {
	w := r.W
	rule := "C15-INDEX"
	r.Floor(rule, 6)
	nameF := w.Field("rux", "Route", "name")
	namedF := w.Field("rux", "Router", "namedRoutes")
	ar := w.Fn("rux", "Router.appendRoute")
	namedTo := w.Fn("rux", "Route.NamedTo")
	// writers of Route.name
	for _, f := range w.Funcs {
		for i, st := range storesToField(f, nameF) {
			construct := fmt.Sprintf("%s:store Route.name#%d", FuncName(f), i+1)
			fa := fieldAddrOf(st)
			if al, ok := fa.X.(*ssa.Alloc); ok && al.Heap {
				r.Check(rule, construct, w.InstrPos(st), true, "name set in a constructor (route not yet registered; appendRoute indexes it)")
				continue
			}
			// naming an existing route: must index under the same name on the same path
			ok := false
			eachInstr(f, func(in ssa.Instruction) {
				mu, isMU := in.(*ssa.MapUpdate)
				if !isMU || unwrapAddr(mu.Map).lastField() != namedF {
					return
				}
				if mu.Key == st.Val && mu.Value == fa.X && (dominates(st, in) || dominates(in, st)) {
					if okAll, _ := allPathsHit(f, st, func(x ssa.Instruction) bool { return x == in }); okAll || dominates(in, st) {
						ok = true
					}
				}
			})
			r.Check(rule, construct, w.InstrPos(st), ok, map[bool]string{true: "the name store is paired with namedRoutes[sameName] = sameRoute on the same path", false: "a route is (re)named without updating the name index under the same name: GetRoute/BuildURL do not find the most recent naming"}[ok])
		}
	}
	// writers of the index
	for _, f := range w.Funcs {
		n := 0
		eachInstr(f, func(in ssa.Instruction) {
			mu, ok := in.(*ssa.MapUpdate)
			if !ok || unwrapAddr(mu.Map).lastField() != namedF {
				return
			}
			n++
			okW := f == ar || f == namedTo
			r.Check(rule, fmt.Sprintf("%s:index write#%d", FuncName(f), n), w.InstrPos(in), okW, "the name index is written only by appendRoute and NamedTo (last writer wins: plain map assignment)")
			if f == ar {
				okKV := isLoadOfField(mu.Key, nameF) && unwrapAddr(mu.Key).Base == ssa.Value(ar.Params[1]) && mu.Value == ssa.Value(ar.Params[1])
				r.Check(rule, "(*Router).appendRoute:index entry", w.InstrPos(in), okKV, "namedRoutes[route.name] = route for the route being registered")
				// on every path with a non-empty name, before any return
				nonEmpty := func(cond ssa.Value, truth bool) bool {
					b, okb := cond.(*ssa.BinOp)
					if !okb || !isLoadOfField(b.X, nameF) {
						return false
					}
					s, okc := constString(b.Y)
					return okc && s == "" && ((b.Op == token.NEQ && truth) || (b.Op == token.EQL && !truth))
				}
				cutEmpty := cutEdges(ar, func(c ssa.Value, t bool) bool { return nonEmpty(c, !t) })
				skip := pathExists(ar, nil, isReturnInstr, func(x ssa.Instruction) bool { return x == in }, cutEmpty)
				r.Check(rule, "(*Router).appendRoute:indexed on every path", w.InstrPos(in), !skip, map[bool]string{true: "every named route is indexed whatever tier it lands in (no return before the index write)", false: "a path returns from appendRoute without indexing a named route (e.g. the index write sits below the static tier's return)"}[!skip])
			}
		})
	}
	// deletes / other mutations of the index
	for _, f := range w.Funcs {
		eachInstr(f, func(in ssa.Instruction) {
			if c, ok := in.(*ssa.Call); ok && isBuiltin(c, "delete") && unwrapAddr(c.Call.Args[0]).lastField() == namedF {
				r.Check(rule, FuncName(f)+":index delete", w.InstrPos(in), false, "entries are removed from the name index")
			}
		})
	}
	// readers
	gr := w.Fn("rux", "Router.GetRoute")
	okGR := false
	eachInstr(gr, func(in ssa.Instruction) {
		if ret, ok := in.(*ssa.Return); ok && len(ret.Results) == 1 {
			if lk, isLk := ret.Results[0].(*ssa.Lookup); isLk && unwrapAddr(lk.X).lastField() == namedF && lk.Index == ssa.Value(gr.Params[1]) {
				okGR = true
			}
		}
	})
	r.Check(rule, "(*Router).GetRoute", gr.Pos(), okGR, "GetRoute(name) is a plain lookup of the name index")
	bu := w.Fn("rux", "Router.BuildURL")
	okBU := false
	for _, c := range callsToFn(bu, gr) {
		if c.Common().Args[1] == ssa.Value(bu.Params[1]) {
			okBU = true
		}
	}
	r.Check(rule, "(*Router).BuildURL:resolves through GetRoute", bu.Pos(), okBU, "BuildURL resolves the name through the same index")
	// ToURL builds from the route's own (normalised) path
	tu := w.Fn("rux", "Route.ToURL")
	pathF := w.Field("rux", "Route", "path")
	okTU := len(loadsOfField(tu, pathF)) >= 1
	r.Check(rule, "(*Route).ToURL:uses route.path", tu.Pos(), okTU, "the URL is built from the registered pattern of that route")
}

// ---------------------------------------------------------------------------
// C16

// globalInit: constant string initial values of package-level vars, and who writes them.
func globalStringInits(w *World) (map[*ssa.Global]string, map[*ssa.Global][]string) {
	vals := map[*ssa.Global]string{}
	writers := map[*ssa.Global][]string{}
	for _, f := range w.Funcs {
		eachInstr(f, func(in ssa.Instruction) {
			st, ok := in.(*ssa.Store)
			if !ok {
				return
			}
			g, ok := st.Addr.(*ssa.Global)
			if !ok {
				return
			}
			writers[g] = append(writers[g], FuncName(f))
			if s, okc := constString(st.Val); okc && f.Name() == "init" {
				vals[g] = s
			}
		})
	}
	return vals, writers
}

type foldEnv struct {
	vals    map[ssa.Value]string
	globals map[*ssa.Global]string
}

// foldStr: constant-fold a string expression under env.
func (e *foldEnv) fold(v ssa.Value) (string, bool) {
	if s, ok := e.vals[v]; ok {
		return s, true
	}
	switch x := v.(type) {
	case *ssa.Const:
		return constString(x)
	case *ssa.BinOp:
		if x.Op == token.ADD {
			a, ok1 := e.fold(x.X)
			b, ok2 := e.fold(x.Y)
			return a + b, ok1 && ok2
		}
	case *ssa.UnOp:
		if x.Op == token.MUL {
			if g, ok := x.X.(*ssa.Global); ok {
				s, has := e.globals[g]
				return s, has
			}
			if fv, ok := x.X.(*ssa.FreeVar); ok {
				if s, has := e.vals[fv]; has {
					return s, true
				}
				// a variable of the enclosing function that is assigned once: fold what it was given there
				if b := freeVarBinding(fv); b != nil {
					if cell, isCell := b.(*ssa.Alloc); isCell {
						if sv := singleStore(cell); sv != nil {
							return e.fold(sv)
						}
					}
				}
			}
			if cell, isCell := x.X.(*ssa.Alloc); isCell {
				if sv := singleStore(cell); sv != nil {
					return e.fold(sv)
				}
			}
		}
	case *ssa.FreeVar:
		if b := freeVarBinding(x); b != nil {
			if _, isCell := b.(*ssa.Alloc); !isCell {
				return e.fold(b)
			}
		}
	case *ssa.Call:
		// the controller's type name: a placeholder, the table is compared for the resource called "resource"
		if n := calleeName(x); strings.HasSuffix(n, ".Name") && (strings.Contains(n, "reflect.") || x.Call.IsInvoke()) {
			return "Resource", true
		}
		switch calleeName(x) {
		case "strings.ToLower":
			s, ok := e.fold(x.Call.Args[0])
			return strings.ToLower(s), ok
		case "strings.ToUpper":
			s, ok := e.fold(x.Call.Args[0])
			return strings.ToUpper(s), ok
		case "strings.TrimSpace":
			s, ok := e.fold(x.Call.Args[0])
			return strings.TrimSpace(s), ok
		}
	case *ssa.Phi:
		var res string
		for i, ed := range x.Edges {
			s, ok := e.fold(ed)
			if !ok || (i > 0 && s != res) {
				return "", false
			}
			res = s
		}
		return res, true
	}
	return "", false
}

type restRow struct {
	Methods []string
	Path    string
	Action  string
	Name    string
}

func (r restRow) String() string {
	return fmt.Sprintf("%s %s -> %s (%s)", strings.Join(r.Methods, "/"), r.Path, r.Action, r.Name)
}

// docTable parses the table in Resource's doc comment.
func docTable(w *World, f *ssa.Function) []restRow {
	fd, ok := f.Syntax().(*ast.FuncDecl)
	if !ok || fd.Doc == nil {
		return nil
	}
	re := regexp.MustCompile(`^\s*([A-Z]+(?:/[A-Z]+)*)\s+(/\S*)\s+([a-z]+)\s+([a-z_]+)\s*$`)
	var rows []restRow
	for _, line := range strings.Split(fd.Doc.Text(), "\n") {
		m := re.FindStringSubmatch(line)
		if m == nil {
			continue
		}
		ms := strings.Split(m[1], "/")
		sort.Strings(ms)
		rows = append(rows, restRow{ms, m[2], m[3], m[4]})
	}
	return rows
}

func normSuffix(s string) string {
	// what formatPath(prefix + simpleFmtPath(s)) does to the suffix, for a clean prefix
	s = strings.TrimSpace(s)
	s = "/" + strings.TrimLeft(s, "/")
	s = strings.TrimRight(s, "/")
	return s
}

func ruleC16Table(r *Run) {
	w := r.W
	rule := "C16-TABLE"
	r.Floor(rule, 8)
	res := w.Fn("rux", "Router.Resource")
	doc := docTable(w, res)
	r.Check(rule, "(*Router).Resource:doc table", res.Pos(), len(doc) == 7, fmt.Sprintf("%d rows parsed from Resource's doc comment (the repository's own statement of the table)", len(doc)))
	if len(doc) == 0 {
		return
	}
	gvals, gwriters := globalStringInits(w)
	// the action table
	actG := w.Global("rux", "RESTFulActions")
	init := w.SSA[modPath].Func("init")
	table := map[string][]string{}
	var mk *ssa.MakeMap
	eachInstr(init, func(in ssa.Instruction) {
		if st, ok := in.(*ssa.Store); ok && st.Addr == ssa.Value(actG) {
			mk, _ = st.Val.(*ssa.MakeMap)
		}
	})
	if mk == nil {
		r.Undecided(rule, "rux.RESTFulActions:literal", actG.Pos(), "RESTFulActions is not initialised with a map literal")
		return
	}
	env := &foldEnv{vals: map[ssa.Value]string{}, globals: gvals}
	for _, ref := range *mk.Referrers() {
		mu, ok := ref.(*ssa.MapUpdate)
		if !ok {
			continue
		}
		k, okk := env.fold(mu.Key)
		var ms []string
		for _, el := range litElems(mu.Value) {
			s, oks := env.fold(el)
			if !oks {
				okk = false
			}
			ms = append(ms, s)
		}
		if !okk {
			r.Undecided(rule, "rux.RESTFulActions:entry", w.InstrPos(mu), "non-constant key or method list")
			return
		}
		sort.Strings(ms)
		table[k] = ms
	}
	// nobody else writes the table or the action-name variables
	okW := len(gwriters[actG]) == 1
	for g, ws := range gwriters {
		if strings.HasSuffix(g.Name(), "Action") && g.Pkg.Pkg.Path() == modPath && len(ws) != 1 {
			okW = false
		}
	}
	eachFuncMapWrites(w, actG, func(f *ssa.Function, in ssa.Instruction) {
		if f.Name() != "init" {
			okW = false
		}
	})
	r.Check(rule, "rux.RESTFulActions:written only by its initialiser", actG.Pos(), okW, "the action table and the action-name variables are assigned nowhere but in their declarations")

	// the registration callback
	var cb *ssa.Function
	for _, a := range res.AnonFuncs {
		if len(callsToFn(a, w.Fn("rux", "Router.AddNamed"))) > 0 {
			cb = a
		}
	}
	if cb == nil {
		r.Undecided(rule, "(*Router).Resource:callback", res.Pos(), "no function literal registering through AddNamed")
		return
	}
	// loop over the table
	var nameV, methodsV ssa.Value
	var body, header *ssa.BasicBlock
	eachInstr(cb, func(in ssa.Instruction) {
		nx, ok := in.(*ssa.Next)
		if !ok {
			return
		}
		rg, ok := nx.Iter.(*ssa.Range)
		if !ok {
			return
		}
		if ld, ok := rg.X.(*ssa.UnOp); !ok || ld.X != ssa.Value(actG) {
			return
		}
		header = in.Block()
		for _, ref := range *nx.Referrers() {
			if ex, ok := ref.(*ssa.Extract); ok {
				switch ex.Index {
				case 1:
					nameV = ex
				case 2:
					methodsV = ex
				}
			}
		}
	})
	if header == nil || nameV == nil {
		r.Undecided(rule, "(*Router).Resource:loop", cb.Pos(), "the callback does not range over RESTFulActions")
		return
	}
	body = nameV.(*ssa.Extract).Block()
	paths, complete := enumPathsGen(cb, body, nil, header, 4096)
	if !complete {
		r.Undecided(rule, "(*Router).Resource:paths", cb.Pos(), "too many paths")
		return
	}
	addNamed := w.Fn("rux", "Router.AddNamed")
	// resName placeholder
	for _, fv := range cb.FreeVars {
		if fv.Name() == "resName" {
			env.vals[fv] = "resource"
		}
	}
	extracted := map[string]restRow{}
	slash := map[string]map[string]bool{} // "trailing slash" / "no trailing slash" -> rows (other than the bare "/")
	var actions []string
	for a := range table {
		actions = append(actions, a)
	}
	sort.Strings(actions)
	for _, action := range actions {
		env.vals[nameV] = action
		var regs []restRow
		for _, p := range paths {
			feasible := true
			for _, d := range p.decs {
				b, ok := d.Cond.(*ssa.BinOp)
				if !ok || (b.Op != token.EQL && b.Op != token.NEQ) {
					continue
				}
				var other ssa.Value
				if b.X == nameV {
					other = b.Y
				} else if b.Y == nameV {
					other = b.X
				} else {
					continue
				}
				ov, okf := env.fold(other)
				if !okf {
					r.Undecided(rule, "(*Router).Resource:condition", w.InstrPos(d.If), "action compared with a non-constant")
					return
				}
				want := (ov == action) == (b.Op == token.EQL)
				if d.Truth != want {
					feasible = false
				}
			}
			if !feasible {
				continue
			}
			for _, b := range p.blocks {
				for _, in := range b.Instrs {
					c, ok := in.(*ssa.Call)
					if !ok || staticCallee(c) != addNamed {
						continue
					}
					a := c.Call.Args
					name, ok1 := env.fold(resolvePhi(a[1], p))
					pth, ok2 := env.fold(resolvePhi(a[2], p))
					if !ok1 || !ok2 {
						r.Undecided(rule, "(*Router).Resource:AddNamed args", w.InstrPos(in), "route name or path is not a foldable constant expression")
						return
					}
					ms := table[action]
					if len(a) > 4 && a[4] != methodsV {
						ms = []string{"?"}
					}
					regs = append(regs, restRow{ms, "/resource" + normSuffix(pth), strings.ToLower(action), name})
					if pth != "/" && pth != "" {
						k := "no trailing slash"
						if strings.HasSuffix(pth, "/") {
							k = "trailing slash"
						}
						if slash[k] == nil {
							slash[k] = map[string]bool{}
						}
						slash[k][strings.ToLower(action)+" "+strconv.Quote(pth)] = true
					}
				}
			}
		}
		// all feasible registering paths must agree
		uniq := map[string]restRow{}
		for _, rr := range regs {
			uniq[rr.String()] = rr
		}
		if len(uniq) != 1 {
			r.Check(rule, "(*Router).Resource:action "+action, cb.Pos(), false, fmt.Sprintf("%d different registrations are possible for this action", len(uniq)))
			continue
		}
		for _, rr := range uniq {
			extracted[strings.ToLower(action)] = rr
		}
	}
	delete(env.vals, nameV)
	// C16-SLASH: the comparison below is made after the default normalisation, which drops a trailing slash.
	// With StrictLastSlash the slash is kept, and then "GET /res/create is served by create and never by show"
	// needs the fixed create row and the {id} rows to agree on it: show's pattern "{id}/" captures "create/".
	{
		var kinds []string
		for k, rows := range slash {
			var rs []string
			for x := range rows {
				rs = append(rs, x)
			}
			sort.Strings(rs)
			kinds = append(kinds, k+": "+strings.Join(rs, ", "))
		}
		sort.Strings(kinds)
		r.Check("C16-SLASH", "(*Router).Resource:trailing slashes", res.Pos(), len(slash) <= 1, map[bool]string{true: "every member path other than the bare \"/\" is written the same way (" + strings.Join(kinds, "; ") + "): the table is the same set of rows with and without StrictLastSlash", false: "the member paths disagree on the trailing slash (" + strings.Join(kinds, "; ") + "): identical after the default normalisation, but with StrictLastSlash the fixed create row and the {id} rows no longer line up — GET /res/create/ is captured by show with id=create, and edit answers on a differently shaped path than its siblings"}[len(slash) <= 1])
	}
	// compare with the documented table
	seen := map[string]bool{}
	for _, d := range doc {
		seen[d.Action] = true
		got, ok := extracted[d.Action]
		same := ok && got.String() == d.String()
		detail := "code registers " + got.String() + " = documented row"
		if !same {
			detail = fmt.Sprintf("documented: %s; the code registers: %s", d.String(), got.String())
		}
		r.Check(rule, "(*Router).Resource:row "+d.Action, res.Pos(), same, detail)
	}
	for a, got := range extracted {
		if !seen[a] {
			r.Check(rule, "(*Router).Resource:row "+a, res.Pos(), false, "the code registers an undocumented action: "+got.String())
		}
	}
}

func eachFuncMapWrites(w *World, g *ssa.Global, fn func(f *ssa.Function, in ssa.Instruction)) {
	for _, f := range w.Funcs {
		eachInstr(f, func(in ssa.Instruction) {
			switch x := in.(type) {
			case *ssa.MapUpdate:
				if ld, ok := x.Map.(*ssa.UnOp); ok && ld.X == ssa.Value(g) {
					fn(f, in)
				}
			case *ssa.Call:
				if isBuiltin(x, "delete") {
					if ld, ok := x.Call.Args[0].(*ssa.UnOp); ok && ld.X == ssa.Value(g) {
						fn(f, in)
					}
				}
			}
		})
	}
}

func ruleC16Only(r *Run) {
	w := r.W
	rule := "C16-ONLY"
	r.Floor(rule, 3) // one registration site: guard, once-per-iteration, nothing outside the loop
	res := w.Fn("rux", "Router.Resource")
	addNamed := w.Fn("rux", "Router.AddNamed")
	use := w.Fn("rux", "Route.Use")
	grp := w.Fn("rux", "Router.Group")
	var cb *ssa.Function
	for _, a := range res.AnonFuncs {
		if len(callsToFn(a, addNamed)) > 0 {
			cb = a
		}
	}
	if cb == nil {
		r.Undecided(rule, "(*Router).Resource:callback", res.Pos(), "no registering function literal")
		return
	}
	var nameV ssa.Value
	eachInstr(cb, func(in ssa.Instruction) {
		if nx, ok := in.(*ssa.Next); ok {
			for _, ref := range *nx.Referrers() {
				if ex, ok := ref.(*ssa.Extract); ok && ex.Index == 1 {
					nameV = ex
				}
			}
		}
	})
	for i, c := range callsToFn(cb, addNamed) {
		in := c.(ssa.Instruction)
		construct := fmt.Sprintf("(*Router).Resource$cb:AddNamed#%d", i+1)
		// guarded by IsValid() and the checked assertion; handler is the asserted value
		valid := factHolds(in, func(cond ssa.Value, truth bool) bool {
			cc, ok := cond.(*ssa.Call)
			if !ok || calleeName(cc) != "(reflect.Value).IsValid" || !truth {
				return false
			}
			mb, ok := cc.Call.Args[0].(*ssa.Call)
			return ok && calleeName(mb) == "(reflect.Value).MethodByName" && mb.Call.Args[1] == nameV
		})
		h := c.Common().Args[3]
		if ct, ok := h.(*ssa.ChangeType); ok {
			h = ct.X
		}
		asserted := false
		if ex, ok := h.(*ssa.Extract); ok && ex.Index == 0 {
			if ta, ok := ex.Tuple.(*ssa.TypeAssert); ok && ta.CommaOk {
				okv := extractOf(ta, 1)
				asserted = factHolds(in, func(cond ssa.Value, truth bool) bool { return cond == okv && truth })
			}
		}
		if _, isPhi := h.(*ssa.Phi); isPhi && !asserted {
			// the handler travels through a merged local (helper returning (fn, ok)): decide per path
			asserted = allPathsTo(in, func(p *pathCtx) bool {
				hv := resolvePhi(h, p)
				if ct, ok := hv.(*ssa.ChangeType); ok {
					hv = ct.X
				}
				ex, ok := hv.(*ssa.Extract)
				if !ok || ex.Index != 0 {
					return false
				}
				ta, ok := ex.Tuple.(*ssa.TypeAssert)
				if !ok || !ta.CommaOk {
					return false
				}
				okv := extractOf(ta, 1)
				for _, d := range p.decs {
					if d.Cond == okv && d.Truth {
						return true
					}
				}
				return false
			})
		}
		r.Check(rule, construct, w.InstrPos(in), valid && asserted, map[bool]string{true: "registered only when the controller has the method (IsValid) with the handler signature (checked assertion); the handler is that method", false: "an action is registered without the controller implementing it (or with another handler)"}[valid && asserted])
		// at most once per iteration
		again := pathExists(cb, in, func(x ssa.Instruction) bool {
			cc, ok := x.(*ssa.Call)
			return ok && staticCallee(cc) == addNamed
		}, func(x ssa.Instruction) bool { _, isNext := x.(*ssa.Next); return isNext }, nil)
		r.Check(rule, construct+" once", w.InstrPos(in), !again, "at most one registration per action")
	}
	// no registration outside the callback
	out := len(callsToFn(res, addNamed)) + len(callsToFn(res, w.Fn("rux", "Router.Add"))) + len(callsToFn(res, w.Fn("rux", "Router.AddRoute")))
	r.Check(rule, "(*Router).Resource:no registration outside the loop", res.Pos(), out == 0, "Resource registers nothing outside the action loop")
	// C16-USES
	var useCalls []ssa.CallInstruction
	for _, f := range withAnon(res) {
		useCalls = append(useCalls, callsToFn(f, use)...)
	}
	for i, c := range useCalls {
		in := c.(ssa.Instruction)
		a := c.Common().Args
		if in.Parent() != cb {
			r.Check("C16-USES", fmt.Sprintf("(*Router).Resource$cb:Use#%d", i+1), w.InstrPos(in), false, "per-action middleware is attached outside the iteration that created the action's route (to whatever route is found later)")
			continue
		}
		okRoute := false
		leaves := valueLeaves(a[0])
		okRoute = len(leaves) > 0
		for _, lf := range leaves {
			if isNilConst(lf) {
				// "no route for this action" merged in: fine where the call is guarded by route != nil
				guarded := factHolds(in, func(cond ssa.Value, truth bool) bool {
					b, ok := cond.(*ssa.BinOp)
					if !ok || (b.Op != token.EQL && b.Op != token.NEQ) {
						return false
					}
					subj := (b.X == a[0] && isNilConst(b.Y)) || (b.Y == a[0] && isNilConst(b.X))
					return subj && truth == (b.Op == token.NEQ)
				})
				if !guarded {
					okRoute = false
				}
				continue
			}
			cc, ok := lf.(*ssa.Call)
			if !ok || staticCallee(cc) != addNamed {
				okRoute = false
			}
		}
		okH := false
		if ex, ok := a[1].(*ssa.Extract); ok && ex.Index == 0 {
			if lk, ok := ex.Tuple.(*ssa.Lookup); ok && lk.Index == nameV {
				okv := extractOf(lk, 1)
				okH = factHolds(in, func(cond ssa.Value, truth bool) bool { return cond == okv && truth })
			}
		}
		r.Check("C16-USES", fmt.Sprintf("(*Router).Resource$cb:Use#%d", i+1), w.InstrPos(in), okRoute && okH, map[bool]string{true: "per-action middleware Uses()[name] is attached to the route created for that same name in this iteration", false: "per-action middleware is attached to another route or taken under another key"}[okRoute && okH])
	}
	// the map returned by the controller's Uses() belongs to the controller: Resource only reads it
	nW := 0
	for _, f := range withAnon(res) {
		eachInstr(f, func(in ssa.Instruction) {
			var mp ssa.Value
			switch x := in.(type) {
			case *ssa.MapUpdate:
				mp = x.Map
			case *ssa.Call:
				if isBuiltin(x, "delete") || isBuiltin(x, "clear") {
					mp = x.Call.Args[0]
				}
			}
			if mp == nil {
				return
			}
			if strings.HasSuffix(types.TypeString(mp.Type(), nil), "map[string][]"+modPath+".HandlerFunc") {
				nW++
				r.Check("C16-USES", fmt.Sprintf("%s:writes the Uses() map#%d", FuncName(f), nW), w.InstrPos(in), false,
					"Resource modifies the per-action middleware map it got from the controller's Uses(): a controller that returns the same map again (second Resource call, another router) loses its per-action middleware")
			}
		})
	}
	r.Check("C16-USES", "(*Router).Resource:Uses() map is read-only", res.Pos(), nW == 0, "the per-action middleware map is only read")
	// the Uses hook is looked up on the same reflect.Value as the actions: reflect's method set of the struct VALUE
	// (cv.Elem()) lacks pointer-receiver methods, so a lookup there silently finds no Uses() on controllers that
	// declare it on the pointer, while their actions (looked up on the pointer) are registered
	{
		var usesRecv, actRecv []ssa.Value
		for _, f := range withAnon(res) {
			eachInstr(f, func(in ssa.Instruction) {
				c, ok := in.(*ssa.Call)
				if !ok || calleeName(c) != "(reflect.Value).MethodByName" || len(c.Call.Args) < 2 {
					return
				}
				if k, isC := constString(c.Call.Args[1]); isC {
					if k == "Uses" {
						usesRecv = append(usesRecv, c.Call.Args[0])
					}
					return
				}
				actRecv = append(actRecv, c.Call.Args[0])
			})
		}
		if len(usesRecv) > 0 && len(actRecv) > 0 {
			same := true
			for _, u := range usesRecv {
				for _, a := range actRecv {
					if canon(u) != canon(a) {
						same = false
					}
				}
			}
			r.Check("C16-USES", "(*Router).Resource:Uses looked up like the actions", res.Pos(), same, map[bool]string{true: "MethodByName(\"Uses\") and MethodByName(action) are applied to the same reflect.Value", false: "the Uses() hook and the action methods are looked up on different reflect.Values (pointer vs. Elem()): a controller that declares Uses() on the pointer receiver gets its actions registered without their middleware"}[same])
		}
	}
	r.Floor("C16-USES", 2)
	// C16-REJECT
	gcalls := callsToFn(res, grp)
	r.Check("C16-REJECT", "(*Router).Resource:Group call", res.Pos(), len(gcalls) == 1, fmt.Sprintf("%d Group call(s)", len(gcalls)))
	for _, g := range gcalls {
		kinds := map[int64]bool{}
		for _, ft := range factsAt(g) {
			c0, pos := stripNot(ft.Cond)
			b, ok := c0.(*ssa.BinOp)
			if !ok {
				continue
			}
			call, ok := b.X.(*ssa.Call)
			if !ok || calleeName(call) != "(reflect.Value).Kind" && calleeName(call) != "(*reflect.rtype).Kind" && !strings.HasSuffix(calleeName(call), ".Kind") {
				continue
			}
			k, okc := constInt(b.Y)
			if !okc {
				continue
			}
			truth := ft.True == pos
			isEq := (b.Op == token.EQL && truth) || (b.Op == token.NEQ && !truth)
			// the other edge must panic
			blk := ft.If.Block()
			other := blk.Succs[0]
			if ft.True {
				other = blk.Succs[1]
			}
			if isEq && len(other.Instrs) > 0 && !isReturnInstr(other.Instrs[0]) && !pathExists(res, other.Instrs[0], isReturnInstr, nil, nil) {
				subj := call.Call.Value
				if !call.Call.IsInvoke() && len(call.Call.Args) > 0 {
					subj = call.Call.Args[0]
				}
				if k == 25 && !oneElemAway(subj) {
					// Kind() == Struct is asked of something that is not exactly the pointee of the controller (e.g. the end
					// of the whole pointer chain): a **T controller passes the gate and registers nothing
					continue
				}
				kinds[k] = true
			}
		}
		// reflect.Ptr == 22, reflect.Struct == 25
		r.Check("C16-REJECT", "(*Router).Resource:pointer-to-struct gate", w.InstrPos(g), kinds[22] && kinds[25], map[bool]string{true: "non-pointer and non-struct controllers panic before anything is registered", false: "the Kind() == Ptr / Elem().Kind() == Struct panics do not dominate the registration"}[kinds[22] && kinds[25]])
	}
	r.Floor("C16-REJECT", 2)
}

// ---------------------------------------------------------------------------
// C17

var fsSinks = map[string]int{ // callee -> index of the file-name argument
	"os.Open": 0, "os.OpenFile": 0, "os.ReadFile": 0, "os.Create": 0, "os.Stat": 0, "os.Lstat": 0, "os.ReadDir": 0, "os.Remove": 0,
	"io/ioutil.ReadFile": 0, "net/http.ServeFile": 2, "os.MkdirAll": 0, "os.WriteFile": 0, "os.DirFS": 0,
}

// isRequestSource: v carries text taken from the request.
func isRequestSource(w *World, v ssa.Value) (bool, string) {
	ctxT := w.Named("rux", "Context")
	switch x := v.(type) {
	case *ssa.Call:
		if sc := staticCallee(x); sc != nil && sc.Signature.Recv() != nil && isNamedPtr(sc.Signature.Recv().Type(), ctxT) && sc.Object() != nil && sc.Object().Exported() {
			switch sc.Name() {
			case "Param", "Query", "QueryParam", "QueryParams", "QueryValues", "Post", "PostParam", "PostParams", "Header", "Cookie", "ContentType",
				"ClientIP", "AcceptedTypes", "FormParams", "URL", "RawBodyData", "ReqCtxValue":
				return true, "(*Context)." + sc.Name() + "()"
			}
		}
		n := calleeName(x)
		if strings.HasPrefix(n, "(*net/http.Request).") || strings.HasPrefix(n, "(net/http.Header).") || strings.HasPrefix(n, "(*net/url.URL).") || strings.HasPrefix(n, "(net/url.Values).") {
			return true, n
		}
	case *ssa.UnOp:
		if x.Op == token.MUL {
			acc := unwrapAddr(x)
			for _, f := range acc.Fields {
				if f == nil {
					continue
				}
				if f.Name() == "Params" && f.Pkg() != nil && f.Pkg().Path() == modPath {
					return true, "Context.Params"
				}
				if f.Pkg() != nil && (f.Pkg().Path() == "net/http" || f.Pkg().Path() == "net/url") {
					switch f.Name() {
					case "URL", "RequestURI", "Header", "Form", "PostForm", "Host", "Path", "RawPath", "RawQuery", "Body", "MultipartForm", "Referer":
						return true, "request field " + f.Name()
					}
				}
			}
		}
	case *ssa.Lookup:
		if isParamsType(x.X.Type()) {
			return true, "Params lookup"
		}
	}
	return false, ""
}

func isParamsType(t types.Type) bool {
	n, ok := t.(*types.Named)
	return ok && n.Obj().Name() == "Params" && n.Obj().Pkg() != nil && n.Obj().Pkg().Path() == modPath
}

// taintedBy walks backwards from v; returns a description of the request source it derives from.
func taintedBy(w *World, v ssa.Value, callers map[*ssa.Function][]ssa.CallInstruction, depth int, seen map[ssa.Value]bool) (bool, string) {
	if v == nil || seen[v] || depth > 8 {
		return false, ""
	}
	seen[v] = true
	if ok, what := isRequestSource(w, v); ok {
		return true, what
	}
	rec := func(x ssa.Value) (bool, string) { return taintedBy(w, x, callers, depth, seen) }
	switch x := v.(type) {
	case *ssa.Phi:
		for _, e := range x.Edges {
			if ok, s := rec(e); ok {
				return true, s
			}
		}
	case *ssa.BinOp:
		if ok, s := rec(x.X); ok {
			return true, s
		}
		return rec(x.Y)
	case *ssa.Slice:
		return rec(x.X)
	case *ssa.Convert:
		return rec(x.X)
	case *ssa.ChangeType:
		return rec(x.X)
	case *ssa.MakeInterface:
		return rec(x.X)
	case *ssa.TypeAssert:
		return rec(x.X)
	case *ssa.Extract:
		return rec(x.Tuple)
	case *ssa.Index:
		return rec(x.X)
	case *ssa.IndexAddr:
		return rec(x.X)
	case *ssa.Lookup:
		return rec(x.X)
	case *ssa.FieldAddr:
		return rec(x.X)
	case *ssa.Field:
		return rec(x.X)
	case *ssa.UnOp:
		if x.Op == token.MUL {
			if a, ok := x.X.(*ssa.Alloc); ok {
				for _, ref := range *a.Referrers() {
					if st, ok := ref.(*ssa.Store); ok && st.Addr == ssa.Value(a) {
						if ok, s := rec(st.Val); ok {
							return true, s
						}
					}
				}
				// array literal elements
				for _, ref := range *a.Referrers() {
					if ia, ok := ref.(*ssa.IndexAddr); ok {
						for _, r2 := range *ia.Referrers() {
							if st, ok := r2.(*ssa.Store); ok {
								if ok, s := rec(st.Val); ok {
									return true, s
								}
							}
						}
					}
				}
				return false, ""
			}
			if fv, ok := x.X.(*ssa.FreeVar); ok {
				if b := freeVarBinding(fv); b != nil {
					if a, ok := b.(*ssa.Alloc); ok {
						for _, ref := range *a.Referrers() {
							if st, ok := ref.(*ssa.Store); ok && st.Addr == ssa.Value(a) {
								if ok, s := rec(st.Val); ok {
									return true, s
								}
							}
						}
						return false, ""
					}
					return rec(b)
				}
			}
			return rec(x.X)
		}
		return rec(x.X)
	case *ssa.FreeVar:
		if b := freeVarBinding(x); b != nil {
			return rec(b)
		}
	case *ssa.Alloc:
		for _, ref := range *x.Referrers() {
			if ia, ok := ref.(*ssa.IndexAddr); ok {
				for _, r2 := range *ia.Referrers() {
					if st, ok := r2.(*ssa.Store); ok {
						if ok, s := rec(st.Val); ok {
							return true, s
						}
					}
				}
			}
			if st, ok := ref.(*ssa.Store); ok && st.Addr == ssa.Value(x) {
				if ok, s := rec(st.Val); ok {
					return true, s
				}
			}
		}
	case *ssa.Call:
		// result derived from the arguments (string functions, Join, Sprintf, Clean, ...)
		for _, a := range callArgs(x) {
			if ok, s := rec(a); ok {
				return true, s
			}
		}
		if sc := staticCallee(x); sc != nil && w.InModule(sc) && sc.Blocks != nil {
			// result of a module function: its returned values
			var found bool
			var what string
			eachInstr(sc, func(in ssa.Instruction) {
				if ret, ok := in.(*ssa.Return); ok {
					for _, res := range ret.Results {
						if ok, s := taintedBy(w, res, callers, depth+1, seen); ok {
							found, what = true, s
						}
					}
				}
			})
			if found {
				return true, what
			}
		}
	case *ssa.Parameter:
		fn := x.Parent()
		idx := -1
		for i, q := range fn.Params {
			if q == x {
				idx = i
			}
		}
		for _, c := range callers[fn] {
			args := c.Common().Args
			if idx >= 0 && idx < len(args) {
				if ok, s := taintedBy(w, args[idx], callers, depth+1, seen); ok {
					return true, s + " via call in " + FuncName(c.Parent())
				}
			}
		}
	}
	return false, ""
}

func ruleC17Taint(r *Run) {
	w := r.W
	rule := "C17-TAINT"
	r.Floor(rule, 4)
	callers := map[*ssa.Function][]ssa.CallInstruction{}
	for _, f := range w.Funcs {
		eachInstr(f, func(in ssa.Instruction) {
			if c, ok := in.(ssa.CallInstruction); ok {
				if sc := staticCallee(c); sc != nil && w.InModule(sc) {
					callers[sc] = append(callers[sc], c)
				}
			}
		})
	}
	nSinks, nFixtureHits, nFixtures := 0, 0, 0
	for _, f := range w.Funcs {
		isFixture := strings.Contains(w.Fset.Position(f.Pos()).Filename, "zz_verif_fixture")
		if isFixture && f.Parent() == nil && f.Name() != "init" {
			nFixtures++
		}
		ord := map[string]int{}
		eachInstr(f, func(in ssa.Instruction) {
			var name string
			var arg ssa.Value
			switch x := in.(type) {
			case ssa.CallInstruction:
				name = calleeName(x)
				if i, ok := fsSinks[name]; ok {
					args := callArgs(x)
					if i < len(args) {
						arg = args[i]
					}
				} else if x.Common().IsInvoke() && x.Common().Method.Name() == "Open" && strings.Contains(types.TypeString(x.Common().Value.Type(), nil), "FileSystem") {
					name, arg = "http.FileSystem.Open", x.Common().Args[0]
				} else {
					name = ""
				}
			case *ssa.ChangeType:
				if types.TypeString(x.Type(), nil) == "net/http.Dir" {
					name, arg = "http.Dir(...)", x.X
				}
			case *ssa.Convert:
				if types.TypeString(x.Type(), nil) == "net/http.Dir" {
					name, arg = "http.Dir(...)", x.X
				}
			}
			if name == "" || arg == nil {
				return
			}
			nSinks++
			ord[name]++
			construct := fmt.Sprintf("%s:%s#%d", FuncName(f), name, ord[name])
			bad, what := taintedBy(w, arg, callers, 0, map[ssa.Value]bool{})
			if isFixture {
				if bad {
					nFixtureHits++
				}
				r.Check(rule, "fixture:"+construct, token.NoPos, bad, map[bool]string{true: "positive fixture is flagged as expected (" + what + " reaches " + name + ")", false: "the positive fixture is NOT flagged: the taint rule has lost its teeth"}[bad])
				return
			}
			r.Check(rule, construct, w.InstrPos(in), !bad, map[bool]string{true: "the file name given to " + name + " is not derived from request text (registration-time value or handler argument)", false: "request-derived text (" + what + ") reaches the file-system sink " + name + " without passing through http.FileServer's path cleaning: a request can name files outside the root"}[!bad])
		})
	}
	r.Exists(rule, "file-system sinks", token.NoPos, nSinks >= 3, fmt.Sprintf("%d file-system sink call(s) examined in the module", nSinks))
	if nFixtures > 0 {
		r.Check(rule, "fixture summary", token.NoPos, nFixtureHits >= 1, fmt.Sprintf("%d positive fixture sink(s) flagged", nFixtureHits))
	}
}

func ruleC17Root(r *Run) {
	w := r.W
	rule := "C17-ROOT"
	r.Floor(rule, 3)
	respF, reqF := w.Field("rux", "Context", "Resp"), w.Field("rux", "Context", "Req")
	get := w.Fn("rux", "Router.GET")
	for _, n := range []string{"StaticDir", "StaticFS", "StaticFiles"} {
		f := w.Fn("rux", "Router."+n)
		// file server built at registration from the function's own parameters
		fsCalls := callsToName(f, "net/http.FileServer")
		okFS := len(fsCalls) == 1
		if okFS {
			a := fsCalls[0].Common().Args[0]
			if mi, ok := a.(*ssa.MakeInterface); ok {
				a = mi.X
			}
			switch x := a.(type) {
			case *ssa.ChangeType:
				_, isP := x.X.(*ssa.Parameter)
				okFS = isP && types.TypeString(x.Type(), nil) == "net/http.Dir"
			case *ssa.Convert:
				_, isP := x.X.(*ssa.Parameter)
				okFS = isP
			case *ssa.Parameter:
			default:
				okFS = false
			}
		}
		r.Check(rule, FuncName(f)+":file server", f.Pos(), okFS, map[bool]string{true: "http.FileServer is created once, at registration, from the function's own root parameter", false: "the file server is not built from the registration-time root"}[okFS])
		// the handler closure only serves through that handler with the request's own writer and request
		for _, cl := range f.AnonFuncs {
			rebuilt := len(callsToName(cl, "net/http.FileServer"))+len(callsToName(cl, "net/http.StripPrefix")) > 0
			eachInstr(cl, func(in ssa.Instruction) {
				if ct, ok := in.(*ssa.ChangeType); ok && types.TypeString(ct.Type(), nil) == "net/http.Dir" {
					rebuilt = true
				}
			})
			serve := 0
			okArgs := true
			eachInstr(cl, func(in ssa.Instruction) {
				c, ok := in.(*ssa.Call)
				if !ok || !c.Call.IsInvoke() || c.Call.Method.Name() != "ServeHTTP" {
					return
				}
				serve++
				if !isLoadOfField(c.Call.Args[0], respF) || !isLoadOfField(c.Call.Args[1], reqF) {
					okArgs = false
				}
				// receiver is the captured handler
				recv := c.Call.Value
				if ld, ok := recv.(*ssa.UnOp); ok {
					if _, isFV := ld.X.(*ssa.FreeVar); !isFV {
						okArgs = false
					}
				} else if _, isFV := recv.(*ssa.FreeVar); !isFV {
					okArgs = false
				}
			})
			r.Check(rule, FuncName(cl)+":serves through the registered file server", cl.Pos(), !rebuilt && serve == 1 && okArgs, map[bool]string{true: "the per-request closure only calls ServeHTTP of the file server captured at registration", false: "the per-request closure rebuilds a file server / root or serves differently"}[!rebuilt && serve == 1 && okArgs])
		}
		// registered through GET with a catch-all {file:...} variable appended to the prefix parameter
		for _, c := range callsToFn(f, get) {
			pat := c.Common().Args[1]
			okPat := false
			// the pattern as a template: constant pieces and holes, whether it is written with + or with Sprintf("%s...")
			if tpl, okT := strTemplate(pat); okT && len(tpl) >= 2 && tpl[0].hole != nil {
				_, isP := tpl[0].hole.(*ssa.Parameter)
				rest := ""
				var holes []ssa.Value
				for _, pc := range tpl[1:] {
					if pc.hole != nil {
						rest += "\x00"
						holes = append(holes, pc.hole)
					} else {
						rest += pc.text
					}
				}
				if isP && strings.HasPrefix(rest, "/{file:") && strings.HasSuffix(rest, "}") && strings.Count(rest, "{") == 1 {
					okPat = true
					if len(holes) > 0 {
						// C17-EXT
						okExt := rest == "/{file:.+\\.(?:\x00)}" && len(holes) == 1 && tpl[0].hole == ssa.Value(f.Params[1]) && len(f.Params) > 3 && holes[0] == ssa.Value(f.Params[3])
						r.Check("C17-EXT", FuncName(f)+":extension filter in the pattern", w.InstrPos(c), okExt, map[bool]string{true: "the allowed extensions are part of the route regex ({file:.+\\.(?:exts)}), so only such paths reach the handler", false: "the extension list is not compiled into the route pattern"}[okExt])
						// the filter is applied to the text the router MATCHED; the file that is served must be that
						// same text (the matched variable), not the path of the original request — with InterceptAll
						// or a trimmed trailing slash the two differ and the filter would be bypassed
						okServed := false
						var handler *ssa.Function
						if len(c.Common().Args) > 2 {
							switch h := c.Common().Args[2].(type) {
							case *ssa.MakeClosure:
								handler, _ = h.Fn.(*ssa.Function)
							case *ssa.Function:
								handler = h
							case *ssa.ChangeType:
								if mc, ok := h.X.(*ssa.MakeClosure); ok {
									handler, _ = mc.Fn.(*ssa.Function)
								}
							}
						}
						if handler != nil {
							param := w.Fn("rux", "Context.Param")
							eachInstr(handler, func(in ssa.Instruction) {
								st, ok := in.(*ssa.Store)
								if !ok {
									return
								}
								fa, isFA := st.Addr.(*ssa.FieldAddr)
								if !isFA || fieldName(fa.X.Type(), fa.Field) != "Path" || !strings.HasSuffix(types.TypeString(fa.X.Type(), nil), "net/url.URL") {
									return
								}
								pc, isCall := st.Val.(*ssa.Call)
								if !isCall || staticCallee(pc) != param {
									return
								}
								if k, okk := constString(pc.Call.Args[1]); !okk || k != "file" {
									return
								}
								// dominates every ServeHTTP of the closure
								all := true
								eachInstr(handler, func(x ssa.Instruction) {
									if cc, ok := x.(*ssa.Call); ok && cc.Call.IsInvoke() && cc.Call.Method.Name() == "ServeHTTP" && !dominates(st, x) {
										all = false
									}
								})
								if all {
									okServed = true
								}
							})
						}
						r.Check("C17-EXT", FuncName(f)+":serves the matched file", w.InstrPos(c), okServed, map[bool]string{true: "the handler hands the matched {file} variable to the file server (Req.URL.Path = Param(\"file\")), so the extension filter applies to what is served", false: "the extension filter is applied to the matched path but the file server is given the original request: when they differ (InterceptAll, a trimmed trailing slash) files with other extensions are served"}[okServed])
					}
				}
			}
			r.Check(rule, FuncName(f)+":route pattern", w.InstrPos(c), okPat, "served under prefix + a single catch-all {file:...} variable")
			// a static-file registrar that takes an extension list must put it into the pattern: a filter written
			// in the handler instead (strings.Contains(exts, ext), path.Ext, ...) is string logic this rule does not
			// decide, and the usual spellings are substring tests ("s" is contained in "css|js")
			if len(f.Params) > 3 && types.Identical(f.Params[3].Type(), types.Typ[types.String]) && okPat {
				inPat := flowsFromDeep(pat, func(v ssa.Value) bool { return v == ssa.Value(f.Params[3]) })
				if !inPat {
					r.Check("C17-EXT", FuncName(f)+":extension filter in the pattern", w.InstrPos(c), false, "the extension list of "+FuncName(f)+" is not part of the route pattern: every path under the prefix reaches the handler, and whether the handler's own test (if any) admits exactly the paths that END in one of the listed extensions is not decided — a substring or path.Ext test against the raw list admits \"x.s\" for \"css|js\"")
				}
			}
		}
	}
	r.Floor("C17-EXT", 1)
	// StaticFile: single configured file, captured at registration
	sf := w.Fn("rux", "Router.StaticFile")
	file := w.Fn("rux", "Context.File")
	okSF := false
	for _, cl := range sf.AnonFuncs {
		for _, c := range callsToFn(cl, file) {
			a := c.Common().Args[1]
			if fv, ok := a.(*ssa.FreeVar); ok {
				if b := freeVarBinding(fv); b == ssa.Value(sf.Params[2]) {
					okSF = true
				}
			}
			if ld, ok := a.(*ssa.UnOp); ok {
				if fv, ok := ld.X.(*ssa.FreeVar); ok {
					if b := freeVarBinding(fv); b != nil {
						if al, ok := b.(*ssa.Alloc); ok && singleStore(al) == ssa.Value(sf.Params[2]) {
							okSF = true
						}
					}
				}
			}
		}
	}
	r.Check(rule, "(*Router).StaticFile:single file", sf.Pos(), okSF, "StaticFile serves exactly the file path given at registration")
}

func init() {
	register(&property{
		Meta: propertyMeta{
			ID:          "C15",
			Explanation: "Only the second sentence of the property (the BuildURL->Match round trip is not decidable in this family): (C15-INDEX) every API that names a route maintains the name index with last-writer-wins: stores to Route.name occur only in constructors (the route is indexed by appendRoute when registered) or paired on the same path with namedRoutes[sameName] = sameRoute (NamedTo); appendRoute writes namedRoutes[route.name] = route on every path with a non-empty name, before any return; the index is written nowhere else and never deleted from; GetRoute is a plain lookup and BuildURL resolves through it; ToURL builds from the route's own registered pattern. (C15-MEMO) ToURL re-uses a caller-supplied builder through Path(route.path).Build(...): the builder type holds no state derived from its own settings that can go stale — every store into a field of an existing BuildRequestURL whose value depends on a load of another field (placeholders parsed from the path, ...) is either recomputed/invalidated in every function that assigns that other field, or is a keyed memo whose key is re-validated on every path to every use; a virtual type with a stale memo is analysed on every run and must be reported. (C01-SPACE) the text ToURL hands to the builder is literal-space: it is the route's pattern field(s), and nothing that went through the regex escaping steps (quotePointChar, checkAndParseOptional) is ever stored into Route.path / Route.start / a read Route.spath or returned as the table key. (C15-ESCAPE) no store into net/url.URL.Path in the root package derives from PathEscape, QueryEscape, EscapedPath, String, RequestURI or Values.Encode. (C15-SCAN) Build (or a function it reaches by static calls) applies a Find* method of the package variable varRegex to text from the builder's path field; parseParamRoute does the same with the route path. (C15-ARGS) in ToURL, Build, BuildURL, BuildRequestURL and the module functions they call, no MapUpdate / delete / clear has a map operand that can be a parameter, an element of a parameter slice or an assertion of one; and every turn of a range over such a caller-supplied map stores the entry's value under its key (a builder map or url.Values.Add/Set) on every path to the next turn — no filter drops an argument. (C15-SCAN, pattern) the pattern stored into varRegex is regexp.MustCompile of a constant; the checker compiles that constant and requires that each of fourteen witness texts of the documented grammar is cut into exactly the brace groups 'brace, anything but /, brace' (names with '-', '.', non-ASCII letters, padded names, regex parts with braces).",
			NotDecided:  []string{"the substitution itself in BuildRequestURL.Build: placeholder grammar, escaping, query parameters", "that Match on the built path returns the same route and values (value-level string round trip through net/url)"},
			Assumptions: []string{"Go map assignment overwrites (last writer wins)"},
		},
		Rules: []ruleFn{{"C15-INDEX", ruleC15Index}, {"C15-MEMO", ruleC15Memo}, {"C15-ESCAPE", ruleC15Escape}, {"C15-SCAN", ruleC15Scan}, {"C15-ARGS", ruleC15Args}, {"C01-SPACE", ruleC01Space}, {"C11-ENC", ruleC11Enc}},
	})
	register(&property{
		Meta: propertyMeta{
			ID:          "C16",
			Explanation: "(C16-TABLE) table extraction by constant-folding partial evaluation: RESTFulActions is read from its map literal (keys/values folded through the action-name variables, which are proved to be assigned only in their declarations); for each of the seven keys the registration callback is evaluated on the paths of one loop iteration that are feasible for that name, folding ToLower/+/== to obtain the AddNamed arguments (route name, path suffix, methods = the table's value); after the normalisation of C11 the result must equal, row by row, the table in Resource's own doc comment. (C16-ONLY) AddNamed runs at most once per iteration, only under MethodByName(name).IsValid() and the checked assertion to func(*Context), with that asserted value as handler; nothing is registered outside the loop. (C16-USES) Uses()[name] is attached to the route created for the same name. (C16-REJECT) the Kind()==Ptr / Elem().Kind()==Struct panics dominate the Group call. (C12-VIA, C01-TIERS) registration goes through Group; the static '/res/create' wins over '/res/{id}'. (C16-SLASH) the raw member paths extracted for the table (before the default normalisation) other than the bare \"/\" all end with '/' or all do not.",
			NotDecided:  []string{"reflection behaviour for controllers with unusual method sets", "that the static tier wins is C01's claim"},
			Assumptions: []string{"reflect.Ptr == 22 and reflect.Struct == 25 (reflect.Kind constants)"},
		},
		Rules: []ruleFn{{"C16-TABLE", ruleC16Table}, {"C16-ONLY", ruleC16Only}, {"C12-VIA", ruleC12CopyUse}, {"C01-TIERS", ruleC01Tiers}},
	})
	register(&property{
		Meta: propertyMeta{
			ID:          "C17",
			Explanation: "(C17-TAINT) backward provenance from every file-system sink in the module (os.Open/Create/Stat/ReadFile/..., http.ServeFile, http.Dir conversion, FileSystem.Open) through string operations, calls and parameters (all call sites): no request-derived text (Context.Param/Query/Header/..., Req.URL.*, Params) reaches a sink; a positive fixture handler doing os.Open(filepath.Join(root, c.Param(\"file\"))) is analysed in the same run through an overlay and must be flagged. (C17-ROOT) StaticDir/StaticFS/StaticFiles build http.FileServer once at registration from their own root parameter; the per-request closure only calls ServeHTTP of that captured handler with c.Resp/c.Req; StaticFile serves exactly the configured file. (C17-EXT) the extension list of StaticFiles is compiled into the route pattern {file:.+\\.(?:exts)}. Confinement inside net/http (path cleaning, '..' rejection of http.FileServer/http.Dir/ServeFile) is trusted. Where the pattern carries the extension filter, the handler stores Param(\"file\") into Req.URL.Path before serving: the filter applies to the file that is served, also under InterceptAll or a trimmed trailing slash.",
			NotDecided:  []string{"what http.FileServer, http.Dir.Open, http.ServeFile do with hostile paths (trusted standard library)", "symlinks inside the root"},
			Assumptions: []string{"net/http's FileServer confines requests to its root"},
		},
		Rules: []ruleFn{{"C17-TAINT", ruleC17Taint}, {"C17-ROOT", ruleC17Root}},
	})
}

// ---------------------------------------------------------------------------
// C15-MEMO — the URL builder keeps no state derived from its own settings that
// can go stale.
//
// Route.ToURL re-uses a caller-supplied *BuildRequestURL: it calls
// builder.Path(route.path).Build(...). The URL built for the named route is
// therefore a function of the builder's *current* settings only if every field
// whose value was computed from another field (a memo: placeholders parsed from
// the path, a pre-encoded query ...) is recomputed or invalidated whenever that
// other field is assigned. Rule, for the builder type T:
//
//	for every store (field store or map update) into field F of a T whose value
//	depends on a load of another field G of the same T (derived state),
//	  (a) every function that assigns G of an existing T also assigns F on that
//	      path (recompute / invalidate), or
//	  (b) F is a keyed memo: the function that fills F also records the G it was
//	      computed from in a field K, and on every path to every load of F
//	      either F was filled on that path or the decision K == G was taken.
//
// Objects under construction (stores into a fresh allocation) are exempt: they
// have no earlier state. The rule is applied to BuildRequestURL and, on every
// run, to a tiny virtual type with a stale memo that must be reported
// (zero-expected-report rule needs a positive example).

type derivedStore struct {
	f    *ssa.Function
	in   ssa.Instruction
	F, G *types.Var
	base string
}

// fieldDeps: the fields of struct type T (accessed through a base with canonical form base)
// whose loads the value depends on (operands, call arguments; callee bodies are not entered).
func fieldDeps(v ssa.Value, T *types.Named, base string) map[*types.Var]bool {
	out := map[*types.Var]bool{}
	seen := map[ssa.Value]bool{}
	var rec func(v ssa.Value, depth int)
	rec = func(v ssa.Value, depth int) {
		if v == nil || seen[v] || depth > 60 {
			return
		}
		seen[v] = true
		if ld, ok := v.(*ssa.UnOp); ok && ld.Op == token.MUL {
			if fa, ok := ld.X.(*ssa.FieldAddr); ok && isNamedPtr(fa.X.Type(), T) && canon(fa.X) == base {
				out[fieldVar(fa.X.Type(), fa.Field)] = true
			}
		}
		if al, ok := v.(*ssa.Alloc); ok {
			// a local cell or array literal: what was stored into it (directly or element-wise)
			var stored func(addr ssa.Value)
			stored = func(addr ssa.Value) {
				for _, ref := range *addr.Referrers() {
					switch x := ref.(type) {
					case *ssa.Store:
						if x.Addr == addr {
							rec(x.Val, depth+1)
						}
					case *ssa.IndexAddr:
						if x.X == addr {
							stored(x)
						}
					case *ssa.FieldAddr:
						if x.X == addr {
							stored(x)
						}
					}
				}
			}
			stored(al)
		}
		if in, ok := v.(ssa.Instruction); ok {
			for _, op := range in.Operands(nil) {
				if op != nil && *op != nil {
					rec(*op, depth+1)
				}
			}
		}
	}
	rec(v, 0)
	return out
}

func ruleC15Memo(r *Run) {
	w := r.W
	rule := "C15-MEMO"
	r.Floor(rule, 3)
	check := func(T *types.Named, label string, fixture bool) (violations int) {
		// stores into fields of an existing T
		type fstore struct {
			f    *ssa.Function
			in   ssa.Instruction
			F    *types.Var
			base string
			val  []ssa.Value
		}
		var stores []fstore
		for _, f := range w.Funcs {
			eachInstr(f, func(in ssa.Instruction) {
				switch x := in.(type) {
				case *ssa.Store:
					for _, lf := range valueLeaves(x.Addr) {
						fa, ok := lf.(*ssa.FieldAddr)
						if !ok || !isNamedPtr(fa.X.Type(), T) {
							continue
						}
						if al, isAl := fa.X.(*ssa.Alloc); isAl && al.Heap {
							continue // under construction
						}
						stores = append(stores, fstore{f, in, fieldVar(fa.X.Type(), fa.Field), canon(fa.X), []ssa.Value{x.Val}})
					}
				case *ssa.MapUpdate:
					if ld, ok := x.Map.(*ssa.UnOp); ok && ld.Op == token.MUL {
						if fa, ok := ld.X.(*ssa.FieldAddr); ok && isNamedPtr(fa.X.Type(), T) {
							stores = append(stores, fstore{f, in, fieldVar(fa.X.Type(), fa.Field), canon(fa.X), []ssa.Value{x.Key, x.Value}})
						}
					}
				}
			})
		}
		var derived []derivedStore
		for _, s := range stores {
			for _, v := range s.val {
				for g := range fieldDeps(v, T, s.base) {
					if g != s.F {
						derived = append(derived, derivedStore{s.f, s.in, s.F, g, s.base})
					}
				}
			}
		}
		if !fixture {
			r.Exists(rule, label+":field stores", token.NoPos, len(stores) >= 3, fmt.Sprintf("%d store(s) into fields of an existing %s examined, %d of them derived from another field", len(stores), label, len(derived)))
		}
		for i, d := range derived {
			construct := fmt.Sprintf("%s:%s.%s derived from .%s #%d", FuncName(d.f), label, d.F.Name(), d.G.Name(), i+1)
			// (a) every assignment of G is accompanied by an assignment of F
			okA := true
			var stale string
			for _, s := range stores {
				if s.F != d.G {
					continue
				}
				with := false
				for _, s2 := range stores {
					if s2.f == s.f && s2.F == d.F && s2.base == s.base {
						if dominates(s2.in, s.in) {
							with = true
						} else if all, _ := allPathsHit(s.f, s.in, func(x ssa.Instruction) bool { return x == s2.in }); all {
							with = true
						}
					}
				}
				if !with {
					okA = false
					stale = FuncName(s.f)
				}
			}
			// (b) keyed memo
			okB := false
			if !okA {
				var keyF *types.Var
				for _, s := range stores {
					if s.f == d.f && s.F != d.F && s.F != d.G && len(s.val) == 1 && isLoadOfField(s.val[0], d.G) {
						keyF = s.F
					}
				}
				if keyF != nil {
					okB = true
					for _, f := range w.Funcs {
						for _, ld := range loadsOfField(f, d.F) {
							li, isI := ld.(ssa.Instruction)
							if !isI {
								continue
							}
							// a load that only feeds a nil test ("is the memo filled?") exposes no stale content
							nilOnly := ld.Referrers() != nil && len(*ld.Referrers()) > 0
							if nilOnly {
								for _, ref := range *ld.Referrers() {
									bo, isB := ref.(*ssa.BinOp)
									if !isB || (bo.Op != token.EQL && bo.Op != token.NEQ) || !(isNilConst(bo.X) || isNilConst(bo.Y)) {
										nilOnly = false
									}
								}
							}
							if nilOnly {
								continue
							}
							paths, complete := enumPaths(f, li, 2000)
							if !complete {
								okB = false
							}
							for _, p := range paths {
								good := false
								for _, b := range p.blocks {
									for _, x := range b.Instrs {
										if x == d.in {
											good = true
										}
									}
								}
								for _, dc := range p.decs {
									if bo, ok := dc.Cond.(*ssa.BinOp); ok && (bo.Op == token.EQL || bo.Op == token.NEQ) {
										kx := (isLoadOfField(bo.X, keyF) && isLoadOfField(bo.Y, d.G)) || (isLoadOfField(bo.Y, keyF) && isLoadOfField(bo.X, d.G))
										if kx && dc.Truth == (bo.Op == token.EQL) {
											good = true
										}
									}
								}
								if !good {
									okB = false
								}
							}
						}
					}
				}
			}
			// (c) F is itself only a key: a snapshot of G that is used in comparisons with the current G and nowhere else
			okC := false
			if !okA && !okB {
				direct := false
				for _, s := range stores {
					if s.in == d.in && len(s.val) == 1 && isLoadOfField(s.val[0], d.G) {
						direct = true
					}
				}
				if direct {
					okC = true
					for _, f := range w.Funcs {
						for _, ld := range loadsOfField(f, d.F) {
							refs := ld.Referrers()
							if refs == nil {
								continue
							}
							for _, ref := range *refs {
								bo, isB := ref.(*ssa.BinOp)
								if !isB || (bo.Op != token.EQL && bo.Op != token.NEQ) || !(isLoadOfField(bo.X, d.G) || isLoadOfField(bo.Y, d.G)) {
									okC = false
								}
							}
						}
					}
				}
			}
			ok := okA || okB || okC
			if !ok {
				violations++
			}
			if fixture {
				continue
			}
			detail := "the derived field is recomputed or invalidated wherever the field it was computed from is assigned"
			if okB && !okA {
				detail = "keyed memo: every use re-validates the key against the current value"
			}
			if okC {
				detail = "key of a memo: a snapshot that is only ever compared with the current value"
			}
			if !ok {
				detail = fmt.Sprintf("%s.%s is computed from %s.%s and kept, but %s assigns .%s without recomputing it: a builder re-used for another route (Route.ToURL calls Path(route.path).Build) substitutes the previous route's data", label, d.F.Name(), label, d.G.Name(), stale, d.G.Name())
			}
			r.Check(rule, construct, w.InstrPos(d.in), ok, detail)
		}
		return violations
	}
	bt := w.Named("rux", "BuildRequestURL")
	check(bt, "BuildRequestURL", false)
	// Route.ToURL hands the route's own pattern to the builder on every call
	toURL := w.Fn("rux", "Route.ToURL")
	pathSetter := w.Fn("rux", "BuildRequestURL.Path")
	build := w.Fn("rux", "BuildRequestURL.Build")
	pathF := w.Field("rux", "Route", "path")
	okSet := len(callsToFn(toURL, build)) > 0
	for _, bc := range callsToFn(toURL, build) {
		recv := bc.Common().Args[0]
		pc, isCall := recv.(*ssa.Call)
		fromRoute := func(v ssa.Value) bool {
			return flowsFrom(v, func(x ssa.Value) bool { return isLoadOfField(x, pathF) })
		}
		if isCall && staticCallee(pc) == pathSetter && fromRoute(pc.Call.Args[1]) {
			continue
		}
		// or: a builder made right here whose path field is given the route's pattern (composite literal)
		okLit := false
		if al, isAl := recv.(*ssa.Alloc); isAl {
			bpath := w.Field("rux", "BuildRequestURL", "path")
			for _, ref := range *al.Referrers() {
				if fa, isFA := ref.(*ssa.FieldAddr); isFA && fieldVar(fa.X.Type(), fa.Field) == bpath {
					for _, r2 := range *fa.Referrers() {
						if st, isSt := r2.(*ssa.Store); isSt && st.Addr == ssa.Value(fa) && fromRoute(st.Val) && dominates(st, bc.(ssa.Instruction)) {
							okLit = true
						}
					}
				}
			}
		}
		if !okLit {
			okSet = false
		}
	}
	r.Check(rule, "(*Route).ToURL:Path(route.path).Build", toURL.Pos(), okSet, "every Build in ToURL is applied to Path(<this route's pattern>): the builder's path is set anew for each URL")
	// positive fixture
	if ft := w.NamedOpt("rux", "zzVerifMemo"); ft != nil {
		n := check(ft, "zzVerifMemo", true)
		r.Exists(rule, "positive fixture (virtual type with a stale memo) is reported", token.NoPos, n >= 1, fmt.Sprintf("%d stale derived field(s) found in the fixture", n))
	} else {
		r.Undecided(rule, "positive fixture", token.NoPos, "the virtual fixture type zzVerifMemo is not part of the analysed program")
	}
}

const memoFixture = `package rux

import "strings"

// zzVerifMemo exists only in the overlay of the C15 run: Build memoises data parsed
// from path, Path assigns path without invalidating it. C15-MEMO must flag it on every run.
type zzVerifMemo struct {
	path string
	vars []string
}

func (b *zzVerifMemo) Path(p string) *zzVerifMemo { b.path = p; return b }

func (b *zzVerifMemo) Build() []string {
	if b.vars == nil {
		b.vars = strings.Fields(b.path)
	}
	return b.vars
}
`

// strTemplate renders a string-valued expression as constant pieces and holes:
// a + b + c, fmt.Sprintf with %s verbs only, constants. ok=false for anything else.
type tplPiece struct {
	text string
	hole ssa.Value
}

func strTemplate(v ssa.Value) ([]tplPiece, bool) {
	switch x := v.(type) {
	case *ssa.Const:
		if sv, ok := constString(x); ok {
			return []tplPiece{{text: sv}}, true
		}
		return nil, false
	case *ssa.ChangeType:
		return strTemplate(x.X)
	case *ssa.BinOp:
		if x.Op != token.ADD {
			return nil, false
		}
		l, ok1 := strTemplate(x.X)
		rr, ok2 := strTemplate(x.Y)
		if !ok1 || !ok2 {
			return nil, false
		}
		return mergeTpl(append(l, rr...)), true
	case *ssa.Call:
		if calleeName(x) == "fmt.Sprintf" {
			fs, ok := constString(x.Call.Args[0])
			if !ok {
				return nil, false
			}
			args := litElems(x.Call.Args[1])
			var out []tplPiece
			ai := 0
			for i := 0; i < len(fs); i++ {
				if fs[i] != '%' {
					out = append(out, tplPiece{text: string(fs[i])})
					continue
				}
				if i+1 >= len(fs) {
					return nil, false
				}
				i++
				switch fs[i] {
				case '%':
					out = append(out, tplPiece{text: "%"})
				case 's':
					if ai >= len(args) {
						return nil, false
					}
					a := args[ai]
					ai++
					if mi, ok := a.(*ssa.MakeInterface); ok {
						a = mi.X
					}
					if bt, ok := a.Type().Underlying().(*types.Basic); !ok || bt.Kind() != types.String {
						return nil, false
					}
					sub, _ := strTemplate(a)
					if sub == nil {
						sub = []tplPiece{{hole: a}}
					}
					out = append(out, sub...)
				default:
					return nil, false
				}
			}
			if ai != len(args) {
				return nil, false
			}
			return mergeTpl(out), true
		}
	}
	if bt, ok := v.Type().Underlying().(*types.Basic); ok && bt.Kind() == types.String {
		return []tplPiece{{hole: v}}, true
	}
	return nil, false
}

func mergeTpl(in []tplPiece) []tplPiece {
	var out []tplPiece
	for _, p := range in {
		if p.hole == nil && len(out) > 0 && out[len(out)-1].hole == nil {
			out[len(out)-1].text += p.text
			continue
		}
		out = append(out, p)
	}
	return out
}

// ---------------------------------------------------------------------------
// C01-SPACE — literal space and regex space do not mix.
//
// parseParamRoute turns the pattern into regular-expression text in steps
// (quotePointChar escapes '.', checkAndParseOptional rewrites '[' ']', the
// variable replacer inserts '(' regex ')'). Text that went through one of these
// steps is regex-space: it may only end up in the compiled Route.regex. The
// fields that are compared with request paths or used to build URLs are
// literal-space: Route.path (static key, ToURL), Route.start and the returned
// first segment (pre-filters compared with the request path), and Route.spath
// when anything reads it. A regex-space value stored into a literal-space sink
// makes '/v1.0/{id}' look for the literal text '/v1\.0/' (or builds
// '/posts/7%5C.html').

func ruleC01Space(r *Run) {
	w := r.W
	rule := "C01-SPACE"
	r.Floor(rule, 3)
	tm := newTierModel(w)
	pf := tm.parse
	producers := map[*ssa.Function]string{}
	for _, nm := range []string{"quotePointChar", "checkAndParseOptional"} {
		if f := w.FnOpt("rux", nm); f != nil {
			producers[f] = nm
		}
	}
	r.Exists(rule, "regex-space producers", pf.Pos(), len(producers) >= 1, fmt.Sprintf("%d escaping/rewriting step(s) of the pattern-to-regex translation found", len(producers)))
	regexSpace := func(v ssa.Value) (bool, string) {
		why := ""
		hit := flowsFromDeep(v, func(x ssa.Value) bool {
			c, ok := x.(*ssa.Call)
			if !ok {
				return false
			}
			if sc := staticCallee(c); sc != nil {
				if nm, isProd := producers[sc]; isProd {
					why = nm
					return true
				}
			}
			switch calleeName(c) {
			case "regexp.QuoteMeta":
				why = "regexp.QuoteMeta"
				return true
			}
			return false
		})
		return hit, why
	}
	spathF := w.FieldOpt("rux", "Route", "spath")
	sinks := []*types.Var{tm.path, w.Field("rux", "Route", "start")}
	if spathF != nil {
		read := false
		for _, f := range w.Funcs {
			if f != pf && len(loadsOfField(f, spathF)) > 0 {
				read = true
			}
		}
		if read {
			sinks = append(sinks, spathF)
		}
	}
	n := 0
	for _, f := range w.Funcs {
		for _, fv := range sinks {
			for i, st := range storesToField(f, fv) {
				n++
				hit, why := regexSpace(st.Val)
				r.Check(rule, fmt.Sprintf("%s:store Route.%s#%d", FuncName(f), fv.Name(), i+1), w.InstrPos(st), !hit,
					map[bool]string{true: "the stored text is literal-space (it did not pass through the regex escaping/rewriting steps)", false: "Route." + fv.Name() + " is compared with request paths / used to build URLs, but the stored text went through " + why + " (regex-space): a '.' or optional part in the pattern makes it differ from the real path"}[!hit])
			}
		}
	}
	// the first-segment key returned by parseParamRoute
	eachInstr(pf, func(in ssa.Instruction) {
		if ret, ok := in.(*ssa.Return); ok && len(ret.Results) == 1 {
			n++
			hit, why := regexSpace(ret.Results[0])
			r.Check(rule, "(*Router).parseParamRoute:returned first segment", w.InstrPos(in), !hit,
				map[bool]string{true: "the table key is cut from the pattern before any escaping", false: "the table key went through " + why}[!hit])
		}
	})
	// ToURL builds from the route's pattern fields only
	toURL := w.Fn("rux", "Route.ToURL")
	pathSetter := w.Fn("rux", "BuildRequestURL.Path")
	for i, c := range callsToFn(toURL, pathSetter) {
		okLeaves := true
		bad := ""
		for _, lf := range valueLeaves(c.Common().Args[1]) {
			if !(isLoadOfField(lf, tm.path) || (spathF != nil && isLoadOfField(lf, spathF))) {
				okLeaves = false
				bad = shortCanon(canon(lf))
			}
		}
		r.Check(rule, fmt.Sprintf("(*Route).ToURL:Path argument#%d", i+1), w.InstrPos(c.(ssa.Instruction)), okLeaves, map[bool]string{true: "the URL is built from the route's own pattern field(s)", false: "the URL template is " + bad + ", not the route's registered pattern"}[okLeaves])
	}
}

// ---------------------------------------------------------------------------
// C15-ESCAPE: url.URL.Path holds the decoded path

// ruleC15Escape: net/url escapes URL.Path itself when the URL is rendered (String, RequestURI) and the server
// decodes once, so the value that comes back as a route parameter equals the substituted value only if what is
// stored in URL.Path is the plain (decoded) text. A value that went through url.PathEscape / QueryEscape /
// EscapedPath before being stored is escaped twice on the wire and arrives with the escapes still in it.
func ruleC15Escape(r *Run) {
	w := r.W
	rule := "C15-ESCAPE"
	r.Floor(rule, 1)
	escapers := map[string]bool{"net/url.PathEscape": true, "net/url.QueryEscape": true, "(*net/url.URL).EscapedPath": true, "(*net/url.URL).String": true, "(*net/url.URL).RequestURI": true, "(net/url.Values).Encode": true}
	n := 0
	for _, f := range w.Funcs {
		if f.Pkg == nil || f.Pkg.Pkg.Path() != modPath {
			continue
		}
		eachInstr(f, func(in ssa.Instruction) {
			st, ok := in.(*ssa.Store)
			if !ok {
				return
			}
			fa, ok := st.Addr.(*ssa.FieldAddr)
			if !ok {
				return
			}
			fv := fieldVar(fa.X.Type(), fa.Field)
			if fv == nil || fv.Name() != "Path" || fv.Pkg() == nil || fv.Pkg().Path() != "net/url" {
				return
			}
			n++
			via := ""
			flowsFromDeep(st.Val, func(v ssa.Value) bool {
				if c, isC := v.(*ssa.Call); isC && escapers[calleeName(c)] {
					via = calleeName(c)
					return true
				}
				return false
			})
			// the substituted path is final: re-reading URL.Path and storing a rewritten version (stripping brackets,
			// collapsing slashes, ...) also rewrites the VALUES that were substituted into it
			if via == "" && flowsFromDeep(st.Val, func(v ssa.Value) bool {
				ld, isLd := v.(*ssa.UnOp)
				if !isLd || ld.Op != token.MUL {
					return false
				}
				fa2, isFA := ld.X.(*ssa.FieldAddr)
				if !isFA {
					return false
				}
				fv2 := fieldVar(fa2.X.Type(), fa2.Field)
				return fv2 != nil && fv2.Name() == "Path" && fv2.Pkg() != nil && fv2.Pkg().Path() == "net/url"
			}) {
				r.Check(rule, fmt.Sprintf("%s:URL.Path store#%d", FuncName(f), n), w.InstrPos(in), false, "the built URL's path is read back, rewritten and stored again: whatever the rewrite removes or replaces (brackets of optional parts, slashes, dots) is also removed from the values that were substituted for the variables, so a value containing such characters does not come back from the router")
				return
			}
			r.Check(rule, fmt.Sprintf("%s:URL.Path store#%d", FuncName(f), n), w.InstrPos(in), via == "", map[bool]string{true: "the text stored in url.URL.Path does not derive from an escaping function: net/url escapes it once when the URL is rendered and the server decodes it once", false: "the text stored in url.URL.Path derives from " + via + ": URL.Path is the decoded form and is escaped again when the URL is rendered, so a value with a space, '%', '?', '#' or non-ASCII text comes back from the router with its escapes still in it (or no longer satisfies the variable's regex)"}[via == ""])
		})
	}
	r.Exists(rule, "stores into url.URL.Path", token.NoPos, n >= 1, fmt.Sprintf("%d store(s) into url.URL.Path in the root package", n))
}

// ---------------------------------------------------------------------------
// C15-SCAN: the builder and registration find placeholders with the same scanner

// ruleC15Scan: what counts as one "{name:regex}" placeholder is defined once, by the package's varRegex, and
// registration (parseParamRoute) cuts the pattern with it. A built URL is routed back only if the builder cuts
// the same template into the same placeholders; a hand-written scanner ("from '{' to the next '}'") disagrees on
// every variable whose own regex contains braces ({n,m} quantifiers, \p{L}) and leaves pattern text in the URL.
// Checked: Build — or a root-package function it reaches by static calls — applies a Find* method of varRegex to
// text that comes from the builder's path template; so does parseParamRoute for the route path.
func ruleC15Scan(r *Run) {
	w := r.W
	rule := "C15-SCAN"
	r.Floor(rule, 2)
	vr := w.Global("rux", "varRegex")
	scans := func(root *ssa.Function, src func(ssa.Value) bool) (bool, token.Pos) {
		seen := map[*ssa.Function]bool{}
		found := false
		var pos token.Pos
		var walk func(f *ssa.Function, d int)
		walk = func(f *ssa.Function, d int) {
			if f == nil || seen[f] || f.Blocks == nil || d > 3 || !w.InModule(f) {
				return
			}
			seen[f] = true
			eachInstr(f, func(in ssa.Instruction) {
				c, ok := in.(*ssa.Call)
				if !ok {
					return
				}
				if strings.HasPrefix(calleeName(c), "(*regexp.Regexp).Find") && len(c.Call.Args) >= 2 {
					if ld, isLd := c.Call.Args[0].(*ssa.UnOp); isLd && ld.X == ssa.Value(vr) {
						if f != root || flowsFromDeep(c.Call.Args[1], src) {
							found, pos = true, w.InstrPos(in)
						}
					}
				}
				walk(staticCallee(c), d+1)
			})
			for _, a := range f.AnonFuncs {
				walk(a, d+1)
			}
		}
		walk(root, 0)
		return found, pos
	}
	build := w.Fn("rux", "BuildRequestURL.Build")
	pathF := w.Field("rux", "BuildRequestURL", "path")
	okB, posB := scans(build, func(y ssa.Value) bool { return isLoadOfField(y, pathF) })
	if !okB {
		posB = build.Pos()
	}
	r.Check(rule, FuncName(build)+":placeholders found by varRegex", posB, okB, map[bool]string{true: "the builder cuts its path template into placeholders with the package's varRegex, the scanner registration uses", false: "the builder does not find the placeholders of its template with varRegex: a home-made scanner and registration disagree on variables whose regex contains braces ({n,m}, \\p{L}) — pattern text stays in the built URL and it is not routed back"}[okB])
	tm := newTierModel(w)
	okP, posP := scans(tm.parse, func(y ssa.Value) bool { return isLoadOfField(y, tm.path) })
	if !okP {
		posP = tm.parse.Pos()
	}
	r.Check(rule, FuncName(tm.parse)+":placeholders found by varRegex", posP, okP, map[bool]string{true: "registration cuts the route path into placeholders with varRegex", false: "registration does not find the placeholders of the route path with varRegex"}[okP])
	// what the shared scanner takes for a placeholder: the pattern is a compile-time constant, so it is evaluated
	// here (constant folding of regexp on a constant, nothing of the program runs) on a family of brace groups that
	// the documented grammar "{name}" / "{name:regex}" — a brace, anything but '/', a brace — contains: each must be
	// found, whole, as exactly one placeholder. A pattern that spells out what a name may look like (\w+) silently
	// turns "/users/{user-id}" into a literal route and makes Build leave the braces in the URL.
	var pat string
	havePat := false
	var patPos token.Pos
	for _, f := range w.Funcs {
		eachInstr(f, func(in ssa.Instruction) {
			st, ok := in.(*ssa.Store)
			if !ok || st.Addr != ssa.Value(vr) {
				return
			}
			patPos = w.InstrPos(in)
			if c, isC := st.Val.(*ssa.Call); isC && (calleeName(c) == "regexp.MustCompile" || calleeName(c) == "regexp.MustCompilePOSIX") && len(c.Call.Args) == 1 {
				if k, isK := constString(c.Call.Args[0]); isK {
					pat, havePat = k, true
				}
			}
		})
	}
	if !havePat {
		r.Undecided(rule, "rux.varRegex:pattern", patPos, "the placeholder pattern is not regexp.MustCompile(<constant>) stored once into varRegex")
		return
	}
	re, err := regexp.Compile(pat)
	if err != nil {
		r.Check(rule, "rux.varRegex:pattern", patPos, false, "the placeholder pattern does not compile: "+err.Error())
		return
	}
	witnesses := [][]string{
		{"{id}", "{id}"}, {"{user_id}", "{user_id}"}, {"{user-id}", "{user-id}"}, {"{a.b}", "{a.b}"}, {"{名称}", "{名称}"}, {"{0}", "{0}"},
		{"{ id }", "{ id }"}, {"{id:\\d+}", "{id:\\d+}"}, {"{post-id:\\d+}", "{post-id:\\d+}"}, {"{id:[1-9]{1,2}}", "{id:[1-9]{1,2}}"},
		{"{n:\\p{L}+}", "{n:\\p{L}+}"}, {"{x:a|b}", "{x:a|b}"},
		{"/x/{a}/y/{b-c}", "{a}", "{b-c}"}, {"/users/{uid:\\d+}/blog/{id}", "{uid:\\d+}", "{id}"},
	}
	bad := ""
	for _, wt := range witnesses {
		got := re.FindAllString(wt[0], -1)
		same := len(got) == len(wt)-1
		for i := 0; same && i < len(got); i++ {
			same = got[i] == wt[i+1]
		}
		if !same && bad == "" {
			bad = fmt.Sprintf("in %q the pattern finds %q, the grammar says %q", wt[0], got, wt[1:])
		}
	}
	r.Check(rule, "rux.varRegex:pattern", patPos, bad == "", map[bool]string{true: fmt.Sprintf("the constant pattern %q finds every witness brace group (%d texts) whole", pat, len(witnesses)), false: "the placeholder pattern " + fmt.Sprintf("%q", pat) + " does not cut a path the way the documented grammar does: " + bad + " — such a variable becomes literal text at registration and the builder leaves its braces in the URL"}[bad == ""])
}

// ---------------------------------------------------------------------------
// C15-ARGS: the URL builders only read the argument map the caller hands in

// ruleC15Args: BuildURL / ToURL / Build take the caller's M by reference. "Additional non-variable arguments appear
// as query parameters" has to hold for every call, also the second one with the same map — so the map is read-only
// for rux: no map update and no delete on a map that can be the caller's (a parameter, an element of the variadic
// argument list, or an assertion of one).
func ruleC15Args(r *Run) {
	w := r.W
	rule := "C15-ARGS"
	roots := []*ssa.Function{w.Fn("rux", "Route.ToURL"), w.Fn("rux", "BuildRequestURL.Build")}
	for _, n := range []string{"Router.BuildURL", "Router.BuildRequestURL"} {
		if f := w.FnOpt("rux", n); f != nil {
			roots = append(roots, f)
		}
	}
	seen := map[*ssa.Function]bool{}
	var fns []*ssa.Function
	var add func(f *ssa.Function, d int)
	add = func(f *ssa.Function, d int) {
		if f == nil || seen[f] || f.Blocks == nil || !w.InModule(f) || d > 3 {
			return
		}
		seen[f] = true
		fns = append(fns, f)
		for _, c := range calleesOf(w, f) {
			add(c, d+1)
		}
	}
	for _, f := range roots {
		add(f, 0)
	}
	n, nBad := 0, 0
	for _, f := range fns {
		eachInstr(f, func(in ssa.Instruction) {
			var mp ssa.Value
			switch x := in.(type) {
			case *ssa.MapUpdate:
				mp = x.Map
			case *ssa.Call:
				if isBuiltin(x, "delete") || isBuiltin(x, "clear") {
					mp = x.Call.Args[0]
				}
			}
			if mp == nil {
				return
			}
			n++
			// the caller's map: derives from a parameter of the function (other than the receiver's own fields)
			callers := aliasesParam(mp, f)
			if callers {
				nBad++
				r.Check(rule, fmt.Sprintf("%s:writes the argument map#%d", FuncName(f), nBad), w.InstrPos(in), false, "the URL builder updates or deletes from a map that can be the caller's own argument map: a second BuildURL / ToURL call with the same M finds its query arguments (or variables) gone")
			}
		})
	}
	r.Check(rule, "URL builders:argument maps are read-only", token.NoPos, nBad == 0, fmt.Sprintf("%d map write(s) in %d function(s) of the URL builders, none on a map that can be the caller's", n, len(fns)))
	// every entry of the caller's argument map is used: each turn of a range over it stores the entry's value under
	// the entry's key — into a map of the builder (a path variable) or through url.Values.Add/Set (a query argument).
	// A turn that can `continue` past both (a filter on the value: empty, zero, nil) drops an argument the caller
	// supplied, and the built URL lacks a variable value that the pattern needs.
	nLoops := 0
	for _, f := range fns {
		eachInstr(f, func(in ssa.Instruction) {
			nx, ok := in.(*ssa.Next)
			if !ok || nx.IsString {
				return
			}
			rg, ok := nx.Iter.(*ssa.Range)
			if !ok || !aliasesParam(rg.X, f) {
				return
			}
			nLoops++
			okV, kV, dV := extractOf(nx, 0), extractOf(nx, 1), extractOf(nx, 2)
			construct := fmt.Sprintf("%s:range over the argument map#%d uses every entry", FuncName(f), nLoops)
			if okV == nil || kV == nil || dV == nil {
				r.Check(rule, construct, w.InstrPos(in), false, "the loop over the caller's arguments does not read both the key and the value of an entry")
				return
			}
			fromK := func(v ssa.Value) bool { return flowsFromDeep(v, func(y ssa.Value) bool { return y == kV }) }
			fromD := func(v ssa.Value) bool { return flowsFromDeep(v, func(y ssa.Value) bool { return y == dV }) }
			consumes := func(x ssa.Instruction) bool {
				switch c := x.(type) {
				case *ssa.MapUpdate:
					return fromK(c.Key) && fromD(c.Value)
				case *ssa.Call:
					if sc := staticCallee(c); sc != nil && (sc.Name() == "Add" || sc.Name() == "Set") && sc.Pkg != nil && sc.Pkg.Pkg.Path() == "net/url" {
						a := c.Call.Args
						return len(a) == 3 && fromK(a[1]) && fromD(a[2])
					}
				}
				return false
			}
			fps, complete := exploreFromUntil(in, []condFact{{okV, true}}, 4000, func(x ssa.Instruction) bool { return x == in })
			if !complete || len(fps) == 0 {
				r.Undecided(rule, construct, w.InstrPos(in), "too many paths through the loop body")
				return
			}
			good := true
			for _, fp := range fps {
				used := false
				for _, x := range fp.instrs {
					if consumes(x) {
						used = true
					}
				}
				if !used && (fp.ret != nil || (len(fp.instrs) > 0 && fp.instrs[len(fp.instrs)-1] == in)) {
					good = false
				}
			}
			r.Check(rule, construct, w.InstrPos(in), good, map[bool]string{true: "every turn stores the entry's value under its key (builder map or url.Values)", false: "a turn of the loop can move on to the next entry without having stored this one: an argument the caller supplied (a zero, an empty string, ...) is silently dropped from the URL"}[good])
		})
	}
	r.Exists(rule, "URL builders:loops over the caller's argument map", token.NoPos, nLoops > 0, fmt.Sprintf("%d range loop(s) over a caller-supplied argument map", nLoops))
}

// aliasesParam: the value can BE (not merely be computed from) a parameter of f, an element of a parameter slice or
// an assertion of one — followed through phis, local cells, assertions and element loads only.
func aliasesParam(v ssa.Value, f *ssa.Function) bool {
	seen := map[ssa.Value]bool{}
	var walk func(v ssa.Value, d int) bool
	walk = func(v ssa.Value, d int) bool {
		if v == nil || seen[v] || d > 30 {
			return false
		}
		seen[v] = true
		switch x := v.(type) {
		case *ssa.Parameter:
			if x.Parent() != f {
				return false
			}
			return !(f.Signature.Recv() != nil && len(f.Params) > 0 && x == f.Params[0])
		case *ssa.Phi:
			for _, e := range x.Edges {
				if walk(e, d+1) {
					return true
				}
			}
		case *ssa.TypeAssert:
			return walk(x.X, d+1)
		case *ssa.ChangeType:
			return walk(x.X, d+1)
		case *ssa.Extract:
			if ta, ok := x.Tuple.(*ssa.TypeAssert); ok {
				return walk(ta.X, d+1)
			}
		case *ssa.Slice:
			return walk(x.X, d+1)
		case *ssa.UnOp:
			if x.Op != token.MUL {
				return false
			}
			switch a := x.X.(type) {
			case *ssa.IndexAddr:
				return walk(a.X, d+1)
			case *ssa.Alloc:
				for _, ref := range *a.Referrers() {
					if st, ok := ref.(*ssa.Store); ok && st.Addr == ssa.Value(a) && walk(st.Val, d+1) {
						return true
					}
				}
			}
		case *ssa.Index:
			return walk(x.X, d+1)
		}
		return false
	}
	return walk(v, 0)
}

// oneElemAway: the reflect value / type whose Kind is compared is reached from reflect.ValueOf(x) (or its Type) by
// exactly one Elem() — not through a loop that strips every pointer level.
func oneElemAway(v ssa.Value) bool {
	elems := 0
	for d := 0; d < 12 && v != nil; d++ {
		switch x := v.(type) {
		case *ssa.Phi:
			return false // merged over a loop: an unknown number of Elem() steps
		case *ssa.Call:
			n := calleeName(x)
			switch {
			case strings.HasSuffix(n, ".Elem"):
				elems++
				if x.Call.IsInvoke() || len(x.Call.Args) == 0 {
					v = x.Call.Value
				} else {
					v = x.Call.Args[0]
				}
				continue
			case strings.HasSuffix(n, ".Type"):
				if x.Call.IsInvoke() || len(x.Call.Args) == 0 {
					v = x.Call.Value
				} else {
					v = x.Call.Args[0]
				}
				continue
			case n == "reflect.ValueOf" || n == "reflect.TypeOf":
				return elems == 1
			case n == "reflect.Indirect":
				elems++
				v = x.Call.Args[0]
				continue
			}
			if x.Call.IsInvoke() && x.Call.Method.Name() == "Elem" {
				elems++
				v = x.Call.Value
				continue
			}
			return false
		case *ssa.MakeInterface:
			v = x.X
			continue
		case *ssa.UnOp:
			if al, ok := x.X.(*ssa.Alloc); ok {
				if sv := singleStore(al); sv != nil {
					v = sv
					continue
				}
			}
			return false
		default:
			return false
		}
	}
	return false
}
